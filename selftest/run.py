# Compiler self-test: synthetic modules covering each cell kind/operator vs amaranth.sim on random + corner vectors.
import sys, os, random
sys.path.insert(0, os.path.dirname(os.path.dirname(os.path.abspath(__file__))))
from amaranth import *
from amaranth.lib.memory import Memory
from rtlmc.model import Model, Design, Cursor
from rtlmc import pysim


class Ops(Elaboratable):
    def __init__(self, w):
        self.w = w
        self.a = Signal(w); self.b = Signal(w); self.s = Signal(range(w + 2)); self.c = Signal()
        self.outs = {}
    def elaborate(self, platform):
        m = Module()
        a, b, s, c, w = self.a, self.b, self.s, self.c, self.w
        sa, sb = a.as_signed(), b.as_signed()
        exprs = dict(add=a + b, sub=a - b, neg=-a, inv=~a, and_=a & b, or_=a | b, xor=a ^ b, eq=a == b, ne=a != b,
                     lt=a < b, le=a <= b, gt=a > b, ge=a >= b, slt=sa < sb, sle=sa <= sb, sgt=sa > sb, sge=sa >= sb,
                     shl=(a << s[:3])[:w], shr=a >> s, sshr=(sa >> s), mux=Mux(c, a, b), any=a.any(), all=a.all(), par=a.xor(),
                     bool_=a.bool(), part=a.bit_select(s, 3), wpart=a.word_select(s[:2], max(1, w // 4)), cat=Cat(a[w // 2:], b[:w // 2]),
                     match=a.matches("1" + "-" * (w - 1)) if w > 1 else a.matches("1"), sadd=(sa + sb),
                     rol=a.rotate_left(1), absd=abs(sa))
        if w <= 32:
            exprs.update(mul=(a * b)[:w], div=a // Mux(b == 0, 1, b), mod=a % Mux(b == 0, 1, b))
        for k, e in exprs.items():
            o = Signal(len(e), name="o_" + k)
            m.d.comb += o.eq(e)
            self.outs[k] = o
        # sequential + switch/priority + partial assignment
        r = Signal(w, name="r_reg", init=1)
        with m.Switch(s[:2]):
            with m.Case(0): m.d.sync += r.eq(r + a)
            with m.Case(1): m.d.sync += r[0].eq(c)
            with m.Case("1-"):
                with m.If(c): m.d.sync += r.bit_select(s, 1).eq(1)
                with m.Elif(a[0]): m.d.sync += r.eq(b)
        self.outs["r"] = r
        return m


class Mem(Elaboratable):
    def __init__(self, transparent):
        self.wa = Signal(2); self.wd = Signal(8); self.we = Signal(2); self.ra = Signal(2); self.re = Signal(); self.ara = Signal(2)
        self.rd = Signal(8); self.ard = Signal(8); self.transparent = transparent
    def elaborate(self, platform):
        m = Module()
        m.submodules.mem = mem = Memory(shape=8, depth=3, init=[5, 6])
        wp = mem.write_port(granularity=4)
        rp = mem.read_port(transparent_for=(wp,) if self.transparent else ())
        ap = mem.read_port(domain="comb")
        m.d.comb += [wp.addr.eq(self.wa), wp.data.eq(self.wd), wp.en.eq(self.we), rp.addr.eq(self.ra), rp.en.eq(self.re),
                     self.rd.eq(rp.data), ap.addr.eq(self.ara), self.ard.eq(ap.data)]
        return m


def run_case(name, build, n, rnd):
    model = Model(build)
    cur = Cursor(model, None, [])
    widths = model.in_widths
    for i in range(n):
        vec = []
        for w in widths:
            r = rnd.random()
            if r < 0.15: v = 0
            elif r < 0.3: v = (1 << w) - 1
            elif r < 0.4: v = 1 << rnd.randrange(w)
            else: v = rnd.getrandbits(w)
            vec.append(v)
        cur.step_vec(tuple(vec))
    k = pysim.replay(model, cur.log)
    print(f"selftest {name}: {k} cycles agree with amaranth.sim ({model.cells} cells)")


def main():
    rnd = random.Random(int(os.environ.get("VERIF_SEED", "0") or 0))
    for w in (1, 4, 8, 31, 32, 33, 63, 64, 65, 100, 120):
        def build(w=w):
            d = Ops(w)
            f = Fragment.get(d, None)   # populate outs
            d2 = Ops(w)
            return _ops_design(d2)
        run_case(f"ops{w}", build, 300, rnd)
    for t in (False, True):
        def buildm(t=t):
            d = Mem(t)
            return Design(d, dict(wa=d.wa, wd=d.wd, we=d.we, ra=d.ra, re=d.re, ara=d.ara), dict(rd=d.rd, ard=d.ard))
        run_case(f"mem_transparent={t}", buildm, 600, rnd)
    print("selftest ok")


class _OpsWrap(Elaboratable):
    """Ops with its output signals created eagerly so they can be listed as ports before elaboration."""
    def __init__(self, w):
        self.inner = Ops(w)
    def elaborate(self, platform):
        return self.inner.elaborate(platform)


def _ops_design(d):
    # elaborate once to learn output names/widths, then wrap in a module that re-exports them
    class Top(Elaboratable):
        def __init__(self):
            self.d = d
            self.m = d.elaborate(None)   # builds d.outs
        def elaborate(self, platform):
            return self.m
    t = Top()
    return Design(t, dict(a=d.a, b=d.b, s=d.s, c=d.c), dict(d.outs))


if __name__ == "__main__":
    main()
