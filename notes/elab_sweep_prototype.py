import warnings, time, traceback, sys
warnings.filterwarnings("ignore")
from amaranth import *
from amaranth.hdl.rec import Record
from amaranth.hdl import _nir as nir
from cgen import Compiler
from nl import stats

def flat(rec):
    out = []
    for name, *_ in rec.layout:
        f = getattr(rec, name)
        out += flat(f) if hasattr(f, 'layout') else [f]
    return out
def sigs(obj):
    out = []
    for n, v in vars(obj).items():
        if isinstance(v, Signal): out.append(v)
        elif isinstance(v, Record): out += flat(v)
    return out

def try_dut(name, make):
    try:
        t = time.time()
        dut, ports = make()
        c = Compiler(dut, ports, [])
        src = c.generate()
        lib = c.build()
        s = stats(c.nl)
        clks = sorted(set(str(x.clk) for x in c.nl.cells if isinstance(x, nir.FlipFlop)))
        arst = sorted(set(str(x.arst) for x in c.nl.cells if isinstance(x, nir.FlipFlop)))
        other = [k for k in s['types'] if k not in ('Top','Operator','Matches','PriorityMatch','AssignmentList','Part','Memory','SyncReadPort','SyncWritePort','FlipFlop','AsyncReadPort')]
        print(f"OK   {name:34s} cells={s['cells']:5d} ff={s['ffbits']:5d} mem={s['membits']:6d} maxw={s['maxw']:4d} state={lib.rtl_state_size():4d}B clks={len(clks)} arst={arst} other={other} ops={[o for o in s['ops'] if o in ('*','u//','u%','s>>','s<','s>','s<=','s>=','<<')]} {time.time()-t:.1f}s")
    except Exception as e:
        tb = traceback.format_exc().strip().splitlines()
        print(f"FAIL {name:34s} {type(e).__name__}: {str(e)[:150]} @ {tb[-3].strip()[:120] if len(tb)>3 else ''}")

from luna.gateware.interface.utmi import UTMIInterface
from usb_protocol.emitters import DeviceDescriptorCollection
def descs():
    d = DeviceDescriptorCollection()
    with d.DeviceDescriptor() as x:
        x.idVendor=0x1209; x.idProduct=1; x.iManufacturer="L"; x.bNumConfigurations=1
    with d.ConfigurationDescriptor() as c:
        with c.InterfaceDescriptor() as i:
            i.bInterfaceNumber=0
            with i.EndpointDescriptor() as e: e.bEndpointAddress=0x01; e.wMaxPacketSize=8
    return d

D = {}
def reg(name):
    def deco(f): D[name] = f; return f
    return deco

@reg("C01 USBTokenDetector")
def _():
    from luna.gateware.usb.usb2.packet import USBTokenDetector
    u = UTMIInterface(); d = USBTokenDetector(utmi=u); return d, flat(u)+[d.address, d.speed]+flat(d.interface)
@reg("C02 USBDataPacketReceiver")
def _():
    from luna.gateware.usb.usb2.packet import USBDataPacketReceiver
    u = UTMIInterface(); d = USBDataPacketReceiver(utmi=u, standalone=True); return d, flat(u)+flat(d.stream)+[d.packet_complete,d.crc_mismatch,d.ready_for_response,d.packet_id]
@reg("C03 USBDataPacketGenerator")
def _():
    from luna.gateware.usb.usb2.packet import USBDataPacketGenerator
    d = USBDataPacketGenerator(standalone=True); return d, flat(d.stream)+flat(d.tx)+[d.data_pid]
@reg("C04 HandshakeGen/Det")
def _():
    from luna.gateware.usb.usb2.packet import USBHandshakeGenerator
    d = USBHandshakeGenerator(); return d, sigs(d)
@reg("C05 InterpacketTimer")
def _():
    from luna.gateware.usb.usb2.packet import USBInterpacketTimer, InterpacketTimerInterface
    d = USBInterpacketTimer(); i = InterpacketTimerInterface(); d.add_interface(i); return d, flat(i)+[d.speed]
@reg("C06 USBSetupDecoder")
def _():
    from luna.gateware.usb.usb2.request import USBSetupDecoder
    u = UTMIInterface(); d = USBSetupDecoder(utmi=u, standalone=True); return d, flat(u)+flat(d.packet)+[d.ack, d.speed]
@reg("C09 GetDescriptorHandlerBlock")
def _():
    from luna.gateware.usb.usb2.descriptor import GetDescriptorHandlerBlock
    d = GetDescriptorHandlerBlock(descs(), max_packet_length=8); return d, sigs(d)
@reg("C09 GetDescriptorHandlerDistrib")
def _():
    from luna.gateware.usb.usb2.descriptor import GetDescriptorHandlerDistributed
    d = GetDescriptorHandlerDistributed(descs(), max_packet_length=8); return d, sigs(d)
@reg("C15 iso IN ep (in device)")
def _():
    from luna.gateware.usb.usb2.device import USBDevice
    from luna.gateware.usb.usb2.endpoints.isochronous_stream_in import USBIsochronousStreamInEndpoint
    u = UTMIInterface(); dev = USBDevice(bus=u, handle_clocking=False)
    e = USBIsochronousStreamInEndpoint(endpoint_number=1, max_packet_size=4); dev.add_endpoint(e)
    return dev, flat(u)+[dev.connect, e.bytes_in_frame, e.stream.valid, e.stream.ready, e.stream.payload]
@reg("C16 iso OUT ep (in device)")
def _():
    from luna.gateware.usb.usb2.device import USBDevice
    from luna.gateware.usb.usb2.endpoints.isochronous_stream_out import USBIsochronousStreamOutEndpoint
    u = UTMIInterface(); dev = USBDevice(bus=u, handle_clocking=False)
    e = USBIsochronousStreamOutEndpoint(endpoint_number=1, max_packet_size=4); dev.add_endpoint(e)
    return dev, flat(u)+[dev.connect, e.stream.valid, e.stream.ready, e.stream.payload.data, e.stream.payload.first, e.stream.payload.last]
@reg("C17 signal IN ep (in device)")
def _():
    from luna.gateware.usb.usb2.device import USBDevice
    from luna.gateware.usb.usb2.endpoints.status import USBSignalInEndpoint
    u = UTMIInterface(); dev = USBDevice(bus=u, handle_clocking=False)
    e = USBSignalInEndpoint(width=16, endpoint_number=2, endianness="big"); dev.add_endpoint(e)
    return dev, flat(u)+[dev.connect, e.signal, e.status_read_complete]
@reg("C18 FIFO")
def _():
    from luna.gateware.memory import TransactionalizedFIFO
    d = TransactionalizedFIFO(width=2, depth=5); return d, sigs(d)
@reg("C19 ResetSequencer")
def _():
    from luna.gateware.usb.usb2.reset import USBResetSequencer
    d = USBResetSequencer(); return d, sigs(d)
@reg("C22-24 UTMITranslator")
def _():
    from luna.gateware.interface.ulpi import UTMITranslator
    u = Record([('data',[('i',8),('o',8),('oe',1)]),('nxt',[('i',1)]),('stp',[('o',1)]),('dir',[('i',1)])]); d = UTMITranslator(ulpi=u, handle_clocking=False)
    return d, flat(u)+[v for v in vars(d).values() if isinstance(v, Signal)]
@reg("C25 GatewarePHY")
def _():
    from luna.gateware.interface.gateware_phy import GatewarePHY
    io = Record([('d_p',[('i',1),('o',1),('oe',1)]),('d_n',[('i',1),('o',1),('oe',1)]),('pullup',[('o',1)]),('pulldown',[('o',1)])])
    d = GatewarePHY(io=io); return d, flat(io)+sigs(d)
@reg("C26 StreamArbiter x3")
def _():
    from luna.gateware.stream.arbiter import StreamArbiter
    from luna.gateware.stream import StreamInterface
    d = StreamArbiter(); ss = [StreamInterface(payload_width=2) for _ in range(3)]
    for s in ss: d.add_stream(s)
    return d, sum((flat(s) for s in ss), [])+flat(d.source)+[d.idle]
@reg("C26 HeaderQueueArbiter x2")
def _():
    from luna.gateware.usb.usb3.link.header import HeaderQueueArbiter, HeaderQueue
    d = HeaderQueueArbiter(); ss = [HeaderQueue() for _ in range(2)]
    for s in ss: d.add_producer(s)
    return d, sum((flat(s) for s in ss), [])+flat(d.source)+[d.idle]
@reg("C27 ConstantStreamGenerator32")
def _():
    from luna.gateware.stream.generator import ConstantStreamGenerator
    from luna.gateware.usb.stream import SuperSpeedStreamInterface
    d = ConstantStreamGenerator(b"HELLO, WORLD", stream_type=SuperSpeedStreamInterface, max_length_width=16)
    return d, sigs(d)
@reg("C27 StreamSerializer")
def _():
    from luna.gateware.stream.generator import StreamSerializer
    d = StreamSerializer(data_length=3, max_length_width=2); return d, sigs(d)+list(d.data)
@reg("C28 BoundaryDetector")
def _():
    from luna.gateware.usb.stream import USBOutStreamBoundaryDetector
    d = USBOutStreamBoundaryDetector(); return d, sigs(d)
@reg("C30 crc32")
def _():
    from luna.gateware.usb.usb3.link.crc import DataPacketPayloadCRC
    d = DataPacketPayloadCRC(); return d, sigs(d)
@reg("C30 hdr crc16")
def _():
    from luna.gateware.usb.usb3.link.crc import HeaderPacketCRC
    d = HeaderPacketCRC(); return d, sigs(d)
@reg("C31 Scrambler")
def _():
    from luna.gateware.usb.usb3.physical.scrambling import Scrambler
    d = Scrambler(); return d, sigs(d)
@reg("C32 CTCSkipRemover")
def _():
    from luna.gateware.usb.usb3.physical.ctc import CTCSkipRemover
    d = CTCSkipRemover(); return d, sigs(d)
@reg("C33 CTCSkipInserter")
def _():
    from luna.gateware.usb.usb3.physical.ctc import CTCSkipInserter
    d = CTCSkipInserter(); return d, sigs(d)
@reg("C34 RxWordAligner")
def _():
    from luna.gateware.usb.usb3.physical.alignment import RxWordAligner
    d = RxWordAligner(); return d, sigs(d)
@reg("C35 LinkCommandGenerator")
def _():
    from luna.gateware.usb.usb3.link.command import LinkCommandGenerator
    d = LinkCommandGenerator(); return d, sigs(d)
@reg("C35 LinkCommandDetector")
def _():
    from luna.gateware.usb.usb3.link.command import LinkCommandDetector
    d = LinkCommandDetector(); return d, sigs(d)
@reg("C36 RawPacketTransmitter")
def _():
    from luna.gateware.usb.usb3.link.transmitter import RawPacketTransmitter
    d = RawPacketTransmitter(); return d, sigs(d)
@reg("C37/38 HeaderPacketReceiver")
def _():
    from luna.gateware.usb.usb3.link.receiver import HeaderPacketReceiver
    d = HeaderPacketReceiver(); return d, sigs(d)
@reg("C39 PacketTransmitter")
def _():
    from luna.gateware.usb.usb3.link.transmitter import PacketTransmitter
    d = PacketTransmitter(ss_clock_frequency=1e6); return d, sigs(d)
@reg("C40 DataPacketReceiver")
def _():
    from luna.gateware.usb.usb3.link.data import DataPacketReceiver
    d = DataPacketReceiver(); return d, sigs(d)
@reg("C41 LTSSM")
def _():
    from luna.gateware.usb.usb3.link.ltssm import LTSSMController
    d = LTSSMController(ss_clock_frequency=1e4); return d, sigs(d)
@reg("C42 LFPSDetector polling")
def _():
    from luna.gateware.usb.usb3.physical import lfps
    d = lfps.LFPSDetector(lfps._PollingLFPS, ss_clk_frequency=10e6); return d, sigs(d)
@reg("C42 LFPSGenerator")
def _():
    from luna.gateware.usb.usb3.physical import lfps
    d = lfps.LFPSGenerator(lfps._PollingLFPS, 10e6); return d, sigs(d)
@reg("C43 TSBurstDetector TS2")
def _():
    from luna.gateware.usb.usb3.link.ordered_sets import TSBurstDetector, TS2_SET_DATA
    d = TSBurstDetector(set_data=TS2_SET_DATA, sets_in_burst=2, include_config=True); return d, sigs(d)
@reg("C43 TSEmitter TS2")
def _():
    from luna.gateware.usb.usb3.link.ordered_sets import TSEmitter, TS2_SET_DATA
    d = TSEmitter(set_data=TS2_SET_DATA, transmit_burst_length=2, include_config=True); return d, sigs(d)
@reg("C44 IdleHandshakeHandler")
def _():
    from luna.gateware.usb.usb3.link.idle import IdleHandshakeHandler
    d = IdleHandshakeHandler(); return d, sigs(d)
@reg("C44 LinkMaintenanceTimers")
def _():
    from luna.gateware.usb.usb3.link.timers import LinkMaintenanceTimers
    d = LinkMaintenanceTimers(ss_clock_frequency=1e6); return d, sigs(d)
@reg("C45 TransactionPacketGenerator")
def _():
    from luna.gateware.usb.usb3.protocol.transaction import TransactionPacketGenerator
    d = TransactionPacketGenerator(); return d, sigs(d)
@reg("C46 SuperSpeedStreamInEndpoint")
def _():
    from luna.gateware.usb.usb3.endpoints.stream import SuperSpeedStreamInEndpoint
    d = SuperSpeedStreamInEndpoint(endpoint_number=1, max_packet_size=16)
    i = d.interface
    return d, flat(d.stream)+flat(i.tx)+flat(i.handshakes_in)+flat(i.handshakes_out)+[i.tx_zlp,i.tx_length,i.tx_sequence_number,i.tx_endpoint_number,i.ep_reset]
@reg("C47 TimestampPacketReceiver")
def _():
    from luna.gateware.usb.usb3.protocol.timestamp import TimestampPacketReceiver
    d = TimestampPacketReceiver(); return d, sigs(d)
@reg("C48 SuperSpeedSetupDecoder")
def _():
    from luna.gateware.usb.usb3.application.request import SuperSpeedSetupDecoder
    d = SuperSpeedSetupDecoder(); return d, sigs(d)
@reg("C48 SS GetDescriptorHandler")
def _():
    from luna.gateware.usb.usb3.application.descriptor import GetDescriptorHandler
    d = GetDescriptorHandler(descs()); return d, sigs(d)
@reg("C49 UARTTransmitter")
def _():
    from luna.gateware.interface.uart import UARTTransmitter
    d = UARTTransmitter(divisor=3); return d, sigs(d)
@reg("C49 UARTTransmitter div1")
def _():
    from luna.gateware.interface.uart import UARTTransmitter
    d = UARTTransmitter(divisor=1); return d, sigs(d)
@reg("C49 UARTMultibyte")
def _():
    from luna.gateware.interface.uart import UARTMultibyteTransmitter
    d = UARTMultibyteTransmitter(byte_width=2, divisor=2); return d, sigs(d)
@reg("C50 SPIDeviceInterface w12")
def _():
    from luna.gateware.interface.spi import SPIDeviceInterface
    d = SPIDeviceInterface(word_size=12, clock_phase=1); return d, sigs(d)
@reg("C51 SPIRegisterInterface")
def _():
    from luna.gateware.interface.spi import SPIRegisterInterface
    d = SPIRegisterInterface(address_size=3, register_size=4)
    r = d.add_register(1, size=4); return d, sigs(d)+[r]
@reg("C52 I2CInitiator")
def _():
    from luna.gateware.interface.i2c import I2CInitiator
    pads = Record([('scl',[('i',1),('o',1),('oe',1)]),('sda',[('i',1),('o',1),('oe',1)])])
    d = I2CInitiator(pads, period_cyc=4); return d, flat(pads)+sigs(d)
@reg("C53 HyperRAMInterface")
def _():
    from luna.gateware.interface.psram import HyperRAMInterface, HyperBusPHY
    p = HyperBusPHY(); d = HyperRAMInterface(phy=p); return d, flat(p)+sigs(d)
@reg("C54 PHYResetController")
def _():
    from luna.gateware.architecture.car import PHYResetController
    d = PHYResetController(clock_frequency=1e6, reset_length=2e-6, stop_length=5e-6); return d, sigs(d)
@reg("C56 ILA")
def _():
    from luna.gateware.debug.ila import IntegratedLogicAnalyzer
    s = Signal(2); d = IntegratedLogicAnalyzer(signals=[s], sample_depth=4, samples_pretrigger=2); return d, [s]+sigs(d)
@reg("C57 USBSerialDevice")
def _():
    from luna.full_devices import USBSerialDevice
    u = UTMIInterface(); d = USBSerialDevice(bus=u, idVendor=0x1209, idProduct=1); return d, flat(u)+[d.connect]+flat(d.rx)+flat(d.tx)
@reg("C33 USB3PhysicalLayer?")
def _():
    from luna.gateware.usb.usb3.physical.layer import USB3PhysicalLayer
    from luna.gateware.interface.pipe import PIPEInterface
    p = PIPEInterface(width=4) if True else None
    d = USB3PhysicalLayer(phy=p, sync_frequency=1e6); return d, sigs(d)

only = sys.argv[1:]
for name, f in D.items():
    if only and not any(o in name for o in only): continue
    try_dut(name, f)
