import sys, random; sys.path.insert(0,'/verif')
from rtlmc.model import Model, Design, Cursor
from rtlmc import pysim
from amaranth.hdl.rec import Record
def build():
    from luna.gateware.interface.gateware_phy import GatewarePHY
    io = Record([("d_p",[("i",1),("o",1),("oe",1)]),("d_n",[("i",1),("o",1),("oe",1)]),("pullup",[("o",1)]),("pulldown",[("o",1)])]) 
    phy = GatewarePHY(io=io)
    ins = dict(dp_i=io.d_p.i, dn_i=io.d_n.i, tx_data=phy.tx_data, tx_valid=phy.tx_valid, op_mode=phy.op_mode, term_select=phy.term_select, xcvr=phy.xcvr_select, dm_pd=phy.dm_pulldown, dp_pd=phy.dp_pulldown)
    obs = dict(dp_o=io.d_p.o, dn_o=io.d_n.o, dp_oe=io.d_p.oe, dn_oe=io.d_n.oe, pullup=io.pullup.o, pulldown=io.pulldown.o, tx_ready=phy.tx_ready, rx_data=phy.rx_data, rx_valid=phy.rx_valid, rx_active=phy.rx_active, line_state=phy.line_state, rx_error=phy.rx_error)
    return Design(phy, ins, obs, dict(dp_i=1), clocks={"usb_io": (1,0), "usb": (4,0)})
m = Model(build)
print(m.clk_names, m.clk_domains, m.nstate, m.cells)
cur = Cursor(m, None, [])
r = random.Random(1)
v = dict(dp_i=1, dn_i=0)
for i in range(4000):
    if i % 4 == 0:
        if r.random() < 0.3: v['tx_valid'] = r.randrange(2)
        v['tx_data'] = r.randrange(256)
        if r.random()<0.05: v['op_mode']=r.randrange(4)
    if r.random() < 0.2: v['dp_i'] = r.randrange(2); v['dn_i'] = 1 - v['dp_i'] if r.random()<0.9 else 0
    cur.step(**v)
print(pysim.replay(m, cur.log), "cycles agree")
