# C56 - IntegratedLogicAnalyzer captures exactly the samples following a trigger.     Per-cycle closure.
#
# Environment: any input value and any trigger value in every cycle (so: triggers before, during and right at the end of
# a capture, re-captures over old buffer contents, ...).  captured_sample_number is held at 0 in the explored graph;
# read-back is done as a *lookahead probe* on a fork of the reached state (trigger low, each address held 3 cycles,
# the value compared in the 3rd, which admits read latencies 0..2), in every cycle in which the monitor says
# "capture complete", so buffer corruption while idle is seen as well.
#
# Oracle (from the statement only; the `sampling` output is observed but nothing is demanded of it - the statement does
# not mention it, and e.g. raising it already in the trigger cycle is a legitimate implementation):
#   * a trigger strobed while no capture is in progress (before the first capture, or after `complete` has been seen)
#     starts a capture at T; triggers between T and the cycle in which `complete` rises are inert ("no trigger during
#     capture disturbs it").  A trigger strobed in the very cycle Tc in which `complete` rises may be taken either way
#     (the class takes it): the monitor then follows both hypotheses and a violation is an observation that no surviving
#     hypothesis explains;
#   * `complete` must rise within depth+pretrigger+8 cycles of T (bound chosen by the harness) and not before the
#     window lies in the past;
#   * the recorded window is depth consecutive inputs  input[T + c - pretrigger + n], n = 0..depth-1.  The statement
#     fixes "delayed by the configured pre-trigger count" but not whether the first stored sample is taken in the
#     trigger cycle or the one after (the class stores from T+1 because the trigger is registered): both c = 0 and
#     c = 1 are admitted, as a candidate set that must stay consistent over all captures of a history;
#   * while complete and until the next trigger: `complete` stays high and reading back address n returns sample n of
#     the window; before the first trigger `complete` is low;
#   * after a re-trigger a `complete` that is still high from the previous capture is tolerated for up to 3 cycles
#     (until it first drops); after that a high `complete` is the claim that the new capture is done and is judged as
#     such (window in the past? read-back equal?).
from rtlmc.model import Design, Violation
from rtlmc.explore import Spec

PROPERTY = "C56"
TECHNIQUE = "per-cycle BFS closure over all input/trigger sequences; read-back of the whole buffer as a lookahead probe in every 'complete' state"


def configs(tier):
    if tier == "quick":
        shapes = [(2, 2, 0), (2, 2, 1), (2, 3, 1), (1, 4, 0), (1, 4, 3), (1, 8, 1), (1, 3, 2), (1, 5, 2), (1, 2, 3), (1, 4, 1)]
    else:
        shapes = [(1, d, p) for d in (2, 3, 4, 5, 8) for p in (0, 1, 2, 3)]
        shapes += [(2, d, p) for d in (2, 3) for p in (0, 1, 2, 3)] + [(2, 4, 0), (2, 4, 1), (2, 4, 2), (3, 2, 0), (3, 2, 1), (3, 3, 0), (1, 12, 1), (1, 10, 2)]
    return [dict(width=w, depth=d, pretrigger=p) for w, d, p in shapes]


class IlaSpec(Spec):
    n_validate = 6

    def __init__(self, cfg, tier):
        super().__init__(cfg, tier)
        self.w, self.depth, self.p = cfg["width"], cfg["depth"], cfg["pretrigger"]
        self._acts = [(v, t) for v in range(1 << self.w) for t in (0, 1)]
        self.limit = self.depth + self.p + 8
        self.time_budget = 600 if tier == "quick" else 3000     # safety net only; sized to finish in seconds
        self.max_states = 400_000 if tier == "quick" else 3_000_000

    def build(self):
        from amaranth import Signal
        from luna.gateware.debug.ila import IntegratedLogicAnalyzer
        sig = Signal(self.w, name="tb_probe")
        d = IntegratedLogicAnalyzer(signals=[sig], sample_depth=self.depth, samples_pretrigger=self.p)
        ins = dict(sig=sig, trigger=d.trigger, addr=d.captured_sample_number)
        obs = dict(captured_sample=d.captured_sample, complete=d.complete, sampling=d.sampling)
        return Design(d, ins, obs)

    # env = (hist, hyps)
    #   hist  the last `pretrigger` input values (oldest first)
    #   hyps  tuple of monitor hypotheses (mode, rec, t, cset, wins, stale):
    #     mode  0 = never captured, 1 = capturing, 2 = complete
    #     rec   (capturing) inputs from cycle T-pretrigger on, truncated to depth+1 entries;  t = cycles since T
    #     cset  admitted conventions c;  wins = ((c, window), ...) once complete
    #     stale (capturing) 1 while `complete` is still high from the previous capture
    STALE_GRACE = 3

    def env0(self):
        return ((0,) * self.p, ((0, (), 0, (0, 1), (), 0),))

    def actions(self, env):
        return self._acts

    def assumptions(self):
        return ["a trigger in the cycle in which `complete` rises may or may not start a new capture (both followed); before that cycle triggers are inert, after it they start a capture",
                "convention left open by the statement: first stored sample taken in the trigger cycle (c=0) or the following one (c=1); consistent per history",
                "read-back holds each address for 3 cycles with trigger low and compares in the 3rd (admits read latency 0..2)",
                "liveness bound chosen by the harness: complete within depth+pretrigger+8 cycles of the trigger",
                "a `complete` left over from the previous capture may stay high for up to 3 cycles after a re-trigger",
                "nothing is demanded of the `sampling` output (not part of the statement)",
                "inputs before reset release are 0 (pre-trigger history of the very first cycles)"]

    def _readback(self, cur):
        f = cur.fork()
        got = []
        for n in range(self.depth):
            f.step(addr=n); f.step(addr=n)
            got.append(f.step(addr=n).captured_sample)
        return tuple(got)

    class _Fail(Exception):
        def __init__(self, rule, detail=None):
            self.rule, self.detail = rule, detail

    def _hyp_step(self, h, hist, inp, trig, o, rb):
        """one cycle of one hypothesis; returns its successors; rb() = lazily computed read-back of the reached state"""
        Fail = self._Fail
        mode, rec, t, cset, wins, stale = h
        p, depth = self.p, self.depth

        def checked_done(cset, wins):
            got = rb()
            keep = tuple((c, w) for c, w in wins if w == got)
            if not keep:
                raise Fail("readback-mismatch", dict(read=list(got), expected_by_convention={str(c): list(w) for c, w in wins}))
            self.cover["readback"] += 1
            return (2, (), 0, tuple(c for c, _ in keep), keep, 0)

        if mode == 0:
            if o.complete: raise Fail("complete-before-any-capture")
            if trig:
                self.cover["capture_started"] += 1
                return [(1, hist + (inp,), 0, cset, (), 0)]
            return [h]
        if mode == 2:
            if not o.complete: raise Fail("complete-dropped")
            if trig:
                self.cover["retrigger"] += 1
                self.cover["capture_started"] += 1
                return [(1, hist + (inp,), 0, cset, (), 1)]
            return [checked_done(cset, wins)]
        # capturing
        t += 1
        if len(rec) < depth + 1: rec = rec + (inp,)
        if stale and not o.complete: stale = 0
        if stale and t > self.STALE_GRACE: stale = 0           # from now on a high `complete` is a completion claim
        if stale or not o.complete:
            if trig: self.cover["trigger_during_capture"] += 1
            if o.sampling: self.cover["sampling_high_during_capture"] += 1
            if t > self.limit:
                raise Fail("complete-missing", dict(cycles_since_trigger=t))
            return [(1, rec, t, cset, (), stale)]
        # window sample n (convention c) = rec[c+n]; rec[i] is the input of cycle T-p+i; the last sample must be the input
        # of a cycle before this one (T+t)
        ok = tuple(c for c in cset if c + depth - 1 <= p + t - 1 and c + depth <= len(rec))
        if not ok:
            raise Fail("complete-early", dict(cycles_since_trigger=t, depth=depth, pretrigger=p))
        wins = tuple((c, rec[c:c + depth]) for c in ok)
        self.cover["complete"] += 1
        if not trig:
            return [checked_done(ok, wins)]
        # trigger in the cycle in which complete rises: accepted (new capture from this cycle) or not (still complete)
        self.cover["retrigger_at_completion"] += 1
        succ = [(1, hist + (inp,), 0, ok, (), 1)]
        try:
            succ.append(checked_done(ok, wins))
        except Fail:
            pass
        return succ

    def apply(self, cur, env, a):
        inp, trig = a
        hist, hyps = env
        o = cur.step(sig=inp, trigger=trig, addr=0)
        cache = []
        def rb():
            if not cache: cache.append(self._readback(cur))
            return cache[0]
        nxt, first_fail = [], None
        for h in hyps:
            try:
                for h2 in self._hyp_step(h, hist, inp, trig, o, rb):
                    if h2 not in nxt: nxt.append(h2)
            except self._Fail as f:
                if first_fail is None: first_fail = f
        if not nxt:
            raise Violation(first_fail.rule, first_fail.detail)
        if len(nxt) > 1: self.cover["two_hypotheses"] += 1
        if self.p: hist = (hist + (inp,))[-self.p:]
        self.outcomes.add((tuple(h[0] for h in nxt), o.sampling, o.complete))
        return (hist, tuple(nxt))

    def goals(self):
        return ["capture_started", "complete", "readback", "retrigger", "trigger_during_capture", "retrigger_at_completion"]


def make(cfg, tier):
    return IlaSpec(cfg, tier)
