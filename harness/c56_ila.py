# C56 - IntegratedLogicAnalyzer captures exactly the samples following a trigger.     Per-cycle closure.
#
# Environment: any input value and any trigger value in every cycle (so: triggers before, during and right at the end of
# a capture, re-captures over old buffer contents, ...).  captured_sample_number is held at 0 in the explored graph;
# read-back is done as a *lookahead probe* on a fork of the reached state (trigger low, each address held 3 cycles,
# the value compared in the 3rd, which admits read latencies 0..2), in every cycle in which the monitor says
# "capture complete", so buffer corruption while idle is seen as well.
#
# Oracle (from the statement and the attribute documentation):
#   * a trigger strobed in a cycle T in which `sampling` is low starts a capture; triggers while `sampling` is high are
#     inert ("no trigger during capture disturbs it");
#   * from T+1 until `complete` rises `sampling` must be high; `complete` must rise within depth+pretrigger+4 cycles
#     (bound chosen by the harness) and not before the window lies in the past;
#   * the recorded window is depth consecutive inputs  input[T + c - pretrigger + n], n = 0..depth-1.  The statement
#     fixes "delayed by the configured pre-trigger count" but not whether the first stored sample is taken in the
#     trigger cycle or the one after (the class stores from T+1 because the trigger is registered): both c = 0 and
#     c = 1 are admitted, as a candidate set that must stay consistent over all captures of a history;
#   * while complete and until the next accepted trigger: `complete` stays high, `sampling` low, and reading back
#     address n returns sample n of the window; before the first trigger both flags are low;
#   * after a re-trigger a `complete` still high in T+1 is tolerated; from T+2 on a high `complete` is taken as the claim
#     that the new capture is done and is judged as such (window in the past? read-back equal?).
from rtlmc.model import Design, Violation
from rtlmc.explore import Spec

PROPERTY = "C56"
TECHNIQUE = "per-cycle BFS closure over all input/trigger sequences; read-back of the whole buffer as a lookahead probe in every 'complete' state"


def configs(tier):
    if tier == "quick":
        shapes = [(2, 2, 0), (2, 2, 1), (2, 3, 1), (1, 4, 0), (1, 4, 3), (1, 8, 1), (1, 3, 2), (1, 5, 2), (1, 2, 3), (1, 4, 1)]
    else:
        shapes = [(1, d, p) for d in (2, 3, 4, 5, 8) for p in (0, 1, 2, 3)]
        shapes += [(2, d, p) for d in (2, 3) for p in (0, 1, 2, 3)] + [(2, 4, 0), (2, 4, 1), (2, 4, 2), (3, 2, 0), (3, 2, 1), (3, 3, 0), (1, 12, 1), (1, 10, 2)]
    return [dict(width=w, depth=d, pretrigger=p) for w, d, p in shapes]


class IlaSpec(Spec):
    n_validate = 6

    def __init__(self, cfg, tier):
        super().__init__(cfg, tier)
        self.w, self.depth, self.p = cfg["width"], cfg["depth"], cfg["pretrigger"]
        self._acts = [(v, t) for v in range(1 << self.w) for t in (0, 1)]
        self.limit = self.depth + self.p + 4
        self.time_budget = 600 if tier == "quick" else 3000     # safety net only; sized to finish in seconds
        self.max_states = 400_000 if tier == "quick" else 3_000_000

    def build(self):
        from amaranth import Signal
        from luna.gateware.debug.ila import IntegratedLogicAnalyzer
        sig = Signal(self.w, name="tb_probe")
        d = IntegratedLogicAnalyzer(signals=[sig], sample_depth=self.depth, samples_pretrigger=self.p)
        ins = dict(sig=sig, trigger=d.trigger, addr=d.captured_sample_number)
        obs = dict(captured_sample=d.captured_sample, complete=d.complete, sampling=d.sampling)
        return Design(d, ins, obs)

    # env = (mode, hist, rec, t, cset, wins, stale)
    #   mode  0 = never captured, 1 = capturing, 2 = complete
    #   hist  the last `pretrigger` input values (oldest first)
    #   rec   (capturing) inputs from cycle T-pretrigger on, truncated to depth+1 entries;  t = cycles since T
    #   cset  admitted conventions c;  wins = ((c, window), ...) once complete
    #   stale (capturing) 1 if `complete` was still high from the previous capture when the trigger came
    def env0(self):
        return (0, (0,) * self.p, (), 0, (0, 1), (), 0)

    def actions(self, env):
        return self._acts

    def assumptions(self):
        return ["a trigger counts as accepted iff `sampling` is low in the cycle it is strobed (the class's own status output)",
                "convention left open by the statement: first stored sample taken in the trigger cycle (c=0) or the following one (c=1); consistent per history",
                "read-back holds each address for 3 cycles with trigger low and compares in the 3rd (admits read latency 0..2)",
                "liveness bound chosen by the harness: complete within depth+pretrigger+4 cycles of the trigger",
                "inputs before reset release are 0 (pre-trigger history of the very first cycles)"]

    def _readback(self, cur, cset, wins):
        f = cur.fork()
        got = []
        for n in range(self.depth):
            f.step(addr=n); f.step(addr=n)
            got.append(f.step(addr=n).captured_sample)
        got = tuple(got)
        keep = tuple((c, w) for c, w in wins if w == got)
        if not keep:
            raise Violation("readback-mismatch", dict(read=list(got), expected_by_convention={str(c): list(w) for c, w in wins}))
        self.cover["readback"] += 1
        return tuple(c for c, _ in keep), keep

    def apply(self, cur, env, a):
        inp, trig = a
        mode, hist, rec, t, cset, wins, stale = env
        o = cur.step(sig=inp, trigger=trig, addr=0)
        p, depth = self.p, self.depth
        start = False
        if mode != 1:
            if o.sampling:
                raise Violation("sampling-while-idle", dict(after_capture=bool(mode)))
            if mode == 0 and o.complete:
                raise Violation("complete-before-any-capture", None)
            if mode == 2 and not o.complete:
                raise Violation("complete-dropped", None)
            if trig:
                start = True
                stale = o.complete
                if mode == 2: self.cover["retrigger"] += 1
        else:
            t += 1
            if len(rec) < depth + 1: rec = rec + (inp,)
            done_now = bool(o.complete)
            if stale and t <= 1 and done_now:
                done_now = False                 # grace: the previous capture's flag may still be visible in T+1
            if not done_now:
                if not o.sampling:
                    raise Violation("not-sampling-during-capture", dict(cycles_since_trigger=t))
                if trig: self.cover["trigger_during_capture"] += 1
                if t > self.limit:
                    raise Violation("complete-missing", dict(cycles_since_trigger=t))
            else:
                # window sample n (convention c) = rec[c+n]; rec[i] is the input of cycle T-p+i; the last sample must be
                # the input of a cycle before this one (T+t)
                ok = tuple(c for c in cset if c + depth - 1 <= p + t - 1 and c + depth <= len(rec))
                if not ok:
                    raise Violation("complete-early", dict(cycles_since_trigger=t, depth=depth, pretrigger=p))
                cset = ok
                wins = tuple((c, rec[c:c + depth]) for c in cset)
                mode, rec, t, stale = 2, (), 0, 0
                self.cover["complete"] += 1
                if o.sampling:
                    if trig: self.cover["trigger_during_capture"] += 1
                elif trig:
                    start = True
                    stale = 1
                    self.cover["retrigger_at_completion"] += 1
        if mode == 2 and not start:
            cset, wins = self._readback(cur, cset, wins)
        if start:
            mode, rec, t = 1, hist + (inp,), 0
            self.cover["capture_started"] += 1
        if p: hist = (hist + (inp,))[-p:]
        self.outcomes.add((mode, o.sampling, o.complete, cset))
        return (mode, hist, rec, t, cset, wins if mode == 2 else (), stale)

    def goals(self):
        return ["capture_started", "complete", "readback", "retrigger", "trigger_during_capture", "retrigger_at_completion"]


def make(cfg, tier):
    return IlaSpec(cfg, tier)
