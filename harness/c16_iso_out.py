# C16 - Isochronous OUT endpoints deliver only whole, CRC-valid packets.
# DUT: USBDevice (full speed, UTMI) + USBIsochronousStreamOutEndpoint(ep 1, mps, buffer_size); the consumer of the
# endpoint's output stream (`ready`) is part of the environment.  Macro-step mode: one action = one isochronous OUT
# transaction (OUT token + DATA0 packet, no handshake) with a consumer window placed anywhere inside it, an OUT
# transaction to another endpoint, or a consumer-only action.
#
# Oracle (reference queue written from the statement): after every action the beats the consumer took during the
# action followed by everything a lookahead drain gets out of the endpoint must equal
#   old queue ++ payload   (CRC-valid packet to this endpoint: delivered whole, `first` on its first byte, `last` on its final byte)
#   old queue              (corrupted packet / packet for another endpoint / or a valid packet dropped as a whole, which is
#                           only admitted when less than max_packet_size was free at some point of the transaction - class
#                           documentation: "if there isn't max_packet_size space in the endpoint buffer, additional data will
#                           be silently dropped")
# and nothing else (a prefix or any other part of a payload is a truncated packet).
from rtlmc.model import Violation
from rtlmc.explore import Spec
from rtlmc import usbref as U
from rtlmc.env.usb2_host import PruneCollision
from harness._usb2dev import build_device
from harness._outstream import StreamHost, payload_bytes, diff_kind

PROPERTY = "C16"
LEVEL_TEXT = ("All sequences (up to the depth bound) of isochronous OUT transactions (payload sizes 0..mps, good or corrupted CRC16), OUT "
              "transactions to another endpoint and consumer activity (drain k beats between transactions, or a ready window placed at "
              "chosen offsets inside a transaction) are enumerated on the real USBDevice + USBIsochronousStreamOutEndpoint netlist; after "
              "every action the complete contents of the output stream (lookahead drain) are compared with a reference queue of whole packets.")
TECHNIQUE = "explicit-state BFS over the elaborated netlist, macro-step (transaction-level) actions, reference queue + lookahead drain"

EP = 1


def configs(tier):
    def c(mps, buf, depth, win, gap=1, pace=1, **kw): return dict(mps=mps, buf=buf, gap=gap, pace=pace, depth=depth, win=win, **kw)
    if tier == "quick":
        return [c(2, 4, 5, "few"), c(2, 2, 5, "few"), c(2, 3, 5, "few", gap=2), c(2, 6, 5, "min"), c(3, 6, 4, "few"), c(3, 3, 4, "few", pace=2),
                c(3, 9, 4, "min"), c(4, 8, 4, "min"), c(4, 5, 4, "min", gap=3), c(2, 4, 3, "sweep"), c(3, 6, 4, "min", gap=12, clk60=1)]
    return [c(2, 4, 7, "few"), c(2, 2, 7, "few"), c(2, 3, 7, "few", gap=2), c(2, 6, 7, "min"), c(3, 6, 6, "few"), c(3, 3, 6, "few", pace=2),
            c(3, 4, 6, "few"), c(3, 9, 6, "min"), c(4, 8, 5, "few"), c(4, 5, 5, "few", gap=3), c(4, 4, 5, "few", pace=8), c(4, 12, 5, "min"),
            c(2, 4, 4, "sweep"), c(3, 6, 3, "sweep"), c(2, 3, 4, "sweep", pace=2), c(3, 6, 5, "few", gap=12, clk60=1)]


class IsoOutSpec(Spec):
    n_validate = 4
    validate_max_cycles = 4000

    def __init__(self, cfg, tier):
        super().__init__(cfg, tier)
        self.mps, self.cap = cfg["mps"], cfg["buf"]
        self.max_depth = cfg["depth"]
        self.time_budget = 600 if tier == "quick" else 1800
        self.host = StreamHost(self._decode, gap=cfg["gap"], pace=cfg["pace"], extra=dict(connect=1))
        self.offs = None
        h = self.host
        t_tok = h.event_cycles_no_response(3)
        mode = cfg["win"]
        # consumer windows: (offset relative to the first cycle after the data packet, length)
        if mode == "min": rel = [(-2, 1), (1, 2)]
        elif mode == "few": rel = [(-3, 1), (-1, 2), (1, 1), (2, 2)]
        else: rel = [(s, n) for s in range(-(4 + self.mps) * cfg["pace"], 2 + 2 * cfg["gap"]) for n in (1, 2)]
        acts = []
        for L in range(self.mps + 1):
            eop = t_tok + h.packet_cycles(3 + L)
            wins = [(0, 0), (0, 100000)] + [(eop + s, n) for s, n in rel]
            for s, n in wins:
                acts.append(("out", L, "ok", s, n))
            for s, n in wins[:2]:
                acts.append(("out", L, "bad", s, n))
        acts.append(("other", self.mps))
        self._acts_nodrain = acts
        self._drains = [("drain", 1), ("drain", 2), ("drain", self.cap + 2)]

    # ---- DUT
    def build(self):
        from luna.gateware.usb.usb2.endpoints.isochronous_stream_out import USBIsochronousStreamOutEndpoint
        mk = lambda: USBIsochronousStreamOutEndpoint(endpoint_number=EP, max_packet_size=self.mps, buffer_size=self.cap)
        design, h = build_device(control=None, endpoints=[mk], probe=False)
        ep = h["endpoints"][0]
        if self.cfg.get("clk60"):
            # the configuration USBDevice gives itself behind a ULPI PHY (60 MHz usb domain), kept at full speed
            dev = h["dev"]
            dev.data_clock, dev.always_fs = 60e6, False
            design.inputs.update(full_speed_only=dev.full_speed_only)
            design.defaults.update(full_speed_only=1)
        layout = ep.stream.payload.shape()
        self.offs = {name: (layout[name].offset, layout[name].width) for name in ("data", "first", "last")}
        design.inputs.update(ready=ep.stream.ready)
        design.observes.update(valid=ep.stream.valid, payload=ep.stream.payload.as_value())
        return design

    def _decode(self, o):
        f = lambda name: (o.payload >> self.offs[name][0]) & ((1 << self.offs[name][1]) - 1)
        return (f("data"), f("first"), f("last"))

    def assumptions(self):
        return self.host.assumptions() + [
            "clk60 configurations: USBDevice as it configures itself behind a ULPI PHY (data_clock 60 MHz, not always_fs) held at full speed by full_speed_only=1, UTMI wire driven directly; the host then leaves 12 cycles between packets (the 2 bit times = 10 cycles inter-packet delay)",
            "device at address 0, full speed; isochronous OUT data is sent as DATA0, every DATA packet is preceded by its OUT token",
            "payloads never exceed max_packet_size",
            "consumer: `ready` is high in one contiguous window per action (or never / always); it takes a beat whenever valid & ready",
            "a handshake sent by the device after an isochronous packet is not judged (the transition is dropped as a bus collision and counted under 'pruned-collision')"]

    # ---- environment / reference: env = (queue,)  queue = tuple of (byte, first, last)
    def env0(self): return ((),)

    def actions(self, env):
        return self._acts_nodrain + self._drains if env[0] else self._acts_nodrain

    def goals(self):
        return ["delivered-full", "delivered-short", "zlp", "dropped-no-room", "corrupt-ignored", "taken-during-transaction", "drained",
                "packet-into-partly-filled-buffer"]

    def _entries(self, L):
        p = payload_bytes(L)
        return tuple((b, 1 if i == 0 else 0, 1 if i == L - 1 else 0) for i, b in enumerate(p))

    def apply(self, cur, env, a):
        try:
            return self._apply(cur, env, a)
        except PruneCollision:
            self.cover["pruned-collision"] += 1
            return None

    def _apply(self, cur, env, a):
        queue, = env
        host, mps, cap = self.host, self.mps, self.cap
        kind = a[0]
        entries = None          # entries of a valid packet to this endpoint (delivered whole or dropped whole)
        context = None
        if kind == "drain":
            host.begin((0, a[1]))
            host.idle(cur, a[1])
            host.settle(cur)
            context = "iso:stream-changed-without-packet"
            self.cover["drained"] += 1
        elif kind == "other":
            host.begin(None)
            host.send(cur, U.token(U.OUT, 0, EP + 1), False)
            host.send(cur, U.data_packet(U.DATA0, payload_bytes(a[1])), False)
            context = "iso:foreign-endpoint-packet-contributed"
        else:
            _, L, var, s, n = a
            host.begin((s, n) if n else None)
            host.send(cur, U.token(U.OUT, 0, EP), False)
            host.send(cur, U.data_packet(U.DATA0, payload_bytes(L), corrupt=(var == "bad")), False)
            if host.consumed and n < 100000: self.cover["taken-during-transaction"] += 1
            if var == "bad":
                context = "iso:corrupt-packet-contributed"
                self.cover["corrupt-ignored"] += 1
            else:
                entries = self._entries(L)
        consumed = tuple(host.consumed)
        rest = host.drain_probe(cur, 2 * cap + 10)     # generous: idle cycles between beats/packets and a few hidden entries are fine
        observed = consumed + rest
        if entries is None:
            if observed != queue:
                k = diff_kind(observed, queue)
                raise Violation(context if k == "bytes" else "iso:" + k + "-on-queued-data", dict(action=a, expected=queue, observed=observed))
            new_queue = queue
        elif observed == queue + entries:
            new_queue = observed
            L = a[1]
            self.cover["zlp" if L == 0 else ("delivered-full" if L == mps else "delivered-short")] += 1
            if L and queue: self.cover["packet-into-partly-filled-buffer"] += 1
        elif observed == queue:
            free_min = cap - len(queue)
            if free_min >= mps:
                raise Violation("iso:valid-packet-dropped-although-whole-packet-fits", dict(action=a, free=free_min, mps=mps, queue=queue))
            new_queue = queue
            self.cover["dropped-no-room"] += 1
        else:
            expected = queue + entries
            k = diff_kind(observed, expected)
            if k != "bytes":
                raise Violation("iso:" + k, dict(action=a, expected=expected, observed=observed))
            ob = tuple(b for b, _, _ in observed); qb = tuple(b for b, _, _ in queue); eb = tuple(b for b, _, _ in entries)
            if ob[:len(qb)] == qb and _is_subsequence(ob[len(qb):], eb):
                raise Violation("iso:packet-truncated", dict(action=a, queue_before=queue, payload=eb, delivered_part=observed[len(qb):],
                                                              free_before=cap - len(queue), mps=mps))
            raise Violation("iso:payload-mangled", dict(action=a, expected=expected, observed=observed))
        self.outcomes.add((kind, a[1], len(new_queue) - len(queue) + len(consumed), len(consumed)))
        return (new_queue[len(consumed):],)


def _is_subsequence(part, whole):
    it = iter(whole)
    return all(any(x == y for y in it) for x in part)


def make(cfg, tier):
    return IsoOutSpec(cfg, tier)
