# C08 - SET_ADDRESS / SET_CONFIGURATION take effect exactly when their own status stage is ACKed.
# DUT: USBDevice + standard control endpoint (ep0 mps 8) + a bulk IN endpoint (ep1) that always has data + probe endpoint
# exposing active_address/active_config.  Macro-step mode, one action = one host transaction (or bus reset).
from rtlmc.model import Violation
from rtlmc.explore import Spec
from rtlmc import usbref as U
from rtlmc.env.usb2_host import Host, PruneCollision, SE0, J, K
from harness._usb2dev import build_device

PROPERTY = "C08"
LEVEL_TEXT = ("All interleavings (up to the depth bound) of SET_ADDRESS/SET_CONFIGURATION control transfers, their status stages with and "
              "without the host's ACK reaching the device, bulk IN transactions on another endpoint, tokens at old/new/foreign addresses and bus "
              "resets are enumerated on the real USBDevice netlist; the address/configuration registers are compared with a reference host "
              "after every transaction and watched on every cycle.")

A1, A2 = 0x33, 0x35
A3, A3_ALIAS = 0x64, 0x24     # an address above 63 and the address it would alias to if bit 6 were dropped
REQS = {
    "SA33": U.setup_bytes(0x00, 5, A1, 0, 0),
    "SAB5": U.setup_bytes(0x00, 5, 0x0080 | A2, 0, 0),     # bit 7 of wValue must be ignored: address = low 7 bits
    "SA64": U.setup_bytes(0x00, 5, A3, 0, 0),
    "SA0": U.setup_bytes(0x00, 5, 0, 0, 0),                 # back to the default address
    "SC1": U.setup_bytes(0x00, 9, 1, 0, 0),
    "SC2": U.setup_bytes(0x00, 9, 2, 0, 0),
    "SC85": U.setup_bytes(0x00, 9, 0x85, 0, 0),            # a configuration value that needs all eight bits
    "GST": U.setup_bytes(0x80, 0, 0, 0, 2),                 # GET_STATUS: a request that must change nothing
}
ADDRS = (0, A1, A2)
ADDRS_HI = (0, A3, A3_ALIAS)


def configs(tier):
    cs = [dict(gap=1, pace=1, reqs=["SA33", "SC1", "GST"]), dict(gap=2, pace=1, reqs=["SA64", "SC1"], addrs="hi"), dict(gap=1, pace=1, reqs=["SA33", "SA0"]), dict(gap=3, pace=1, reqs=["SAB5", "SC85", "SA33"]),
          dict(gap=2, pace=8, reqs=["SA33", "SC1"])]
    if tier == "thorough":
        cs += [dict(gap=1, pace=1, reqs=["SA33", "SAB5", "SC1", "SC2", "SC85", "GST"]), dict(gap=6, pace=2, reqs=["SAB5", "SC1", "GST"])]
    for c in cs: c["depth"] = 5 if tier == "quick" else 7
    return cs


class AddrSpec(Spec):
    n_validate = 4
    validate_max_cycles = 3000

    def __init__(self, cfg, tier):
        super().__init__(cfg, tier)
        self.max_depth = cfg["depth"]
        self.time_budget = 600 if tier == "quick" else 1500   # safety net only
        self.host = Host(gap=cfg["gap"], pace=cfg["pace"], extra=dict(connect=1, valid=1, payload=0xA7))
        self.reqs = cfg["reqs"]
        self.addrs = ADDRS_HI if cfg.get("addrs") == "hi" else ADDRS

    def build(self):
        from luna.gateware.usb.usb2.endpoints.stream import USBStreamInEndpoint
        mk = lambda: USBStreamInEndpoint(endpoint_number=1, max_packet_size=2)
        design, h = build_device(control="standard", ep0_mps=8, endpoints=[mk])
        ep = h["endpoints"][0]
        design.inputs.update(valid=ep.stream.valid, payload=ep.stream.payload, last=ep.stream.last)
        design.defaults.update(valid=1, payload=0xA7)
        return design

    def assumptions(self):
        return self.host.assumptions() + [
            "legal host at control-transfer level: IN tokens to endpoint 0 are only sent while a control transfer the host started is in its data/status stage",
            "a transaction the host did not ACK (ACK lost or data not accepted) is indistinguishable for the device and modelled as 'no ACK sent'",
            "bus reset = SE0 held 400 cycles (> 5 us at the sequencer's 60 MHz constants)"]

    # env = (addr, cfg, pending, stage)   pending: None | ("a", value) | ("c", value);  stage: 0 none, 1 status-IN expected, 2 data-IN expected (GET_STATUS), 3 status-OUT expected
    def env0(self): return (0, 0, None, 0)

    def actions(self, env):
        addr, cfg, pending, stage = env
        acts = []
        for a in self.addrs:
            for r in self.reqs: acts.append(("setup", a, r))
            acts.append(("in", a, 1, 1)); acts.append(("in", a, 1, 0))
            if stage in (1, 2):
                acts.append(("in", a, 0, 1)); acts.append(("in", a, 0, 0))
        if stage == 3: acts.append(("out0", addr))
        acts.append(("reset",))
        return acts

    def goals(self):
        g = ["address-committed", "status-ack-lost", "foreign-ack-while-pending", "reset-while-pending", "reset-after-commit"]
        if any(r.startswith("SC") for r in self.reqs): g.append("config-committed")
        return g

    def apply(self, cur, env, a):
        addr, cfg, pending, stage = env
        seen = []
        def watch(o):
            v = (o.active_address, o.active_config)
            if not seen or seen[-1] != v: seen.append(v)
        self.host.on_cycle = watch
        try:
            try:
                new = self._do(cur, env, a)
            except PruneCollision:
                return None
        finally:
            self.host.on_cycle = None
        naddr, ncfg = new[0], new[1]
        exp_seq = [(addr, cfg)] if (naddr, ncfg) == (addr, cfg) else [(addr, cfg), (naddr, ncfg)]
        if seen != exp_seq:
            what = "address" if [s[0] for s in seen] != [s[0] for s in exp_seq] else "configuration"
            if len(seen) > len(exp_seq) or seen[-1] != exp_seq[-1]:
                kind = "changed-without-its-status-ack" if exp_seq[-1] == (addr, cfg) else "wrong-value-or-extra-change"
            else:
                kind = "not-committed-on-status-ack"
            ctx = a[0] if a[0] != "in" else ("in-ep%d-%s" % (a[2], "ack" if a[3] else "noack"))
            raise Violation(f"{what}:{kind}:during-{ctx}", dict(action=a, env=env, expected=exp_seq, observed=seen))
        self.outcomes.add((a[0], tuple(seen)))
        return new

    def _do(self, cur, env, a):
        addr, cfg, pending, stage = env
        host = self.host
        if a[0] == "reset":
            cur_o = None
            for _ in range(400):
                host._cyc(cur, line_state=SE0)
            host.idle(cur, 4)
            if pending: self.cover["reset-while-pending"] += 1
            if addr or cfg: self.cover["reset-after-commit"] += 1
            return (0, 0, None, 0)
        if a[0] == "setup":
            _, ta, r = a
            r1 = host.send(cur, U.token(U.SETUP, ta, 0), False)
            r2 = host.send(cur, U.data_packet(U.DATA0, REQS[r]), True)
            if ta != addr:
                if r2 is not None: raise Violation("answers-at-wrong-address:setup", dict(action=a, addr=addr, resp=r2))
                return env          # not for this device: the host's transfer with the other device is invisible here
            if r2 is None or U.classify_device_packet(r2) != ("hs", U.ACK):
                raise Violation("setup-not-acked-at-current-address", dict(action=a, addr=addr, resp=r2))
            b = REQS[r]
            if b[1] == 5: return (addr, cfg, ("a", (b[2] | b[3] << 8) & 0x7F), 1)
            if b[1] == 9: return (addr, cfg, ("c", b[2]), 1)
            return (addr, cfg, None, 2)
        if a[0] == "out0":
            host.send(cur, U.token(U.OUT, addr, 0), False)
            host.send(cur, U.data_packet(U.DATA1, ()), True)
            return (addr, cfg, None, 0)
        _, ta, ep, ack = a
        resp = host.send(cur, U.token(U.IN, ta, ep), True)
        if ta != addr:
            if resp is not None: raise Violation("answers-at-wrong-address:in", dict(action=a, addr=addr, resp=resp))
            return env
        kind = U.classify_device_packet(resp) if resp is not None else None
        got_data = kind is not None and kind[0] == "data"
        if got_data and ack:
            host.send(cur, U.handshake(U.ACK), False)
            # the statement fixes no cycle count between the host's ACK and the moment the new value is in force: leave the
            # device a few idle cycles (still far inside any inter-transaction gap) before the registers are judged
            host.idle(cur, 4)
            host._cyc(cur, line_state=K)
            host._cyc(cur, line_state=J)
        if ep == 1:
            if not got_data: raise Violation("bulk-in-with-data-not-answered-at-current-address", dict(action=a, resp=resp))
            if pending and ack: self.cover["foreign-ack-while-pending"] += 1
            return env
        # endpoint 0
        if stage == 1:
            if kind == ("hs", U.STALL): return (addr, cfg, None, 0)
            if not got_data: return env                      # NAK / silence: host will retry
            if not ack:
                self.cover["status-ack-lost"] += 1
                return env
            if pending[0] == "a":
                self.cover["address-committed"] += 1
                return (pending[1], cfg, None, 0)
            self.cover["config-committed"] += 1
            return (addr, pending[1], None, 0)
        if stage == 2:
            if got_data and ack: return (addr, cfg, None, 3)
            if kind == ("hs", U.STALL): return (addr, cfg, None, 0)
            return env
        return env


def make(cfg, tier):
    return AddrSpec(cfg, tier)
