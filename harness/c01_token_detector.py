# C01 - USB2 tokens are reported iff well-formed and addressed to the device.   DUT: USBTokenDetector, per cycle.
#
# Environment (UTMI receive side, one action = one clock cycle unless stated):
#   ("start", addr)   rx_active rises (no byte in that cycle); the device address input is set to `addr` and then held
#                     for the whole packet and the idle time after it (the address only changes while the bus is idle)
#   ("byte", b)       rx_active=1, rx_valid=1, rx_data=b      -- full byte alphabet on each of the three token bytes
#   ("wait", g)       rx_active=1, rx_valid=0, rx_data=g      -- a gap between bytes, garbage on rx_data
#   ("end",)          rx_active falls                          -- after 0, 1, 2, 3 or more bytes (truncated .. over-long)
#   ("idle",)         one more idle cycle (up to IDLE_MAX, so that the next packet starts 1..IDLE_MAX+1 cycles after the end)
#   ("settle",)       a long idle period (macro step): lets the detector's private inter-packet timer saturate
# Up to two packets in sequence.  The product of two full alphabets is far too large (and pointless), so a configuration
# has mode "full" (one packet, every byte sequence; used to sweep many device addresses), "full-rep" (packet 1 = every
# byte sequence, packet 2 = a representative set of packets), "rep-full" (packet 1 from the representative set, so that
# every kind of left-over state is produced; packet 2 = every byte sequence) or "long-rep" (packet 1 = an over-long packet
# of 4..8 bytes: any kind of packet start + filler bytes + a tail that is itself a well-formed token / SOF, see
# long_packets(); packet 2 from the representative set).
# The detector's private inter-packet timer is a free-running saturating counter: while it runs every cycle is a new
# DUT state, so gaps inside a packet are unlimited only when the timer is saturated (they are self-loops then) and are
# otherwise bounded by the per-packet gap budget cfg["gaps"].
#
# Oracle (incremental reference parser written from USB 2.0 chapter 8, cross-checked at start-up against
# rtlmc.usbref.token/sof/crc5): a packet is a well-formed token iff it has exactly three bytes, the first is a PID with
# correct check nibble and PID in {OUT, IN, SETUP, PING, SOF}, and the 5 upper bits of the third byte are the CRC5 of
# the 11 bits before them.  When a packet ends:
#   * well-formed SOF                                 -> exactly one new_frame strobe, `frame` = the 11 bits
#   * well-formed OUT/IN/SETUP/PING and (address == device address, or the detector does not filter)
#                                                     -> exactly one new_token strobe with pid/address/endpoint from the bytes
#   * anything else                                   -> no strobe
# The strobe must appear 0..WIN cycles after the first cycle with rx_active low (latency is not fixed by the
# statement), never two strobes for one packet, never both kinds at once.  `frame` only changes with a new_frame strobe.
from rtlmc.model import Design, Violation
from rtlmc.explore import Spec
from rtlmc import usbref as U

PROPERTY = "C01"
TECHNIQUE = "per-cycle explicit-state exploration of USBTokenDetector with the full byte alphabet on all three token bytes"
LEVEL_TEXT = ("Every UTMI receive history of up to two packets (every 1-, 2-, 3-byte sequence over the full byte alphabet plus over-long "
              "packets, truncation at every point, gaps between bytes, back-to-back and widely spaced packets) is enumerated against the real "
              "USBTokenDetector netlist for the listed device addresses; the report strobes are compared with a reference token parser.")

WIN = 2            # admitted reporting latency (cycles after the first rx_active-low cycle)
IDLE_MAX = 2       # single idle cycles explorable after a packet (besides "settle")
SETTLE = 700       # > longest inter-packet timer period (640+1 cycles at 60 MHz)
GARBAGE = (0x00, 0x69)
TOKEN_PIDS = (U.OUT, U.IN, U.SETUP, U.PING)
MAXLEN = 4         # longest packet explored (bytes)
CRC5 = [U.crc5(v) for v in range(2048)]          # the reference CRC5 of every 11-bit token payload


# ------------------------------------------------------------------------------------------- reference parser
def ref_step(ps, b):
    """ps: parse state of the packet so far: ('n',) no byte yet | ('p', pid) | ('q', pid, byte1) | ('t', pid, v11)
    complete well-formed token | ('x', why, n) can no longer be a token, n bytes so far (counted up to MAXLEN)."""
    k = ps[0]
    if k == "n":
        if not U.pid_ok(b): return ("x", "bad-check-nibble", 1)
        if (b & 0xF) in TOKEN_PIDS + (U.SOF,): return ("p", b & 0xF)
        return ("x", "non-token", 1)
    if k == "p": return ("q", ps[1], b)
    if k == "q":
        v = ps[2] | ((b & 7) << 8)
        if (b >> 3) == CRC5[v]: return ("t", ps[1], v)
        return ("x", "bad-crc5", 3)
    if k == "t": return ("x", "overlong", 4)
    return ("x", ps[1], min(ps[2] + 1, MAXLEN))


def ref_whole(pkt):
    """whole-packet decision straight from the usbref encoders (used only to cross-check ref_step)"""
    if len(pkt) != 3 or not U.pid_ok(pkt[0]): return None
    p = pkt[0] & 0xF
    v = pkt[1] | ((pkt[2] & 7) << 8)
    if p == U.SOF: return ("t", p, v) if tuple(pkt) == U.sof(v) else None
    if p in TOKEN_PIDS: return ("t", p, v) if tuple(pkt) == U.token(p, v & 0x7F, v >> 7) else None
    return None


def _selfcheck():
    import random
    r = random.Random(1)
    pkts = [(b0, b1, b2) for b0 in (0x69, 0xE1, 0x2D, 0xA5, 0xB4, 0xC3, 0x68) for b1 in (0, 0x2A, 0xFF, 0x80) for b2 in range(256)]
    pkts += [tuple(r.randrange(256) for _ in range(r.choice((1, 2, 3, 3, 3, 4)))) for _ in range(3000)]
    for p in pkts:
        ps = ("n",)
        for b in p: ps = ref_step(ps, b)
        a = ps if ps[0] == "t" else None
        assert a == ref_whole(p), (p, a, ref_whole(p))


_selfcheck()


def rep_packets(addr, other):
    """representative packets (byte tuples): every kind of acceptance / rejection"""
    t = U.token(U.IN, addr, 3)
    return [
        t,                                                    # token for us
        U.token(U.SETUP, other, 0xA),                         # token for somebody else
        U.sof(0x5A5),
        (t[0], t[1], t[2] ^ 0x08),                            # CRC5 bit flipped
        t[:2],                                                # truncated after two bytes
        t + (0x00,),                                          # over-long
        U.token(U.PING, addr, 0xF),
        (t[0] ^ 0x10, t[1], t[2]),                            # check nibble corrupted
        t[:1],                                                # truncated after the PID
        (),                                                   # rx_active blip without any byte
        U.data_packet(U.DATA0, ()),                           # a non-token packet of three bytes
        U.handshake(U.ACK),
    ]


def long_packets(addr, other, rich=False):
    """over-long packets of 4..8 bytes: head (any kind of 1..3-byte packet start) + 0..2 filler bytes + a tail that would be a
    well-formed token / SOF if it stood alone (every prefix can be ended, gaps anywhere) -- none of them may be reported"""
    t = U.token(U.IN, addr, 3)
    heads = [t, U.token(U.OUT, other, 1), U.sof(0x123), (t[0], t[1], t[2] ^ 0x08), (t[0] ^ 0x10, t[1], t[2]), (U.pid_byte(U.DATA0),),
             U.handshake(U.ACK), t[:2]]
    tails = [U.token(U.IN, addr, 5), U.sof(0x2A5), U.token(U.SETUP, addr, 0)]
    fillers = [(), (0x00,), (0x00, 0x00)]
    if rich:
        heads += [U.token(U.PING, addr, 0xF), U.token(U.SETUP, addr, 0), t[:1], (0x00,)]
        tails += [U.token(U.PING, addr, 2), U.token(U.OUT, addr, 0xF), U.token(U.IN, other, 5)]
        fillers += [(U.pid_byte(U.IN),), (0xFF, 0x00, 0x10)]
    return [h + f + tl for h in heads for f in fillers for tl in tails]


def configs(tier):
    # addrs: device addresses tried;  gaps: per-packet gap budget while the timer runs;  starts: idle cycles after packet 1
    # at which packet 2 may start (besides "after a long idle period");  rep: size of the representative set;  addr2:
    # whether the device address may change between the packets;  third: alphabet of the third byte ("all", or "reduced" = the correct CRC5 and its five 1-bit corruptions
    # for each of the 8 values of the three payload bits)
    cs = []
    if tier == "quick":
        cs.append(dict(filter=True, clock=60, fs_only=False, mode="full", addrs=[0, 0x7F], gaps=1))
        cs.append(dict(filter=True, clock=12, fs_only=True, mode="full", addrs=[1, 0x55], gaps=1))
        cs.append(dict(filter=True, clock=60, fs_only=False, mode="full-rep", addrs=[0x2A], gaps=1, starts=[0], rep=5, addr2="same"))
        cs.append(dict(filter=False, clock=60, fs_only=False, mode="full-rep", addrs=[0], gaps=0, starts=[0], rep=4))
        cs.append(dict(filter=True, clock=60, fs_only=False, mode="long-rep", addrs=[0x2A, 0], gaps=2, starts=[0, 2], rep=8, rich=1))
        cs.append(dict(filter=False, clock=12, fs_only=True, mode="long-rep", addrs=[0x15], gaps=2, starts=[0, 2], rep=8, rich=1))
        cs.append(dict(filter=True, clock=60, fs_only=False, mode="rep-full", addrs=[0x2A], gaps=0, starts=[0], rep=6, addr2="same", third="reduced"))
        cs.append(dict(filter=False, clock=12, fs_only=True, mode="rep-full", addrs=[0], gaps=0, starts=[0], rep=6, third="reduced"))
    else:
        for i in range(16):          # every 7-bit device address, one packet over the full alphabet
            cs.append(dict(filter=True, clock=60 if i % 2 == 0 else 12, fs_only=(i % 2 == 1), mode="full",
                           addrs=list(range(8 * i, 8 * i + 8)), gaps=2))
        cs.append(dict(filter=True, clock=60, fs_only=False, mode="full-rep", addrs=[0x2A], gaps=2, starts=[0, 2], rep=8))
        cs.append(dict(filter=True, clock=12, fs_only=True, mode="full-rep", addrs=[0x55], gaps=2, starts=[0, 1], rep=8))
        cs.append(dict(filter=False, clock=60, fs_only=False, mode="full-rep", addrs=[0x7F], gaps=1, starts=[0, 2], rep=8))
        for a in (0, 0x2A, 0x7F):
            cs.append(dict(filter=True, clock=60, fs_only=False, mode="rep-full", addrs=[a], gaps=0, starts=[0], rep=8, addr2="same"))
        cs.append(dict(filter=True, clock=12, fs_only=True, mode="rep-full", addrs=[1], gaps=0, starts=[0], rep=12, addr2="same"))
        cs.append(dict(filter=False, clock=60, fs_only=False, mode="rep-full", addrs=[0x15], gaps=0, starts=[0], rep=8))
        cs.append(dict(filter=True, clock=60, fs_only=False, mode="long-rep", addrs=[0x2A, 0], gaps=2, starts=[0, 2], rep=8, rich=1))
        cs.append(dict(filter=True, clock=12, fs_only=True, mode="long-rep", addrs=[0x7F], gaps=2, starts=[0, 1], rep=8, rich=1))
        cs.append(dict(filter=False, clock=60, fs_only=False, mode="long-rep", addrs=[0x15], gaps=2, starts=[0, 2], rep=8, rich=1))
    return cs


class TokenSpec(Spec):
    n_validate = 8

    def __init__(self, cfg, tier):
        super().__init__(cfg, tier)
        # wall-clock caps, generous because the machine is shared; the configurations are sized for <= ~20 s (quick) and
        # <= ~90 s (thorough) of CPU each and close well before the cap on an idle machine
        self.time_budget = 900 if tier == "quick" else 3000
        self.max_states = 8_000_000
        self.starts = set(cfg.get("starts", [0]))
        self.filter = cfg["filter"]
        self.addrs = list(cfg["addrs"])
        self.mode = cfg["mode"]
        self.npk_max = 1 if self.mode == "full" else 2
        self.gaps = cfg["gaps"]
        a0 = self.addrs[0]
        self.rep = rep_packets(a0, a0 ^ 0x40)
        self.rep = self.rep[:cfg.get("rep", len(self.rep))]
        self.addr2 = cfg.get("addr2", "both")
        self._vc = {}
        self.bytes_all = [("byte", b) for b in range(256)]
        self.third = cfg.get("third", "all")
        self._third_cache = {}
        def tree(pkts):
            t = {}
            for p in pkts:
                for i in range(len(p)):
                    t.setdefault(p[:i], set()).add(p[i])
            return {k: [("byte", b) for b in sorted(v)] for k, v in t.items()}
        # packet index -> prefix tree of the packet set that packet is drawn from (absent: full byte alphabet)
        self._trees = {}
        if self.mode == "full-rep": self._trees[2] = tree(self.rep)
        if self.mode == "rep-full": self._trees[1] = tree(self.rep)
        if self.mode == "long-rep":
            self._trees[1] = tree(long_packets(a0, a0 ^ 0x40, bool(cfg.get("rich"))))
            self._trees[2] = tree(self.rep)

    # ------------------------------------------------------------------ DUT
    def build(self):
        from luna.gateware.usb.usb2.packet import USBTokenDetector
        from luna.gateware.interface.utmi import UTMIInterface
        u = UTMIInterface()
        d = USBTokenDetector(utmi=u, filter_by_address=self.cfg["filter"], domain_clock=self.cfg["clock"] * 1e6,
                             fs_only=self.cfg["fs_only"])
        i = d.interface
        ins = dict(rx_active=u.rx_active, rx_valid=u.rx_valid, rx_data=u.rx_data, speed=d.speed)
        if self.cfg["filter"]: ins["address"] = d.address
        obs = dict(new_token=i.new_token, new_frame=i.new_frame, pid=i.pid, address=i.address, endpoint=i.endpoint, frame=i.frame,
                   is_in=i.is_in, is_out=i.is_out, is_setup=i.is_setup, is_ping=i.is_ping)
        return Design(d, ins, obs, dict(speed=1))     # USBSpeed.FULL (the only speed a 12 MHz fs_only detector supports)

    def assumptions(self):
        return ["UTMI: rx_valid is only asserted while rx_active is high and not in the first cycle of rx_active; rx_active is low for at least one cycle between packets",
                "a packet is one contiguous rx_active period, its bytes are the cycles with rx_valid high; rx_data is arbitrary while rx_valid is low",
                "the device address input is constant from the start of a packet until the next packet starts",
                f"reporting latency is not fixed by the statement: a strobe may appear 0..{WIN} cycles after the first cycle with rx_active low",
                "with filter_by_address=False every well-formed token is reported together with its address (documented behaviour of that variant)",
                "speed input tied to FULL; rx_error not modelled (the detector does not look at it)",
                "at most two packets per run: one over the full byte alphabet, the other from a representative set (both orders); "
                "gaps inside a packet are unbounded while the detector's inter-packet timer is saturated and bounded by the gap budget otherwise"]

    # ------------------------------------------------------------------ environment
    # env = (npk, ph, ps, hist, addr, gb, pend, frame, idle)
    #   npk   packets started so far                    ph   'idle' | 'act'
    #   ps    reference parse state of the current packet
    #   hist  bytes so far of a packet taken from the representative set, None for a full-alphabet packet
    #   addr  device address during the current packet        gb   remaining gap cycles in this packet (-1: unlimited)
    #   pend  None | ('tok', pid, v11, age) | ('sof', v11, age)   frame  last frame number legitimately reported
    #   idle  idle cycles since the end of the last packet, 'sat' after settle
    def env0(self):
        return (0, "idle", ("n",), None, self.addrs[0], 0, None, 0, "sat")

    def prologue(self, cur):
        kw = dict(address=self.addrs[0]) if self.filter else {}
        cur.hold(SETTLE, **kw)
        return self.env0()

    def _is_rep_pkt(self, npk):
        return npk in self._trees

    def _third_bytes(self, b1):
        if self.third == "all": return self.bytes_all
        r = self._third_cache.get(b1)
        if r is None:
            s = set()
            for hi in range(8):
                c = U.crc5(b1 | (hi << 8))
                s.add(hi | (c << 3))
                for bit in range(5): s.add(hi | ((c ^ (1 << bit)) << 3))
            r = self._third_cache[b1] = [("byte", b) for b in sorted(s)]
        return r

    def actions(self, env):
        npk, ph, ps, hist, addr, gb, pend, frame, idle = env
        if ph == "idle":
            acts = []
            if npk == 0: acts += [("start", a) for a in self.addrs]
            elif npk < self.npk_max and (idle == "sat" or idle in self.starts):
                acts += [("start", a) for a in sorted({addr, addr ^ 0x01} if self.filter and self.addr2 == "both" else {addr})]
            if npk >= 1 and idle != "sat":
                more = npk < self.npk_max and any(x > idle for x in self.starts)
                if idle < IDLE_MAX and (more or pend is not None): acts.append(("idle",))
                acts.append(("settle",))
            return acts
        acts = [("end",)]
        if gb != 0: acts += [("wait", g) for g in GARBAGE]
        if hist is not None:
            return acts + self._trees[npk].get(hist, [])
        k = ps[0]
        if k in ("n", "p"): return acts + self.bytes_all
        if k == "q": return acts + self._third_bytes(ps[2])
        if k == "x" and ps[2] >= MAXLEN: return acts
        # bytes after the packet's fate is sealed (up to MAXLEN bytes in total); 0x00,0x10 would be a valid address-0 payload
        return acts + [("byte", 0x00), ("byte", 0x10)]

    def label(self, a):
        return list(a)

    def goals(self):
        g = ["token-reported", "sof-reported", "ignored:bad-crc5", "ignored:bad-check-nibble", "ignored:truncated", "ignored:overlong",
             "ignored:non-token", "ignored:empty", "gap-inside-token"]
        if self.filter: g.append("ignored:foreign-address")
        if self.mode == "long-rep":
            g = [x for x in g if x not in ("ignored:empty",)] + ["ignored:overlong-with-embedded-token"]
        if self.npk_max == 2: g += ["second-packet-token-reported", "back-to-back-packets", "second-packet-after-rejected-first"]
        return g

    # ------------------------------------------------------------------ one cycle + oracle
    def _cycle(self, cur, pend, frame, addr, rx_active=0, rx_valid=0, rx_data=0):
        key = (rx_active, rx_valid, rx_data, addr)
        v = self._vc.get(key)
        if v is None:
            kw = dict(rx_active=rx_active, rx_valid=rx_valid, rx_data=rx_data)
            if self.filter: kw["address"] = addr
            v = self._vc[key] = cur.model.vec(**kw)
        return self._judge(cur.step_vec(v), pend, frame)

    def _judge(self, o, pend, frame):
        if pend is None and not o.new_token and not o.new_frame and o.frame == frame:
            return None, frame
        info = dict(owed=pend, new_token=o.new_token, new_frame=o.new_frame, pid=o.pid, address=o.address, endpoint=o.endpoint, frame=o.frame)
        if o.new_token and o.new_frame:
            raise Violation("token-and-frame-strobe-together", info)
        if o.new_token:
            if pend is None: raise Violation("spurious-new-token", info)
            if pend[0] != "tok": raise Violation("sof-reported-as-token", info)
            _, pid, v, age = pend
            if o.pid != pid: raise Violation("token-pid-wrong", info)
            if o.address != (v & 0x7F): raise Violation("token-address-wrong", info)
            if o.endpoint != (v >> 7): raise Violation("token-endpoint-wrong", info)
            if (o.is_in, o.is_out, o.is_setup, o.is_ping) != (int(pid == U.IN), int(pid == U.OUT), int(pid == U.SETUP), int(pid == U.PING)):
                raise Violation("token-kind-flags-wrong", info)
            self.cover["token-reported"] += 1
            pend = None
        elif o.new_frame:
            if pend is None: raise Violation("spurious-new-frame", info)
            if pend[0] != "sof": raise Violation("token-reported-as-sof", info)
            if o.frame != pend[1]: raise Violation("frame-number-wrong", info)
            frame = pend[1]
            self.cover["sof-reported"] += 1
            pend = None
        elif pend is not None:
            age = pend[-1]
            if age >= WIN:
                raise Violation("token-missed" if pend[0] == "tok" else "sof-missed", info)
            pend = pend[:-1] + (age + 1,)
        if o.frame != frame:
            raise Violation("frame-changed-without-sof", dict(info, expected_frame=frame))
        return pend, frame

    def apply(self, cur, env, a):
        npk, ph, ps, hist, addr, gb, pend, frame, idle = env
        op = a[0]
        if op == "start":
            addr = a[1]
            pend, frame = self._cycle(cur, pend, frame, addr, rx_active=1)
            if npk == 1 and idle == 0: self.cover["back-to-back-packets"] += 1
            if len(ps) > 1 and ps[1]: self.cover["second-packet-after-rejected-first"] += 1
            return (npk + 1, "act", ("n",), (() if self._is_rep_pkt(npk + 1) else None), addr,
                    (-1 if idle == "sat" else self.gaps), pend, frame, 0)
        if op == "byte":
            pend, frame = self._cycle(cur, pend, frame, addr, rx_active=1, rx_valid=1, rx_data=a[1])
            if hist is not None: hist = hist + (a[1],)
            return (npk, ph, ref_step(ps, a[1]), hist, addr, gb, pend, frame, 0)
        if op == "wait":
            pend, frame = self._cycle(cur, pend, frame, addr, rx_active=1, rx_valid=0, rx_data=a[1])
            if ps[0] in ("p", "q"): self.cover["gap-inside-token"] += 1
            return (npk, ph, ps, hist, addr, (gb - 1 if gb > 0 else gb), pend, frame, 0)
        if op == "end":
            if pend is not None:
                return None       # report window of the previous packet still open: no host packet is that short that early
            if ps[0] == "t":
                pid, v = ps[1], ps[2]
                if pid == U.SOF: pend = ("sof", v, 0)
                elif not self.filter or (v & 0x7F) == addr:
                    pend = ("tok", pid, v, 0)
                    if npk == 2: self.cover["second-packet-token-reported"] += 1
                else: self.cover["ignored:foreign-address"] += 1
            elif ps[0] == "n": self.cover["ignored:empty"] += 1
            elif ps[0] in ("p", "q"): self.cover["ignored:truncated"] += 1
            else:
                self.cover["ignored:" + ps[1]] += 1
                if hist is not None and len(hist) >= 6 and ref_whole(hist[-3:]) is not None: self.cover["ignored:overlong-with-embedded-token"] += 1
            pend, frame = self._cycle(cur, pend, frame, addr)          # the end cycle is cycle 0 of the report window
            return (npk, "idle", ("n", npk == 1 and ps[0] != "t"), None, addr, 0, pend, frame, 0)
        if op == "idle":
            pend, frame = self._cycle(cur, pend, frame, addr)
            return (npk, ph, ps, hist, addr, gb, pend, frame, idle + 1)
        if op == "settle":
            for _ in range(WIN + 1):
                pend, frame = self._cycle(cur, pend, frame, addr)
            k, first, last = cur.hold(SETTLE, **(dict(address=addr) if self.filter else {}))
            self._judge(first, None, frame)
            if k < SETTLE:
                self._judge(last, None, frame)
                raise Violation("output-changed-on-idle-bus", dict(after_idle_cycles=k + WIN + 1, obs=list(last)))
            return (npk, ph, ps, hist, addr, gb, None, frame, "sat")
        raise AssertionError(a)


def make(cfg, tier):
    return TokenSpec(cfg, tier)
