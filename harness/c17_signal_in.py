# C17 - USBSignalInEndpoint reports the value sampled at the request, in the configured byte order; a retry after a
# missing ACK carries the same value and toggle; the toggle advances only on an ACK (of this endpoint's own packet).
# DUT: USBDevice on a UTMI bus (full speed) + USBSignalInEndpoint(width, ep 1, endianness) [+ bulk IN endpoint 2 as a source
# of ACKs that belong to somebody else].  Macro-step mode: one action = one host transaction / bus event.
#
# Oracle: reference (toggle, unacknowledged value) per the statement.  The monitored signal takes two values A/B that
# differ in every byte and whose bytes are pairwise distinct; it may flip between events, in the turn-around window
# between the token and the response (then either value is admitted, but the packet must carry one of them completely),
# right when the response starts, and in the middle of the transmission (then the old value must be reported).
from rtlmc.model import Violation
from rtlmc.explore import Spec
from rtlmc import usbref as U
from rtlmc.env.usb2_host import Host, PruneCollision, J, K
from harness._usb2dev import build_device

PROPERTY = "C17"
LEVEL_TEXT = ("All sequences (to a fixed point) of polls of the signal endpoint with and without the host's ACK, signal changes between events / "
              "in the turn-around window / at the start of / inside the transmission, and unrelated bus traffic (SOF, bulk IN transactions with ACK on "
              "another endpoint, OUT transactions, a transaction the host runs with another device) are enumerated on the real USBDevice + "
              "USBSignalInEndpoint netlist driven packet by packet on the UTMI wire; every packet is compared with a reference (value, byte order, toggle).")
TECHNIQUE = "explicit-state BFS (macro-step = one bus event) over the compiled netlist; packet-level USB host environment; reference model oracle"

VA, VB = 0xC3A511, 0x3C5A2E
FOREIGN = 5


def configs(tier):
    cs = [dict(width=1, endian="little", gap=1, ready=1, bulk=1),
          dict(width=8, endian="big", gap=2, ready=1, bulk=0),
          dict(width=9, endian="big", gap=1, ready=2, bulk=1),
          dict(width=16, endian="little", gap=1, ready=1, bulk=1),
          dict(width=16, endian="big", gap=3, ready=1, bulk=0),
          dict(width=24, endian="big", gap=1, ready=1, bulk=1),
          dict(width=24, endian="little", gap=2, ready=3, bulk=0),
          dict(width=16, endian="little", gap=1, ready=1, bulk=0, domain="sync")]
    if tier == "quick":
        for c in cs:
            if c["bulk"]: c["depth"] = 6          # configurations without the bulk endpoint run to the fixed point
    else:
        cs += [dict(width=9, endian="little", gap=4, ready=1, bulk=1, pace=2),
               dict(width=8, endian="little", gap=1, ready=4, bulk=1),
               dict(width=17, endian="big", gap=2, ready=2, bulk=1),
               dict(width=24, endian="big", gap=6, ready=5, bulk=1, pace=3),
               dict(width=1, endian="big", gap=2, ready=2, bulk=0),
               dict(width=9, endian="big", gap=2, ready=2, bulk=0, domain="sync"),
               dict(width=24, endian="big", gap=1, ready=1, bulk=0, domain="sync"),
               dict(width=8, endian="little", gap=3, ready=1, bulk=0, domain="sync", pace=2),
               dict(width=1, endian="little", gap=1, ready=3, bulk=0, domain="sync")]
    return cs


class SignalSpec(Spec):
    n_validate = 5
    validate_max_cycles = 4000

    def __init__(self, cfg, tier):
        super().__init__(cfg, tier)
        self.w = cfg["width"]
        self.nbytes = (self.w + 7) // 8
        self.big = cfg["endian"] == "big"
        self.bulk = bool(cfg.get("bulk"))
        self.time_budget = 240 if tier == "quick" else 700      # wall-clock safety net only; bounds are set by depth / fixed point
        if cfg.get("depth"): self.max_depth = cfg["depth"]
        self.host = Host(gap=cfg["gap"], pace=cfg.get("pace", 1), ready_period=cfg["ready"])
        m = (1 << self.w) - 1
        self.vals = (VA & m, VB & m)
        flips = [None, ("t", 1), ("t", 5), ("s",), ("m",)] + ([("t", 9)] if tier == "thorough" else [])
        # signal in another clock domain (signal_domain != "usb", synchronised into usb): it may change in any cycle, and
        # the value reported may be any value it had from SYNC_SLACK cycles before the end of the token until the response starts
        self.domain = cfg.get("domain", "usb")
        self.slack = 0 if self.domain == "usb" else 4
        if self.domain != "usb":
            flips = [None, ("s",), ("m",)] + [("t", d) for d in ((-3, -1, 1, 2, 3, 4, 5, 6, 7) if tier == "thorough" else (-2, 1, 3, 4, 5, 6))]
        self._acts = [("in1", ack, f) for ack in (1, 0) for f in flips] + [("flip",), ("sof",), ("out1",), ("foreign",), ("in3",)]
        if self.bulk: self._acts += [("in2", 1), ("in2", 0)]

    def build(self):
        from luna.gateware.usb.usb2.endpoints.status import USBSignalInEndpoint
        kw = {} if self.cfg.get("domain", "usb") == "usb" else dict(signal_domain=self.cfg["domain"])
        eps = [lambda: USBSignalInEndpoint(width=self.w, endpoint_number=1, endianness=self.cfg["endian"], **kw)]
        if self.bulk:
            from luna.gateware.usb.usb2.endpoints.stream import USBStreamInEndpoint
            eps.append(lambda: USBStreamInEndpoint(endpoint_number=2, max_packet_size=2))
        design, h = build_device(control=None, endpoints=eps, probe=False)
        ep = h["endpoints"][0]
        design.inputs.update(signal=ep.signal)
        design.observes.update(read_complete=ep.status_read_complete)
        if self.bulk:
            b = h["endpoints"][1]
            design.inputs.update(b_valid=b.stream.valid, b_payload=b.stream.payload)
            design.defaults.update(b_valid=1, b_payload=0x5C)
        if kw:
            design.clocks = {"usb": (1, 0), kw["signal_domain"]: (1, 0)}      # both domains tick on every step
        return design

    def assumptions(self):
        return self.host.assumptions() + [
            "the monitored signal is in the usb clock domain (signal_domain='usb'), or (domain='sync' configurations) in another domain that ticks "
            "together with usb; then any value the signal had from 4 cycles before the end of the IN token until the response starts is admitted",
            "the host sends ACK only as the handshake of a data packet it has just received (from this device, or - invisible to this device - from another one)",
            "a signal change inside the turn-around window between token and response may be reported as either value",
            "no bus reset and no SET_CONFIGURATION / CLEAR_FEATURE (which would restart the toggle); device address stays 0"]

    # env = (sig, tog, pend, since)
    #   sig  = index of the signal's current value,  tog = reference toggle of the next packet,
    #   pend = index of the value carried by a transmitted but not (yet) acknowledged packet, or None,
    #   since = what the bus carried since that packet: "" nothing | "token" a token addressed to this device |
    #           "bulk-ack" the host's ACK of another endpoint's data | "foreign-ack" the host's ACK of another device's data | "sof"
    #           (only used to name cover goals and to make violation signatures specific; the rightmost of this list that occurred)
    def env0(self): return (0, 0, None, "")
    def actions(self, env): return self._acts

    def goals(self):
        g = ["poll:acked", "poll:not-acked", "retry:after-signal-change", "retry:after-foreign-ack", "retry:after-token", "retry:after-sof",
             "retry:immediately", "flip:turnaround", "flip:at-start", "flip:mid", "toggle:data1", "value:A", "value:B"]
        if self.bulk: g.append("retry:after-bulk-ack")
        return g

    def _bytes(self, idx):
        v = self.vals[idx]
        b = [(v >> (8 * i)) & 0xFF for i in range(self.nbytes)]
        return tuple(reversed(b)) if self.big else tuple(b)

    def apply(self, cur, env, a):
        host = self.host
        extra = dict(connect=1, signal=self.vals[env[0]])
        host.extra = extra
        try:
            try:
                return self._do(cur, env, a, extra)
            except PruneCollision:
                return None
        finally:
            host.on_cycle = None
            host.extra = {}

    def _silent(self, resp, what):
        if resp is not None:
            raise Violation("answers-unrelated-traffic:" + what, dict(resp=resp))

    def _do(self, cur, env, a, extra):
        sig, tog, pend, since = env
        host = self.host
        order = ("", "token", "sof", "bulk-ack", "foreign-ack")
        mark = lambda what: "" if pend is None else max(since, what, key=order.index)
        strobes = [0]
        def count_strobe(o):
            if o.read_complete: strobes[0] += 1
        host.on_cycle = count_strobe
        if a[0] == "flip":
            return (sig ^ 1, tog, pend, since)
        if a[0] == "sof":
            host.send(cur, U.sof(0x2A5), False)
            return (sig, tog, pend, mark("sof"))
        if a[0] == "in2":
            resp = host.send(cur, U.token(U.IN, 0, 2), True)
            kind = U.classify_device_packet(resp) if resp is not None else None
            if kind is not None and kind[0] == "data" and a[1]:
                host.send(cur, U.handshake(U.ACK), False)
                return (sig, tog, pend, mark("bulk-ack"))
            return (sig, tog, pend, mark("token"))
        if a[0] == "in3":
            self._silent(host.send(cur, U.token(U.IN, 0, 3), True), "in-to-absent-endpoint")
            return (sig, tog, pend, mark("token"))
        if a[0] == "foreign":
            self._silent(host.send(cur, U.token(U.IN, FOREIGN, 1), True), "in-to-other-address")
            host.send(cur, U.handshake(U.ACK), False)
            return (sig, tog, pend, mark("foreign-ack"))
        if a[0] == "out1":
            host.send(cur, U.token(U.OUT, 0, 1), False)
            self._silent(host.send(cur, U.data_packet(U.DATA0, (0x77,)), True), "out-to-in-endpoint")
            return (sig, tog, pend, mark("token"))
        # ---- poll of the signal endpoint
        _, ack, flip = a
        pkt = U.token(U.IN, 0, 1)
        t_end = 1 + len(pkt) * host.pace + (host.pace - 1)      # cycles Host.send spends on the token itself
        st = dict(n=0, started=None, accepted=0, flipped_at=None)
        def on_cycle(o):
            st["n"] += 1
            if o.tx_valid and st["started"] is None: st["started"] = st["n"]
            if st["flipped_at"] is None and flip is not None:
                do = False
                if flip[0] == "t": do = st["n"] == t_end + flip[1]
                elif flip[0] == "s": do = st["started"] is not None
                elif flip[0] == "m": do = st["started"] is not None and st["n"] >= st["started"] + 1 + host.ready_period
                if do:
                    st["flipped_at"] = st["n"] + 1                 # first cycle that shows the new value
                    extra["signal"] = self.vals[sig ^ 1]
        host.on_cycle = on_cycle
        resp = host.send(cur, pkt, True)
        host.on_cycle = count_strobe
        flipped = st["flipped_at"] is not None
        sig2 = sig ^ 1 if flipped else sig
        ctx = dict(env=env, action=a, resp=resp, response_started_at_cycle=st["started"], signal_changed_at_cycle=st["flipped_at"])
        if resp is None: raise Violation("poll:no-response", ctx)
        kind = U.classify_device_packet(resp)
        if kind[0] != "data": raise Violation("poll:response-is-not-a-valid-data-packet", dict(ctx, kind=kind))
        _, pid, payload = kind
        suffix = (":after-" + since) if since else ""
        if pid not in (U.DATA0, U.DATA1) or pid != (U.DATA1 if tog else U.DATA0):
            if pend is not None:
                raise Violation("retry:toggle-differs-from-unacknowledged-packet" + suffix, dict(ctx, pid=U.PIDNAME[pid]))
            raise Violation("toggle:new-poll-does-not-use-the-toggle-following-the-last-ack", dict(ctx, pid=U.PIDNAME[pid], expected_toggle=tog))
        if len(payload) != self.nbytes:
            raise Violation("value:wrong-length", dict(ctx, expected=self.nbytes))
        if pend is not None:
            if payload != self._bytes(pend):
                raise Violation("retry:value-differs-from-unacknowledged-packet" + suffix, dict(ctx, expected=self._bytes(pend), got=payload))
            sent = pend
            self.cover["retry:" + ("after-" + since if since else "immediately")] += 1
            if sig != pend or flipped: self.cover["retry:after-signal-change"] += 1
        else:
            # admissible samples: the values the signal had from the end of the token (minus the synchroniser slack) until the response started
            w0 = t_end + 1 - self.slack
            if flipped and st["flipped_at"] <= w0:
                adm = {sig ^ 1}; self.cover["flip:before-window"] += 1
            elif flipped and st["flipped_at"] <= st["started"]:
                adm = {sig, sig ^ 1}; self.cover["flip:turnaround"] += 1
            else:
                adm = {sig}
            if flipped and st["flipped_at"] > st["started"]:
                self.cover["flip:at-start" if flip[0] == "s" else ("flip:mid" if flip[0] == "m" else "flip:turnaround-late")] += 1
            hit = [i for i in sorted(adm) if payload == self._bytes(i)]
            if not hit:
                rev = [i for i in sorted(adm) if self.nbytes > 1 and payload == tuple(reversed(self._bytes(i)))]
                if rev: raise Violation("value:wrong-byte-order", dict(ctx, expected=[self._bytes(i) for i in sorted(adm)], got=payload))
                if payload == self._bytes(sig ^ 1):
                    raise Violation("value:not-sampled-at-the-request", dict(ctx, expected=[self._bytes(i) for i in sorted(adm)], got=payload))
                raise Violation("value:not-a-value-of-the-signal", dict(ctx, expected=[self._bytes(i) for i in sorted(adm)], got=payload))
            sent = hit[0]
        self.cover["value:" + "AB"[sent]] += 1
        if pid == U.DATA1: self.cover["toggle:data1"] += 1
        self.outcomes.add((U.PIDNAME[pid], sent, pend is not None, flip, ack))
        if strobes[0]: self.cover["note:status_read_complete-before-ack"] += 1      # not demanded by the statement; recorded only
        if not ack:
            self.cover["poll:not-acked"] += 1
            return (sig2, tog, sent, "")
        host.send(cur, U.handshake(U.ACK), False)
        self.cover["poll:acked"] += 1
        return (sig2, tog ^ 1, None, "")


def make(cfg, tier):
    return SignalSpec(cfg, tier)
