# C52 - I2CInitiator follows the I2C bus protocol (START/STOP, MSB-first write + ACK report, read + requested ACK,
#       clock stretching, busy).
#
# DUT: the real I2CInitiator(pads=I2CBus(), period_cyc, clk_stretch=True); the harness drives pads.scl.i / pads.sda.i
# with the wired-AND of the initiator's open-drain outputs and a target model, exactly as tests/test_i2c.py does.
# Per-cycle exploration to closure: every op sequence (an op may be issued in any cycle `busy` is low), every target
# acknowledge / read byte from a small alphabet, every placement and length of SCL holding by the target and every
# instant at which the target updates SDA inside an SCL-low period.
#
# Oracle = an I2C bus monitor on the wires (UM10204), not on the DUT's FSM:
#   * the initiator's SDA driver changes in a cycle in which SCL (the wire) is high only as the single START (fall) of a
#     requested start or the single STOP (rise) of a requested stop, with SCL high before and after;
#   * a write produces exactly nine SCL pulses on the wire; during pulses 1..8 the initiator drives bit 7..0 of the
#     byte, during pulse 9 it releases SDA; when `busy` falls ack_o tells whether the target pulled SDA low in pulse 9;
#   * a read produces exactly nine pulses; SDA is released during pulses 1..8, data_o is the byte the target showed
#     during them, and pulse 9 carries the requested acknowledge (driven low iff ack_i);
#   * pulses are counted on the wire, i.e. a pulse exists only once the target has let SCL rise (clock stretching);
#   * `busy` low while an operation's bus activity is incomplete is a violation (it would invite a new op that cannot
#     be accepted); an op issued while busy is low must be carried out (bounded progress when SCL is not held).
from rtlmc.model import Design, Violation
from rtlmc.explore import Spec

PROPERTY = "C52"
TECHNIQUE = "per-cycle explicit-state exploration of I2CInitiator with a nondeterministic open-drain target, checked by an I2C wire monitor"


def configs(tier):
    if tier == "quick":
        return [dict(period_cyc=p, wbytes=[0x35, 0xCA], rbytes=[0x35, 0xCA]) for p in (4, 5, 8, 12)]
    return [dict(period_cyc=p, wbytes=[0x35, 0xCA, 0x80, 0x01], rbytes=[0x35, 0xCA, 0xFE, 0x7F]) for p in (4, 5, 6, 7, 8, 11, 12, 16, 20, 23)]


def want_for(op, k):
    """SDA level the target intends to show during SCL pulse k of the current op (1 = released)."""
    if op is None: return 1
    if op[0] == "W": return op[2] if k == 9 else 1
    if op[0] == "R": return (op[2] >> (8 - k)) & 1 if 1 <= k <= 8 else 1
    return 1


class I2CSpec(Spec):
    n_validate = 6

    def __init__(self, cfg, tier):
        super().__init__(cfg, tier)
        self.time_budget = 240 if tier == "quick" else 840
        p = cfg["period_cyc"] // 4
        self.stall_bound = 6 * (p + 1) + 12
        ops = [("S",), ("P",)]
        for b in cfg["wbytes"]:
            for tack in (0, 1): ops.append(("W", b, tack))        # tack: SDA level the target shows in the ack slot (0 = ACK)
        for b in cfg["rbytes"]:
            for ack in (0, 1): ops.append(("R", ack, b))
        self._ops = ops

    def build(self):
        from luna.gateware.interface.i2c import I2CBus, I2CInitiator
        pads = I2CBus()
        d = I2CInitiator(pads, period_cyc=self.cfg["period_cyc"], clk_stretch=True)
        ins = dict(start=d.start, stop=d.stop, write=d.write, read=d.read, data_i=d.data_i, ack_i=d.ack_i,
                   scl_i=pads.scl.i, sda_i=pads.sda.i)
        obs = dict(scl_oe=pads.scl.oe, scl_o=pads.scl.o, sda_oe=pads.sda.oe, sda_o=pads.sda.o,
                   busy=d.busy, ack_o=d.ack_o, data_o=d.data_o)
        return Design(d, ins, obs, defaults=dict(scl_i=1, sda_i=1))

    def assumptions(self):
        return ["one operation strobe at a time, issued only in a cycle in which busy is low; data_i / ack_i are valid in the strobe cycle only (complemented afterwards)",
                "open-drain wires: scl = initiator release AND target release, same for sda; no other master",
                "the target changes SDA only in cycles in which SCL is low and has its value for the next pulse in place at least one cycle before SCL rises (it may take any time: it holds SCL if it needs longer)",
                "the target starts holding SCL only while SCL is already low (it can extend a low period for any time, never cut a high one)",
                "target SDA policy: released during write data, START and STOP; acknowledge level of its choice in the ack slot of a write (held until SCL falls); read data from the byte alphabet during a read, released in the read's ack slot",
                "SCL/SDA timing in absolute time (tLOW, tHIGH, set-up in ns) is not part of the statement"]

    def goals(self):
        return ["start", "repeated-start", "stop", "write-acked", "write-nacked", "read-ack", "read-nak",
                "stretch", "stretch-in-ack-slot", "late-sda-update", "op-right-after-op"]
        # informational only (depends on the level an implementation parks SCL/SDA at between operations): "start-with-sda-held-low"

    def env0(self):
        # (pscl, psda, pisda, piscl, tscl, tsda, op, cnt, nst, nsp, stall)
        return (1, 1, 1, 1, 1, 1, None, 0, 0, 0, 0)

    def actions(self, env):
        acts = [(None, 0, 0), (None, 1, 0), (None, 0, 1), (None, 1, 1)]
        for op in self._ops:
            acts.append((op, 0, 0))
        return acts

    def label(self, a):
        op, hold, upd = a
        d = dict(target_holds_scl=hold, target_updates_sda=upd)
        if op:
            d["op"] = {"S": "start", "P": "stop"}.get(op[0]) or (dict(write=hex(op[1]), target_ack_level=op[2]) if op[0] == "W" else dict(read_ack_i=op[1], target_byte=hex(op[2])))
        return d

    def apply(self, cur, env, a):
        pscl, psda, pisda, piscl, ptscl, tsda, op, cnt, nst, nsp, stall = env
        newop, hold, upd = a
        p = cur.peek()                 # registered outputs of this cycle: open-drain enables, busy, ack_o, data_o
        iscl, isda, busy = 1 - p.scl_oe, 1 - p.sda_oe, p.busy
        if (p.scl_oe and p.scl_o) or (p.sda_oe and p.sda_o):
            raise Violation("line-driven-high", dict(obs=p._asdict()))
        # ---- target
        if hold:
            if not (iscl == 0 or pscl == 0): return None      # may only extend a low period
            if op is None: return None
            tscl = 0
        else:
            tscl = 1
        scl = iscl & tscl
        want = want_for(op, cnt + 1)
        if scl == 0:
            if upd:
                if tsda == want: return None
                tsda = want
                if iscl == 1: self.cover["late-sda-update"] += 1      # updated while the initiator has already released SCL (target is holding it)
        else:
            if upd: return None
            if pscl == 0 and tsda != want: return None         # target has its value in place before SCL rises
        sda = isda & tsda
        # ---- user (inputs of this cycle)
        kw = dict(data_i=0, ack_i=0)
        if newop is not None:
            if busy: return None
            k = newop[0]
            if k == "S": kw["start"] = 1
            elif k == "P": kw["stop"] = 1
            elif k == "W": kw["write"] = 1; kw["data_i"] = newop[1]
            else: kw["read"] = 1; kw["ack_i"] = newop[1]
        elif op is not None and busy:
            if op[0] == "W": kw["data_i"] = op[1] ^ 0xFF
            if op[0] == "R": kw["ack_i"] = op[1] ^ 1
        cur.step(scl_i=scl, sda_i=sda, **kw)
        self.outcomes.add((iscl, isda, busy, scl, sda, op and op[0], cnt))

        # ---- wire monitor for this cycle.  What the wires show in this cycle was decided before it, so it is
        #      attributed to the operation that was running when the cycle began (also in the cycle busy falls).
        if op is None:
            if iscl != piscl or isda != pisda:
                raise Violation("bus-activity-without-operation", dict(scl_release=(piscl, iscl), sda_release=(pisda, isda)))
            stall = 0
        else:
            kind = op[0]
            if isda != pisda and scl == 1:
                if kind == "S" and isda == 0 and pscl == 1 and nst == 0 and nsp == 0:
                    if psda == 1: nst = 1
                    else: nst = 2          # the fall is not visible on the wire (SDA was being held low): no START was generated
                    self.cover["start" if cnt == 0 else "repeated-start"] += 1
                elif kind == "P" and isda == 1 and pscl == 1 and nst == 0 and nsp == 0:
                    nsp = 1 if sda == 1 else 2
                    self.cover["stop"] += 1
                else:
                    raise Violation("sda-change-while-scl-high",
                                    dict(operation=self.label((op, 0, 0))["op"], sda_release=(pisda, isda), scl_wire=(pscl, scl), pulses_so_far=cnt))
            if pscl == 0 and scl == 1:
                cnt += 1
                if cnt > (9 if kind in "WR" else 1):
                    raise Violation("extra-clock-pulse", dict(operation=self.label((op, 0, 0))["op"], pulses=cnt))
            if scl == 1 and cnt >= 1:
                if kind == "W":
                    if cnt <= 8:
                        bit = (op[1] >> (8 - cnt)) & 1
                        if isda != bit:
                            raise Violation("write-data-bit", dict(byte=hex(op[1]), pulse=cnt, expected=bit, driven=isda))
                    elif isda != 1:
                        raise Violation("sda-not-released-in-write-ack-slot", dict(pulse=cnt))
                elif kind == "R":
                    if cnt <= 8:
                        if isda != 1:
                            raise Violation("sda-driven-during-read-data", dict(pulse=cnt))
                    elif isda != (0 if op[1] else 1):
                        raise Violation("read-ack-bit", dict(ack_i=op[1], sda_release=isda))
            if tscl == 0 and iscl == 1:
                self.cover["stretch"] += 1
                if cnt == 8: self.cover["stretch-in-ack-slot"] += 1
            # bounded progress: the initiator's outputs move within a bounded number of cycles unless SCL is being held
            if iscl != piscl or isda != pisda or tscl == 0 or ptscl == 0:
                stall = 0
            else:
                stall += 1
                if stall > self.stall_bound:
                    raise Violation("operation-stalled", dict(operation=self.label((op, 0, 0))["op"], pulses=cnt, cycles_without_activity=stall))
        # ---- completion of the running operation: busy is low in this cycle
        completed_now = False
        if op is not None and not busy:
            self._complete(op, cnt, nst, nsp, p)
            op = None; completed_now = True; stall = 0
        # ---- the operation strobed in this cycle runs from the next cycle on
        if newop is not None:
            if completed_now: self.cover["op-right-after-op"] += 1
            if newop[0] == "S" and scl and not sda: self.cover["start-with-sda-held-low"] += 1
            op = newop; cnt = nst = nsp = 0; stall = 0
        return (scl, sda, isda, iscl, tscl, tsda, op, cnt, nst, nsp, stall)

    def _complete(self, op, cnt, nst, nsp, p):
        kind = op[0]
        name = self.label((op, 0, 0))["op"]
        if kind == "S":
            if nst != 1: raise Violation("start-not-generated", dict(sda_falls_under_scl_high=nst and 1, visible_on_wire=(nst == 1)))
        elif kind == "P":
            if nsp != 1: raise Violation("stop-not-generated", dict(sda_rises_under_scl_high=nsp and 1, visible_on_wire=(nsp == 1)))
        elif kind == "W":
            if cnt != 9: raise Violation("write-clock-pulse-count", dict(operation=name, pulses_on_wire=cnt))
            if p.ack_o != 1 - op[2]: raise Violation("write-ack-report", dict(target_ack_level=op[2], ack_o=p.ack_o))
            self.cover["write-acked" if op[2] == 0 else "write-nacked"] += 1
        else:
            if cnt != 9: raise Violation("read-clock-pulse-count", dict(operation=name, pulses_on_wire=cnt))
            if p.data_o != op[2]: raise Violation("read-data", dict(target_byte=hex(op[2]), data_o=hex(p.data_o)))
            self.cover["read-ack" if op[1] else "read-nak"] += 1


def make(cfg, tier):
    return I2CSpec(cfg, tier)
