# Shared environment pieces for the device-level OUT-stream harnesses (C13 bulk OUT, C16 isochronous OUT):
# a Host whose every cycle also plays the *consumer* of the endpoint's output stream (input `ready`) and records
# every beat it takes (valid & ready), plus the reference for the first/last flags.
from rtlmc.env.usb2_host import Host, J, K


class StreamHost(Host):
    """Host + stream consumer.  begin(window) resets the per-action scratch: `ready` is 1 exactly in the cycles
    s <= t < s+n of the action (t counts every cycle spent through this host since begin()); window None = never ready.
    decode(o) -> (byte, first, last) of the beat shown in observation o."""
    def __init__(self, decode, **kw):
        super().__init__(**kw)
        self.decode = decode
        self.begin(None)

    def begin(self, window):
        self.t = 0
        self.window = window
        self.consumed = []

    def _cyc(self, cur, **kw):
        t = self.t; self.t = t + 1
        w = self.window
        r = 1 if (w is not None and w[0] <= t < w[0] + w[1]) else 0
        if self.extra: kw = {**self.extra, **kw}
        o = cur.step(ready=r, **kw)
        if r and o.valid: self.consumed.append(self.decode(o))
        if self.on_cycle: self.on_cycle(o)
        return o

    def settle(self, cur):
        """end a consumer-only action like a bus event ends: one non-J cycle, then the inter-packet gap"""
        self._cyc(cur, line_state=K)
        self.idle(cur, self.gap)

    def drain_probe(self, cur, n):
        """lookahead: on a fork of `cur`, hold ready for n idle cycles and return every beat taken"""
        f = cur.fork()
        saved = (self.t, self.window, self.consumed, self.on_cycle)
        self.t, self.window, self.consumed, self.on_cycle = 0, (0, n), [], None
        try:
            for _ in range(n):
                self._cyc(f, line_state=J)
            return tuple(self.consumed)
        finally:
            self.t, self.window, self.consumed, self.on_cycle = saved

    # cycle offsets inside one send() (for placing consumer windows)
    def packet_cycles(self, nbytes):
        """cycles from the start of send() up to and including the last cycle with rx_active high"""
        return 1 + nbytes * self.pace + (self.pace - 1)

    def event_cycles_no_response(self, nbytes):
        return self.packet_cycles(nbytes) + self.gap + 1 + self.gap


def payload_bytes(length):
    """the one tagged payload per length: distinct in every position and between lengths"""
    return tuple(0x10 * length + i + 1 for i in range(length))


def diff_kind(observed, expected):
    """classify how an observed beat sequence differs from the expected one (both tuples of (byte, first, last))"""
    ob = tuple(b for b, _, _ in observed); eb = tuple(b for b, _, _ in expected)
    if ob != eb:
        return "bytes"
    for (b, f, l), (_, ef, el) in zip(observed, expected):
        if f != ef: return "first-missing" if ef else "first-spurious"
        if l != el: return "last-missing" if el else "last-spurious"
    return None
