# C51 - SPIRegisterInterface (on SPICommandInterface) reads and writes exactly the addressed register.
# Macro-step BFS, one SPI bit (4q system cycles) per step, CS abort possible after every bit and in the middle of a bit.
#
# DUT: SPIRegisterInterface(address_size=A, register_size=R, default_read_value=DEF) with
#   addr 0        size-autonegotiation register (reads all ones)           [added by the class itself]
#   addr RW       add_register(init=INIT, write_strobe=<observed>)         memory-backed read/write register
#   addr CONST    add_read_only_register(read=<constant>)
#   addr SFR      add_sfr(read=<input signal>, write_signal, write_strobe, read_strobe)
#   other addrs   unassigned -> default_read_value
# Environment: SPI master shaped like the repository's own SPIGatewareTestCase.spi_send_bit with quarter period q:
#   SDI=b, SCK low q cycles; SCK high 2q cycles; SCK low q cycles (SDI still b).  CS set-up / hold / gap >= q cycles.
#   The SFR's read input only changes while CS is inactive.
#   Configs with cs_offsets additionally release CS at *every* cycle offset e = 0..4q inside a bit period (action
#   "rbit"): e = q / 3q are the same cycle as the SCK rising / falling edge; a falling edge in a cycle in which CS is
#   already inactive does not count (the transaction is aborted unless it was complete before); e = 3q+1, 3q+2, ...
#   release CS one, two, ... cycles after the falling edge (the bit counts; if it was the last data bit the
#   transaction is complete and must take effect).  SCK finishes its period while deselected.
# Oracle (from the statement):
#   * data phase: in the second half of every SCK-high phase (where the repo's helper samples) SDO is the next bit,
#     MSB first, of the value the addressed register had during the transaction (autoneg: all ones; unassigned: DEF);
#     also for write commands (the format returns R for every command);
#   * after the last data bit of a *write* to RW / SFR: exactly one cycle of that register's write strobe before the
#     next SCK falling edge / next CS assertion; the SFR's write_signal carries the transmitted value in that cycle;
#     RW's value becomes the transmitted value (at or after the strobe) and then stays;
#   * at every other time: no write strobe of any register, RW keeps its value -> reads, writes to other / read-only /
#     unassigned addresses, aborted transactions and clocks beyond the end of a transaction change nothing.
from rtlmc.model import Design, Violation
from rtlmc.explore import Spec

PROPERTY = "C51"
TECHNIQUE = "BFS over SPI-master macro steps (one bit per step, aborts after every bit / mid-bit), per-cycle monitor inside each step"


def configs(tier):
    # aborts = number of transactions aborted before completion per history (-1 = unlimited, i.e. full closure)
    if tier == "quick":
        return [dict(A=1, R=2, q=4, data="full", sfr_vals=[1, 2], layout="tiny", aborts=-1, cs_offsets=True),
                dict(A=2, R=2, q=3, data=[0x2, 0x1], sfr_vals=[0x3], aborts=1, cs_offsets=True),
                dict(A=2, R=3, q=4, data=[0x5, 0x2], sfr_vals=[0x6], aborts=1),
                dict(A=3, R=4, q=4, data=[0x6, 0x9], sfr_vals=[0xA], aborts=1),
                dict(A=2, R=2, q=3, data=[0x2, 0x1], sfr_vals=[0x3, 0x0], aborts=1)]
    return [dict(A=1, R=2, q=4, data="full", sfr_vals=[1, 2], layout="tiny", aborts=-1, cs_offsets=True),
            dict(A=1, R=3, q=3, data="full", sfr_vals=[1, 2], layout="tiny", aborts=-1, cs_offsets=True),
            dict(A=2, R=2, q=4, data="full", sfr_vals=[0x1], aborts=-1),
            dict(A=2, R=2, q=3, data="full", sfr_vals=[0x1], aborts=2, cs_offsets=True),
            dict(A=2, R=3, q=4, data=[0x5, 0x2], sfr_vals=[5], aborts=1, cs_offsets=True),
            dict(A=3, R=4, q=3, data=[0x6, 0x9], sfr_vals=[0xA], aborts=1, cs_offsets=True),
            dict(A=2, R=3, q=5, data=[0x5, 0x2], sfr_vals=[5], aborts=1, cs_offsets=True),
            dict(A=2, R=3, q=4, data="full", sfr_vals=[5, 2], aborts=1),
            dict(A=2, R=3, q=3, data=[0x5, 0x2, 0x7], sfr_vals=[5, 2], aborts=2),
            dict(A=2, R=3, q=5, data=[0x5, 0x2, 0x0], sfr_vals=[5], aborts=2),
            dict(A=3, R=4, q=4, data=[0x0, 0xF, 0x6, 0x9], sfr_vals=[0xA, 0x5], aborts=1),
            dict(A=3, R=4, q=3, data=[0x1, 0xB], sfr_vals=[0xA], aborts=2),
            dict(A=3, R=5, q=4, data=[0x00, 0x1F, 0x16], sfr_vals=[0x0D], aborts=1),
            dict(A=4, R=3, q=4, data=[0x7, 0x5], sfr_vals=[0x3], aborts=1),
            dict(A=2, R=3, q=4, data=[0x5, 0x2], sfr_vals=[5], no_autoneg=True, aborts=2)]


class RegSpec(Spec):
    n_validate = 5
    max_extra = 2

    def __init__(self, cfg, tier):
        super().__init__(cfg, tier)
        self.A, self.R, self.q = cfg["A"], cfg["R"], cfg["q"]
        R = self.R
        self.mask = (1 << R) - 1
        self.data_vals = list(range(1 << R)) if cfg["data"] == "full" else list(cfg["data"])
        self.sfr_vals = list(cfg["sfr_vals"])
        if cfg.get("layout") == "tiny":           # 1 address bit: 0 = autoneg, 1 = RW
            self.RW, self.CONST, self.SFR = 1, None, None
        else:
            self.RW, self.CONST, self.SFR = 1, 2, 3
        self.autoneg = not cfg.get("no_autoneg")
        self.DEF = 0b10110 & self.mask | 1
        self.INIT = 0b01101 & self.mask
        self.CONSTVAL = 0b11010 & self.mask
        self.total = self.A + 1 + R
        # prefixes of admissible data words, for the per-bit menu in the data phase
        self.prefixes = set()
        for v in self.data_vals:
            for n in range(R + 1):
                self.prefixes.add((n, v >> (R - n)))
        self.time_budget = 600 if tier == "quick" else 3000     # safety net only; sized to finish in seconds
        self.max_states = 400_000 if tier == "quick" else 3_000_000
        self.abort_budget = cfg.get("aborts", 1)
        self.cs_offsets = bool(cfg.get("cs_offsets"))

    def build(self):
        from amaranth import Signal
        from luna.gateware.interface.spi import SPIRegisterInterface
        d = SPIRegisterInterface(address_size=self.A, register_size=self.R, default_read_value=self.DEF,
                                 support_size_autonegotiation=self.autoneg)
        rw_strobe = Signal(name="tb_rw_strobe")
        rw = d.add_register(self.RW, write_strobe=rw_strobe, init=self.INIT)
        ins = dict(sck=d.spi.sck, sdi=d.spi.sdi, cs=d.spi.cs)
        obs = dict(sdo=d.spi.sdo, rw=rw, rw_strobe=rw_strobe)
        if self.SFR is not None:
            d.add_read_only_register(self.CONST, read=self.CONSTVAL)
            sfr_read = Signal(self.R, name="tb_sfr_read")
            sfr_wsig = Signal(self.R, name="tb_sfr_wsig")
            sfr_wstrobe = Signal(name="tb_sfr_wstrobe")
            sfr_rstrobe = Signal(name="tb_sfr_rstrobe")
            d.add_sfr(self.SFR, read=sfr_read, write_signal=sfr_wsig, write_strobe=sfr_wstrobe, read_strobe=sfr_rstrobe)
            ins["sfr_read"] = sfr_read
            obs.update(sfr_wsig=sfr_wsig, sfr_wstrobe=sfr_wstrobe)
        return Design(d, ins, obs)

    # env = (active, n, sh, rw, sfr_in, pend, ab)
    #   n     bits clocked (falling edges seen with CS active) in this transaction, sh = those bits as an integer
    #   rw    model value of the RW register;  sfr_in = value driven on the SFR's read input
    #   pend  None | (target, data, strobes_seen, committed)   outstanding effect of a completed write
    #   ab    aborted transactions still allowed in this history (-1 = unlimited)
    def env0(self):
        return (0, 0, 0, self.INIT, self.sfr_vals[0], None, self.abort_budget)

    def actions(self, env):
        active, n, sh = env[0], env[1], env[2]
        if not active:
            return [("begin", v) for v in self.sfr_vals]
        may_abort = env[6] != 0 or n >= self.total
        acts = [("end",)] if (may_abort or n == 0) else []
        if n < self.total + self.max_extra:
            for b in (0, 1):
                if n < self.A + 1 or n >= self.total:
                    ok = True
                else:
                    k = n - (self.A + 1)
                    ok = (k + 1, ((sh << 1) | b) & ((1 << (k + 1)) - 1)) in self.prefixes
                if ok:
                    acts.append(("bit", b))
                    if may_abort: acts.append(("habort", b))
                    if self.cs_offsets:
                        for e in range(4 * self.q + 1):
                            completes = e > 3 * self.q and n + 1 == self.total
                            if may_abort or completes: acts.append(("rbit", b, e))
        return acts

    def assumptions(self):
        return ["SPI master timing as in the repo's SPIGatewareTestCase.spi_send_bit: SDI stable from q cycles before the rising edge to q cycles after the falling edge, SCK high 2q and low 2q cycles, q in {3,4,5} (the test suite uses 4)",
                "CS active >= q cycles before the first SCK edge; CS released >= q cycles after the last falling edge, or (mid-bit abort) while SCK is high, or (configs with cs_offsets) at every cycle offset 0..4q of a bit period incl. the same cycle as either SCK edge; a falling edge in a cycle with CS already inactive does not count; a transaction whose last falling edge happened with CS active is complete however soon CS is released afterwards; CS inactive >= q+1 cycles between transactions; SCK low while CS is asserted",
                "the SFR's read input changes only while CS is inactive",
                "SDO is compared where the repo's helper samples it and until the falling edge (second half of SCK high)",
                "a write's strobe/update must appear before the next SCK falling edge or next CS assertion; no exact latency demanded",
                "at most 2 surplus bits are clocked after a complete transaction",
                "bound: configs with aborts=k explore all histories with at most k aborted transactions (any number of complete ones); aborts=-1 is the full closure"]

    def _expected_read(self, st, addr):
        if addr == 0 and self.autoneg: return self.mask
        if addr == self.RW: return st["rw_at_cmd"]
        if self.CONST is not None and addr == self.CONST: return self.CONSTVAL
        if self.SFR is not None and addr == self.SFR: return st["sfr_in"]
        return self.DEF

    # -- monitor applied to one observed cycle
    def _mon(self, st, o, reps=1):
        pend = st["pend"]
        has_sfr = self.SFR is not None
        for name, strobe in (("rw", o.rw_strobe), ("sfr", o.sfr_wstrobe if has_sfr else 0)):
            if not strobe: continue
            if pend is None or pend[0] != name:
                raise Violation("write-strobe-spurious", dict(register=name, bits_clocked=st["n"], shifted=st["sh"],
                                                              outstanding=pend))
            if pend[2] + reps > 1:
                raise Violation("write-strobe-repeated", dict(register=name, data=pend[1]))
            if name == "sfr" and o.sfr_wsig != pend[1]:
                raise Violation("write-value", dict(register="sfr", expected=pend[1], got=o.sfr_wsig))
            pend = (pend[0], pend[1], 1, pend[3])
            self.cover["strobe_" + name] += 1
        # RW value
        if o.rw != st["rw"]:
            if pend is not None and pend[0] == "rw" and o.rw == pend[1]:
                st["rw"] = o.rw
                pend = (pend[0], pend[1], pend[2], 1)
            else:
                raise Violation("register-changed", dict(expected=st["rw"], got=o.rw, bits_clocked=st["n"], outstanding=pend))
        elif pend is not None and pend[0] == "rw" and pend[1] == st["rw"] and pend[2]:
            pend = (pend[0], pend[1], pend[2], 1)        # written value equals the old one
        st["pend"] = pend

    def _run(self, cur, st, n, sdo_expect=None, **inp):
        if self.SFR is not None: inp["sfr_read"] = st["sfr_in"]
        left = n
        while left > 0:
            k, first, last = cur.hold(left, **inp)
            if k > 1:
                self._mon(st, first, k - 1)
                if sdo_expect is not None: self._sdo(st, first, sdo_expect)
            self._mon(st, last, 1)
            if sdo_expect is not None: self._sdo(st, last, sdo_expect)
            left -= k

    def _sdo(self, st, o, exp):
        if o.sdo != exp:
            raise Violation("read-bit", dict(address=st["addr"], write=st["is_write"], bit_index=st["n"] - (self.A + 1),
                                             expected_word=st["readval"], got_bit=o.sdo))
        self.cover["sdo_checked"] += 1

    def _deadline(self, st, by):
        p = st["pend"]
        if p is None: return
        if not p[2]:
            raise Violation("write-strobe-missing", dict(register=p[0], data=p[1], by=by))
        if p[0] == "rw" and not p[3]:
            raise Violation("register-not-updated", dict(expected=p[1], got=st["rw"], by=by))
        st["pend"] = None

    def _decode(self, st):
        """fill in addr / is_write / readval once the command is complete"""
        A, R = self.A, self.R
        n, sh = st["n"], st["sh"]
        if n < A + 1:
            st["addr"] = st["is_write"] = st["readval"] = None
            return
        cmd = sh >> (min(n, self.total) - (A + 1))       # sh stops growing once the transaction is complete
        st["is_write"] = cmd >> A
        st["addr"] = cmd & ((1 << A) - 1)
        st["readval"] = self._expected_read(st, st["addr"])

    def apply(self, cur, env, a):
        st = dict(zip(("active", "n", "sh", "rw", "sfr_in", "pend", "ab"), env))
        st["rw_at_cmd"] = st["rw"]     # RW cannot change between command and data phase of one transaction (no pending write then)
        q, A, R = self.q, self.A, self.R
        kind = a[0]
        if kind == "begin":
            st["sfr_in"] = a[1]
            self._run(cur, st, q + 1, sck=0, sdi=0, cs=0)
            self._deadline(st, "next CS assertion")
            self._run(cur, st, q, sck=0, sdi=0, cs=1)
            st.update(active=1, n=0, sh=0)
        elif kind == "rbit":
            # one bit period with CS active only during its first e cycles; ends the transaction
            b, e = a[1], a[2]
            self._decode(st)
            n = st["n"]
            in_data = A + 1 <= n < self.total
            exp = (st["readval"] >> (R - 1 - (n - (A + 1)))) & 1 if in_data else None
            counted = e > 3 * q
            for lo, hi, sck, chk in ((0, q, 0, None), (q, 2 * q, 1, None), (2 * q, 3 * q, 1, exp), (3 * q, 4 * q, 0, None)):
                if lo == 3 * q and counted:
                    self._deadline(st, "next SCK falling edge")
                    self._count_bit(st, n, b)
                on = max(0, min(hi, e) - lo)
                if on: self._run(cur, st, on, sdo_expect=chk, sck=sck, sdi=b, cs=1)
                if hi - lo - on: self._run(cur, st, hi - lo - on, sck=sck, sdi=b, cs=0)
            self._run(cur, st, 1, sck=0, sdi=b, cs=0)
            nf = st["n"]
            if nf < self.total:
                if n > 0 or e > q:
                    self.cover["abort_offset"] += 1
                    if st["ab"] > 0: st["ab"] -= 1
                if e == 3 * q: self.cover["release_with_falling_edge"] += 1
                if e == q: self.cover["release_with_rising_edge"] += 1
            elif nf == self.total and counted:
                self.cover["release_%d_after_last_edge" % min(e - 3 * q, 3)] += 1
            st.update(active=0, n=0, sh=0)
        elif kind in ("bit", "habort"):
            b = a[1]
            self._decode(st)
            n = st["n"]
            in_data = A + 1 <= n < self.total
            exp = None
            if in_data:
                exp = (st["readval"] >> (R - 1 - (n - (A + 1)))) & 1
            self._run(cur, st, q, sck=0, sdi=b, cs=1)
            self._run(cur, st, q, sck=1, sdi=b, cs=1)
            self._run(cur, st, q, sdo_expect=exp, sck=1, sdi=b, cs=1)
            if kind == "habort":
                self._run(cur, st, 1, sck=1, sdi=b, cs=0)
                self._run(cur, st, q, sck=0, sdi=b, cs=0)
                self._deadline(st, "end of mid-bit abort")
                self.cover["abort_mid_bit"] += 1
                if n < self.total and st["ab"] > 0: st["ab"] -= 1
                if in_data: self.cover["abort_in_data"] += 1
                st.update(active=0, n=0, sh=0)
            else:
                # the falling edge the device sees next completes this bit
                self._deadline(st, "next SCK falling edge")
                self._count_bit(st, n, b)
                self._run(cur, st, q, sck=0, sdi=b, cs=1)
        else:
            if 0 < st["n"] < self.total:
                self.cover["abort"] += 1
                if st["ab"] > 0: st["ab"] -= 1
            if A + 1 <= st["n"] < self.total: self.cover["abort_in_data"] += 1
            self._run(cur, st, q, sck=0, sdi=0, cs=1)
            self._run(cur, st, 1, sck=0, sdi=0, cs=0)
            st.update(active=0, n=0, sh=0)
        self.outcomes.add((kind, st["pend"] is not None))
        return tuple(st[k] for k in ("active", "n", "sh", "rw", "sfr_in", "pend", "ab"))

    def _count_bit(self, st, n, b):
        A, R = self.A, self.R
        st["n"] = n + 1
        st["sh"] = ((st["sh"] << 1) | b) if n < self.total else st["sh"]
        if st["n"] == self.total:
            cmd = st["sh"] >> R
            data = st["sh"] & self.mask
            is_write, addr = cmd >> A, cmd & ((1 << A) - 1)
            self.cover["complete"] += 1
            if is_write:
                if addr == self.RW:
                    st["pend"] = ("rw", data, 0, 0); self.cover["write_rw"] += 1
                elif self.SFR is not None and addr == self.SFR:
                    st["pend"] = ("sfr", data, 0, 0); self.cover["write_sfr"] += 1
                else:
                    self.cover["write_other"] += 1
            else:
                self.cover["read"] += 1
                if addr == self.RW and st["rw"] != self.INIT: self.cover["read_back_written"] += 1
        elif st["n"] > self.total:
            self.cover["surplus_bit"] += 1

    def goals(self):
        g = ["complete", "read", "write_rw", "strobe_rw", "read_back_written", "abort", "abort_in_data", "abort_mid_bit",
             "surplus_bit", "sdo_checked", "write_other"]
        if self.SFR is not None: g += ["write_sfr", "strobe_sfr"]
        if self.cs_offsets:
            g += ["abort_offset", "release_with_falling_edge", "release_with_rising_edge", "release_1_after_last_edge", "release_2_after_last_edge"]
        return g


def make(cfg, tier):
    return RegSpec(cfg, tier)
