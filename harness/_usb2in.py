# Helpers shared by the device-level bulk-endpoint harnesses C11 and C14: a Host whose every cycle also carries the
# inputs of an application-side driver (stream producer / consumer living next to the USB device), and a tagged
# byte-stream producer.
from rtlmc.env.usb2_host import Host, K


class DrivenHost(Host):
    """Host + an application-side driver.  `driver.inputs()` -> dict of extra DUT inputs for the coming cycle,
    `driver.observe(o)` sees the cycle's observation.  The driver object is created inside Spec.apply() from the
    environment tuple and read back at its end, so no state survives between transitions."""
    driver = None

    def _cyc(self, cur, **kw):
        d = self.driver
        if d is not None:
            kw.update(d.inputs())
        if self.extra:
            kw = {**self.extra, **kw}
        o = cur.step(**kw)
        if d is not None:
            d.observe(o)
        if self.on_cycle: self.on_cycle(o)
        return o

    def tick(self, cur, **kw):
        """one cycle without bus traffic.  line_state=K keeps the suspend timer of the reset sequencer at zero, so any
        number of ticks leads back to the same DUT state (the bus-idle timer is not part of the properties checked)."""
        return self._cyc(cur, line_state=K, **kw)


class Producer:
    """Feeds tagged bytes tags[pos] into a StreamInterface (inputs <pfx>valid/payload/last, observed <pfx>ready).
    level: valid is presented in every cycle while bytes are left.  last_at: positions that carry `last` when pushed
    by the level mode; one-shot pushes choose `last` themselves.  Records the positions pushed with last."""
    def __init__(self, tags, pos, lasts, level, last_at=(), flush=0, pfx="s_", flush_name="flush"):
        self.tags, self.pos, self.lasts = tags, pos, lasts
        self.level, self.last_at, self.flush = level, last_at, flush
        self.once = None                 # None | 0 | 1 : present one byte in the next cycle with this `last`
        self.pfx, self.flush_name = pfx, flush_name
        self._presented = None
        self.accepted_cycles = 0

    def inputs(self):
        p = self.pfx
        d = {self.flush_name: self.flush} if self.flush_name else {}
        self._presented = None
        if self.pos < len(self.tags):
            if self.once is not None:
                self._presented = self.once
            elif self.level:
                self._presented = 1 if self.pos in self.last_at else 0
        if self._presented is not None:
            d[p + "valid"] = 1; d[p + "payload"] = self.tags[self.pos]; d[p + "last"] = self._presented
        else:
            d[p + "valid"] = 0
        self.once = None
        return d

    def observe(self, o):
        if self._presented is not None and getattr(o, self.pfx + "ready"):
            if self._presented: self.lasts = self.lasts + (self.pos,)
            self.pos += 1
            self.accepted_cycles += 1
