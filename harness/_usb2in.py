# Helpers shared by the device-level bulk-endpoint harnesses C11 and C14: a Host whose every cycle also carries the
# inputs of an application-side driver (stream producer / consumer living next to the USB device), and a tagged
# byte-stream producer.
from rtlmc.env.usb2_host import Host, PruneCollision, K

QUIET_CHUNK = 24        # idle cycles per step of the search for the idle fixed point (the inter-packet timers saturate)


class DrivenHost(Host):
    """Host + an application-side driver.  `driver.inputs()` -> dict of extra DUT inputs for the coming cycle,
    `driver.observe(o)` sees the cycle's observation.  The driver object is created inside Spec.apply() from the
    environment tuple and read back at its end, so no state survives between transitions."""
    driver = None

    def _cyc(self, cur, **kw):
        d = self.driver
        if d is not None:
            kw.update(d.inputs())
        if self.extra:
            kw = {**self.extra, **kw}
        o = cur.step(**kw)
        if d is not None:
            d.observe(o)
        if self.on_cycle: self.on_cycle(o)
        return o

    def tick(self, cur, **kw):
        """one cycle without bus traffic.  line_state=K keeps the suspend timer of the reset sequencer at zero, so
        idle time does not distinguish DUT states (the bus-idle timer is not part of the properties checked)."""
        o = self._cyc(cur, line_state=K, **kw)
        if o.tx_valid: raise PruneCollision()
        return o

    def quiet(self, cur):
        """A long bus-idle period: first lets the driver finish what it is doing (cycle by cycle), then holds the inputs
        until the free-running inter-packet timers have saturated and the DUT is in a state that further idle time does
        not change (checked: one more cycle leaves the state bytes unchanged)."""
        d = self.driver
        if d is not None:
            prev = None
            for _ in range(400):
                o = self.tick(cur)
                if not d.busy() and o == prev: break
                prev = o
            else:
                raise AssertionError("driver / application-side outputs never became idle")
        kw = dict(line_state=K)
        if d is not None: kw.update(d.inputs())
        if self.extra: kw = {**self.extra, **kw}
        for _ in range(200):
            n, first, last = cur.hold(QUIET_CHUNK, **kw)
            if last.tx_valid: raise PruneCollision()
            if n != QUIET_CHUNK: continue            # an observed strobe (e.g. the response-slot pulse) passed by; keep idling
            before = cur.state
            cur.hold(1, **kw)
            if cur.state == before: break            # fixed point: more idle time changes nothing
        else:
            raise AssertionError("DUT state keeps changing during a long bus-idle period")
        if d is not None: d.observe(last)


class Producer:
    """Feeds tagged bytes tags[pos] into a StreamInterface (inputs <pfx>valid/payload/last, observed <pfx>ready).
    level: 0 = valid low; 1 = valid presented in every cycle while bytes are left; k > 1 = becomes 1 after k-1 more cycles.
    last_at: positions that carry `last` when pushed by the level mode; one-shot pushes (once = 0/1) choose `last`
    themselves.  Records the positions pushed with last.  While valid is low, payload/last carry `junk` (stream signals
    other than valid are don't-care then, so a legal producer may leave anything there, e.g. `last` tied high or set up early)."""
    def __init__(self, tags, pos, lasts, level, last_at=(), flush=0, pfx="s_", flush_name="flush", junk=None):
        self.tags, self.pos, self.lasts = tags, pos, lasts
        self.junk = junk                 # None | (last, payload) driven while valid is low (don't-care values of a legal producer)
        self.level, self.last_at, self.flush = level, last_at, flush
        self.once = None
        self.pfx, self.flush_name = pfx, flush_name
        self._presented = None
        self._moved = True               # something happened in the last cycle (unknown before the first one)
        self.t = 0                       # cycles seen by this driver instance (= cycles of the current action)
        self.acc_t = {}                  # position -> cycle in which that byte was accepted (this action only)
        self.rfr_t = []                  # cycles in which the observed `rfr` (tokenizer.ready_for_response) was high, if observed
        self.names = (pfx + "valid", pfx + "payload", pfx + "last", pfx + "ready")

    def clone(self):
        p = Producer(self.tags, self.pos, self.lasts, self.level, self.last_at, self.flush, self.pfx, self.flush_name, self.junk)
        return p

    def inputs(self):
        nv, np_, nl, _ = self.names
        d = {self.flush_name: self.flush} if self.flush_name else {}
        self._presented = None
        self._moved = False
        if self.level > 1:
            self.level -= 1
            self._moved = True
        elif self.pos < len(self.tags):
            if self.once is not None:
                self._presented = self.once
            elif self.level:
                self._presented = 1 if self.pos in self.last_at else 0
        if self._presented is not None:
            d[nv] = 1; d[np_] = self.tags[self.pos]; d[nl] = self._presented
        else:
            d[nv] = 0
            if self.junk is not None: d[nl], d[np_] = self.junk
        self.once = None
        return d

    def observe(self, o):
        if self._presented is not None and getattr(o, self.names[3]):
            if self._presented: self.lasts = self.lasts + (self.pos,)
            self.acc_t[self.pos] = self.t
            self.pos += 1
            self._moved = True
        if getattr(o, "rfr", 0): self.rfr_t.append(self.t)
        self.t += 1

    def busy(self):
        return self._moved
