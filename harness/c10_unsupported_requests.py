# C10 - unsupported / unclaimed control requests are STALLed and never answered.
#
# DUT: USBDevice (UTMI, full speed) + USBControlEndpoint(mps 8) with the request handlers of the configuration
#      ("std": StandardRequestHandler alone; "acm": + ACMRequestHandlers + StallOnlyRequestHandler(vendor|reserved) exactly as
#      USBSerialDevice wires them; "skip": StandardRequestHandler with a skiplist, so that GET_STATUS and SET_CONFIGURATION are
#      requests the device does not implement), a bulk IN endpoint (ep1, always has data: its data toggle is the witness for
#      "no state change") and a probe endpoint exposing active_address / active_config.
# Exploration: the pre-state script of the configuration is run from reset, then every setup packet of the product
#      type{standard, class, vendor, reserved} x recipient{device, interface, endpoint, other} x direction x
#      bRequest{0..13, 0x20, 0xFF} x wValue{0, 1, 0x0100, 0x0302} x wIndex{0, 0x81} x wLength{0, 2}
#      that is outside the implemented / claimed set is sent and its canonical transfer (data stage in the given direction,
#      then status stage) is run as one macro action; thorough tier chains a second request from a reduced menu.
# Oracle (from the statement): the device never sends a data packet, never ACKs the data or status stage, active address /
#      configuration never change and the data toggle of ep1 is untouched; the first data-stage IN (IN requests with
#      wLength > 0) resp. the status-stage IN (all others) is answered with STALL.
from rtlmc.model import Violation
from rtlmc.explore import Spec
from rtlmc import usbref as U
from rtlmc.env.usb2_host import Host, PruneCollision
from harness._usb2dev import build_device

PROPERTY = "C10"
TECHNIQUE = "exhaustive enumeration of the setup-packet product from several pre-states; packet-level host, one canonical transfer per macro action"
LEVEL_TEXT = ("Every setup packet of the DESIGN.md product (8192 packets, of which those outside the implemented/claimed set are judged) is sent to the "
              "real USBDevice netlist from reset and from non-initial states (addressed+configured, after a stalled request, and every implemented "
              "request left unfinished: only its SETUP seen / its first IN answered but the host's ACK lost / GET_DESCRIPTOR abandoned mid data stage), "
              "for three handler line-ups; the canonical transfer is run "
              "and every device packet, the address/configuration registers (every cycle) and the bulk endpoint's data toggle are checked.")

IMPLEMENTED_STD = (0, 1, 5, 6, 8, 9)      # GET_STATUS, CLEAR_FEATURE, SET_ADDRESS, GET_DESCRIPTOR, GET_CONFIGURATION, SET_CONFIGURATION
PRE = ("reset", "configured", "abandoned-get-descriptor", "pending-set-address", "pending-clear-halt", "after-stalled-request")
A_CFG = 0x33
# every implemented request, left unfinished: "setup" = only the SETUP transaction happened (transfer abandoned), "noack" = the first
# data/status IN transaction was answered but the host's ACK never reached the device (lost ACK, then the host moved on)
IMPLEMENTED = {"set-address": (0x00, 5, 0x35, 0, 0), "set-configuration": (0x00, 9, 1, 0, 0), "clear-halt": (0x02, 1, 0, 0x81, 0),
               "get-status": (0x80, 0, 0, 0, 2), "get-configuration": (0x80, 8, 0, 0, 1), "get-descriptor": (0x80, 6, 0x0100, 0, 18)}
UNFINISHED = tuple(f"unfinished:{r}:{st}" for r in IMPLEMENTED for st in ("setup", "noack"))


def product():
    out = []
    for typ in range(4):
        for rcp in range(4):
            for d in (0, 1):
                for req in list(range(14)) + [0x20, 0xFF]:
                    for val in (0, 1, 0x0100, 0x0302):
                        for idx in (0, 0x81):
                            for ln in (0, 2):
                                out.append(((d << 7) | (typ << 5) | rcp, req, val, idx, ln))
    return out


def configs(tier):
    """pre = one pre-state (run in the prologue; full product menu) or "unfinished-all" (the pre-state is the first action of every path,
    chosen among all UNFINISHED ones; reduced product menu unless menu="full")"""
    if tier == "quick":
        cs = [dict(dut="std", pre=p) for p in ("reset", "configured", "pending-set-address", "unfinished:set-configuration:noack", "after-stalled-request")]
        cs += [dict(dut="acm", pre="reset"), dict(dut="acm", pre="configured"), dict(dut="skip", pre="reset"), dict(dut="skip", pre="configured")]
        cs += [dict(dut=d, pre="unfinished-all") for d in ("std", "acm", "skip")]
        cs += [dict(dut="std", pre="abandoned-get-descriptor", menu="reduced"), dict(dut="std", pre="pending-clear-halt", menu="reduced")]
        return cs
    cs = [dict(dut=d, pre=p) for d in ("std", "acm", "skip") for p in PRE + UNFINISHED]
    for c in cs:
        if c["pre"] in ("reset", "configured"): c["chain"] = 1
    cs += [dict(dut="std", pre="reset", gap=3, pace=2), dict(dut="std", pre="configured", gap=4, pace=1),
           dict(dut="std", pre="unfinished-all", gap=3, pace=2, menu="full")]
    return cs


class UnsupportedSpec(Spec):
    n_validate = 4
    validate_max_cycles = 3000

    def __init__(self, cfg, tier):
        super().__init__(cfg, tier)
        self.host = Host(gap=cfg.get("gap", 1), pace=cfg.get("pace", 1), extra=dict(connect=1, valid=1, payload=0xA7))
        self.time_budget = 400 if tier == "quick" else 850      # a cap, not a target
        self.max_states = 3_000_000
        self.dut = cfg["dut"]
        self.levels = 2 if cfg.get("chain") else 1
        self.menu = [s for s in product() if self.unsupported(s)]
        self.multi = cfg["pre"] == "unfinished-all"
        if cfg.get("menu", "reduced" if self.multi else "full") == "reduced":
            # all request types, directions, bRequests and lengths; recipients device/endpoint; one wValue/wIndex
            self.menu = [s for s in self.menu if s[2] == 1 and s[3] == 0x81 and (s[0] & 0x1F) in (0, 2)]
        sanity = [(0x80, 0, 0, 0, 2), (0x80, 6, 0x0100, 0, 2), (0x02, 1, 0, 0x81, 0)]       # GET_STATUS, GET_DESCRIPTOR(device), CLEAR_FEATURE(HALT, ep 0x81)
        if self.dut == "skip": sanity = sanity[1:]
        if self.dut == "acm": sanity.append((0x21, 0x20, 0, 0, 2))                          # SET_LINE_CODING (claimed by the ACM handler)
        self.sanity = sanity
        # reduced second-level menu (thorough): one of each shape per type
        pm = []
        for s in self.menu:
            typ = (s[0] >> 5) & 3
            if s[2] == 0x0302 and s[3] == 0x81 and (s[0] & 0x1F) == 0 and s[1] == (3 if typ == 0 else 0xFF): pm.append(s)
        self.probe_menu = pm

    # ---- which requests are outside the implemented / claimed set (written from the statement and the line-up's documentation)
    def unsupported(self, s):
        bm, req, val, idx, ln = s
        typ, rcp = (bm >> 5) & 3, bm & 0x1F
        if typ == 0:
            if self.dut == "skip" and req in (0, 9): return True        # skiplisted -> not implemented by this device
            if req not in IMPLEMENTED_STD: return True
            if req == 1: return not (rcp == 2 and val == 0)             # CLEAR_FEATURE other than ENDPOINT_HALT on an endpoint
            return False
        if typ == 1 and self.dut == "acm" and req == 0x20 and not (bm & 0x80): return False   # SET_LINE_CODING (host-to-device) is claimed
        return True

    def build(self):
        from luna.gateware.usb.usb2.endpoints.stream import USBStreamInEndpoint
        from harness._usb2dev import small_descriptors
        mk = lambda: USBStreamInEndpoint(endpoint_number=1, max_packet_size=2)
        if self.dut == "std":
            design, h = build_device(control="standard", ep0_mps=8, endpoints=[mk])
        elif self.dut == "acm":
            from luna.gateware.usb.devices.acm import ACMRequestHandlers
            from luna.gateware.usb.usb2.request import StallOnlyRequestHandler
            from usb_protocol.types import USBRequestType
            cond = lambda setup: (setup.type == USBRequestType.VENDOR) | (setup.type == USBRequestType.RESERVED)
            design, h = build_device(control="standard", ep0_mps=8, endpoints=[mk],
                                     handlers=[ACMRequestHandlers, lambda: StallOnlyRequestHandler(cond)])
        else:
            from luna.gateware.usb.request.standard import StandardRequestHandler
            skip = [lambda setup: (setup.request == 0) | (setup.request == 9)]
            design, h = build_device(control="custom", ep0_mps=8, endpoints=[mk],
                                     handlers=[lambda: StandardRequestHandler(small_descriptors(8), max_packet_size=8, skiplist=skip)])
        ep = h["endpoints"][0]
        design.inputs.update(valid=ep.stream.valid, payload=ep.stream.payload, last=ep.stream.last)
        design.defaults.update(valid=1, payload=0xA7)
        return design

    def assumptions(self):
        return self.host.assumptions() + [
            "canonical transfer: SETUP; if wLength > 0 one data-stage transaction in the direction of bmRequestType (OUT carries a 2-byte DATA1 packet); "
            "then, unless the device already STALLed, the status-stage IN token (for IN requests with data the first data-stage IN must already be STALLed)",
            "a data-stage OUT packet may be answered by STALL, NAK or silence (anything but ACK/NYET); then the status stage must STALL",
            "requests with an implemented bRequest but unusual direction/recipient are not judged (the statement only covers requests the device does not implement)",
            "the bulk IN endpoint always has data; its data toggle is read by IN transactions the host does not ACK"]

    def goals(self):
        g = ["stalled-at-data-in", "stalled-at-status", "out-data-not-acked", "supported-request-answered", "toggle-compared", "judged:standard",
             "judged:class", "judged:vendor", "judged:reserved", "judged:clear-feature-variant"]
        if self.dut == "skip": g.append("judged:skiplisted")
        if self.multi: g.append("pre:in-answered-ack-lost")
        return g

    # ---- transactions
    def _setup(self, cur, addr, s):
        self.host.send(cur, U.token(U.SETUP, addr, 0), False)
        r = self.host.send(cur, U.data_packet(U.DATA0, U.setup_bytes(*s)), True)
        if r is None or U.classify_device_packet(r) != ("hs", U.ACK):
            raise Violation("setup-not-acked", dict(setup=s, response=r))

    def _in(self, cur, addr, ep, ack):
        r = self.host.send(cur, U.token(U.IN, addr, ep), True)
        k = U.classify_device_packet(r) if r is not None else None
        if ack and k is not None and k[0] == "data":
            self.host.send(cur, U.handshake(U.ACK), False)
        return k

    def _out(self, cur, addr, ep, pid, payload):
        self.host.send(cur, U.token(U.OUT, addr, ep), False)
        r = self.host.send(cur, U.data_packet(pid, payload), True)
        return U.classify_device_packet(r) if r is not None else None

    def _expect(self, what, got, want):
        if got != want: raise Violation("pre-state-script-failed", dict(step=what, got=got, expected=want))

    def _run_pre(self, cur, pre):
        """drive the device into the named pre-state; returns the device address in force afterwards"""
        addr = 0
        if pre == "configured":
            self._setup(cur, 0, (0x00, 5, A_CFG, 0, 0))
            self._expect("set_address status", self._in(cur, 0, 0, True), ("data", U.DATA1, ()))
            addr = A_CFG
            if self.dut != "skip":
                self._setup(cur, addr, (0x00, 9, 1, 0, 0))
                self._expect("set_configuration status", self._in(cur, addr, 0, True), ("data", U.DATA1, ()))
        elif pre == "abandoned-get-descriptor":
            self._setup(cur, 0, (0x80, 6, 0x0100, 0, 18))
            k = self._in(cur, 0, 0, True)
            self._expect("get_descriptor first packet", k and (k[0], len(k[2])), ("data", 8))
        elif pre == "pending-set-address":
            self._setup(cur, 0, (0x00, 5, 0x35, 0, 0))
        elif pre == "pending-clear-halt":
            self._setup(cur, 0, (0x02, 1, 0, 0x81, 0))
        elif pre == "after-stalled-request":
            self._setup(cur, 0, (0xC0, 0x77, 0, 0, 2))
            self._expect("vendor request data stage", self._in(cur, 0, 0, False), ("hs", U.STALL))
            self._setup(cur, 0, (0x00, 3, 1, 0, 0))
            self._expect("set_feature status stage", self._in(cur, 0, 0, False), ("hs", U.STALL))
        elif pre.startswith("unfinished:"):
            _, r, st = pre.split(":")
            self._setup(cur, 0, IMPLEMENTED[r])
            if st == "noack":
                k = self._in(cur, 0, 0, False)        # data-stage resp. status-stage IN; the host's ACK is lost
                if k is not None and k[0] == "data": self.cover["pre:in-answered-ack-lost"] += 1
        elif pre != "reset":
            raise KeyError(pre)
        return addr

    def prologue(self, cur):
        host, pre = self.host, self.cfg["pre"]
        try:
            host.idle(cur, 4)
            k = self._in(cur, 0, 1, True)                      # ep1 toggle -> DATA1
            self._expect("in ep1", k and k[:2], ("data", U.DATA0))
            addr = 0 if self.multi else self._run_pre(cur, pre)
            o = cur.peek(connect=1, valid=1, payload=0xA7, line_state=1)
            if o.active_address != addr: self._expect("address after script", o.active_address, addr)
        except PruneCollision:
            raise Violation("pre-state-script-failed", dict(step="bus collision"))
        return (addr, o.active_config, self.levels, 0 if self.multi else 1)

    # env = (address, configuration, requests left, pre-state reached?)
    def env0(self): return (0, 0, self.levels, 0 if self.multi else 1)

    def actions(self, env):
        addr, cfg, left, ready = env
        if not ready: return [("pre", p) for p in UNFINISHED]
        if left == 0: return []
        if left == self.levels:
            return [("u",) + s for s in self.menu] + [("s",) + s for s in self.sanity]
        return [("u",) + s for s in self.probe_menu]

    def label(self, a):
        if a[0] == "pre": return ["pre-state", a[1]]
        return [("unsupported" if a[0] == "u" else "supported (not judged)"),
                dict(bmRequestType=hex(a[1]), bRequest=a[2], wValue=hex(a[3]), wIndex=hex(a[4]), wLength=a[5])]

    def apply(self, cur, env, a):
        addr, cfg, left, ready = env
        if a[0] == "pre":
            try:
                self._run_pre(cur, a[1])
            except PruneCollision:
                raise Violation("pre-state-script-failed", dict(step="bus collision", pre=a[1]))
            o = cur.peek(connect=1, valid=1, payload=0xA7, line_state=1)
            return (o.active_address, o.active_config, left, 1)      # (whether an un-ACKed SET_ADDRESS may take effect is C08's business)
        s = tuple(a[1:])
        changes = []
        def watch(o):
            v = (o.active_address, o.active_config)
            if v != (addr, cfg) and (not changes or changes[-1] != v): changes.append(v)
        self.host.on_cycle = watch
        try:
            try:
                if a[0] == "s": return self._sanity(cur, env, s)
                self._judge(cur, addr, s)
            except PruneCollision:
                raise Violation("unsupported:bus-collision", dict(setup=s))     # the device transmitted where nothing may be sent
        finally:
            self.host.on_cycle = None
        if changes:
            what = "address" if any(c[0] != addr for c in changes) else "configuration"
            raise Violation(f"unsupported:{self._cls}:{what}-changed", dict(setup=s, before=(addr, cfg), seen=changes))
        return (addr, cfg, left - 1, 1)

    def _sanity(self, cur, env, s):
        addr, cfg, left, _ = env
        self._setup(cur, addr, s)
        k = self._in(cur, addr, 0, False) if (s[0] & 0x80 or s[4] == 0) else self._out(cur, addr, 0, U.DATA1, (0x11, 0x22))
        if k is not None and (k[0] == "data" or k == ("hs", U.ACK)): self.cover["supported-request-answered"] += 1
        self.outcomes.add(("s", s, k))
        return None        # leaf: supported requests are only run as a vacuity guard for the transfer machinery

    def _toggle(self, cur, addr):
        k = self._in(cur, addr, 1, False)
        if k is None or k[0] != "data": raise Violation("bulk-endpoint-not-answering", dict(response=k))
        return k[1]

    def _judge(self, cur, addr, s):
        bm, req, val, idx, ln = s
        typ = (bm >> 5) & 3
        ctx = dict(setup=dict(bmRequestType=hex(bm), bRequest=req, wValue=hex(val), wIndex=hex(idx), wLength=ln), address=addr)
        cls = self._cls = ("class", "vendor", "reserved")[typ - 1] if typ else ("clear-feature-variant" if req == 1 else
                                                                               "skiplisted" if req in IMPLEMENTED_STD else "standard-unimplemented")
        t0 = self._toggle(cur, addr)
        self._setup(cur, addr, s)
        stalled = False
        if ln and (bm & 0x80):
            k = self._in(cur, addr, 0, False)
            self._no_answer(k, ctx, "data-in")
            if k != ("hs", U.STALL): raise Violation(f"unsupported:{cls}:data-in-not-stalled", dict(ctx, response=k))
            self.cover["stalled-at-data-in"] += 1
            stalled = True
        elif ln:
            k = self._out(cur, addr, 0, U.DATA1, (0x11, 0x22))
            self._no_answer(k, ctx, "data-out")
            self.cover["out-data-not-acked"] += 1
            stalled = k == ("hs", U.STALL)
        if not stalled:
            k = self._in(cur, addr, 0, False)
            self._no_answer(k, ctx, "status")
            if k != ("hs", U.STALL): raise Violation(f"unsupported:{cls}:status-not-stalled", dict(ctx, response=k))
            self.cover["stalled-at-status"] += 1
        t1 = self._toggle(cur, addr)
        self.cover["toggle-compared"] += 1
        if t1 != t0: raise Violation(f"unsupported:{cls}:endpoint-toggle-changed", dict(ctx, before=U.PIDNAME[t0], after=U.PIDNAME[t1]))
        self.cover["judged:" + ("standard", "class", "vendor", "reserved")[typ]] += 1
        if typ == 0 and req == 1: self.cover["judged:clear-feature-variant"] += 1
        if typ == 0 and req in (0, 9): self.cover["judged:skiplisted"] += 1
        self.outcomes.add((bm & 0x80, ln, typ))

    def _no_answer(self, k, ctx, stage):
        if k is None: return
        cls = self._cls
        if k[0] == "data": raise Violation(f"unsupported:{cls}:answered-with-data:{stage}", dict(ctx, pid=U.PIDNAME[k[1]], payload=list(k[2])))
        if k in (("hs", U.ACK), ("hs", U.NYET)): raise Violation(f"unsupported:{cls}:acked:{stage}", ctx)
        if k[0] == "bad": raise Violation(f"unsupported:{cls}:malformed-response:{stage}", dict(ctx, seen=k))


def make(cfg, tier):
    return UnsupportedSpec(cfg, tier)
