# C30 - every CRC implementation equals the bit-serial CRC of the USB specifications.
#
# Decided by enumeration of the real elaborated functions/classes (not BFS):
#   usb2_crc5   USBTokenDetector._generate_crc_for_token           all 2^11 inputs
#   usb2_token  the real USBTokenDetector, fed over UTMI            all 2^16 (byte1, byte2) per PID: accepted <=> CRC5 ok
#   usb2_crc16  USBDataPacketCRC (rx and tx byte paths)             all 2^16 states x byte menu (thorough: all 2^24 for rx)
#   usb2_data   the real USBDataPacketReceiver (standalone)         all 2^16 check fields per payload: complete <=> CRC16 ok
#   usb3_crc5   compute_usb_crc5                                    all 2^11 inputs
#   usb3_crc16  HeaderPacketCRC                                     2^16 x 2^32 via affinity (see below)
#   usb3_crc32  DataPacketPayloadCRC word / 3B / 2B / 1B advances   2^32 x 2^32 via affinity
#
# For the domains that cannot be enumerated, the netlist cone of the register's next-state function and of every
# CRC output is first walked (harness/_gf2.affine_cone): only XOR / NOT / wiring cells, and selections steered by
# the control strobes alone.  For each fixed valuation of the strobes the function is then affine over GF(2) in
# (register, data word) and so is the reference; two affine maps that agree on the zero vector and all unit vectors
# agree everywhere.  The enumeration covers that basis, plus every pair of unit vectors, 2^16 sub-cubes, dense
# pseudo-random points and short histories from reset (a cross-check of the affinity argument by enumeration).
# If the cone walk fails the check fails closed (MACHINERY-ERROR: the full domain can no longer be claimed).
#
# The register value is treated as opaque: the oracle only relates *observed* CRC outputs,
#     O(reset) = CRC(empty message),  O(after absorbing d) = crc_step(O(before), d),
# and requires O to be a bijection of the register states, so "every CRC state" is covered.
#
# Oracle: the bit-serial shift register of USB 2.0 8.3.5 / USB 3.2 7.2.1.1.2-3, 7.2.2.x written below from
# (generator polynomial, all-ones preset, data bits in transmission order = LSb first, remainder complemented and
# sent MSb first), calibrated on the vectors recorded in /repo/tests.
import time, struct, zlib
from rtlmc.model import Model, Design, Cursor, MachineryError
from rtlmc import pysim
from harness._gf2 import Regs, Run, ConeError, affine_cone, top_bits, reach_from_reset, solve_gf2

PROPERTY = "C30"
TECHNIQUE = "exhaustive / affine-basis enumeration of the elaborated CRC functions against bit-serial reference CRCs"
LEVEL_NOTE = ("2^11 and 2^16x2^8 domains enumerated completely; 2^48 / 2^64 domains decided by enumeration of an affine "
              "basis under a structural (netlist) proof that the update functions are XOR/NOT/wiring only")


# ===================================================================================== reference (specification)
def rev(x, w):
    r = 0
    for i in range(w):
        if (x >> i) & 1: r |= 1 << (w - 1 - i)
    return r


def crc_serial(reg, value, nbits, poly, w):
    """The specifications' shift register: `reg` holds the remainder (bit w-1 = highest order term); the data bits of
    `value` enter in transmission order (bit 0 first); G(x) = x^w + poly."""
    m = (1 << w) - 1
    top = w - 1
    for i in range(nbits):
        fb = ((value >> i) & 1) ^ ((reg >> top) & 1)
        reg = (reg << 1) & m
        if fb: reg ^= poly
    return reg


def field(reg, w):
    """check field as laid out in the packet: complemented remainder, highest order bit first on the wire = bit 0"""
    return rev(reg ^ ((1 << w) - 1), w)


def unfield(f, w):
    return rev(f, w) ^ ((1 << w) - 1)


POLY = dict(usb2_crc5=(0b00101, 5), usb2_crc16=(0x8005, 16), usb3_crc5=(0b00101, 5), usb3_crc16=(0x100B, 16),
            usb3_crc32=(0x04C11DB7, 32))


def crc_of_bytes(kind, bs):
    poly, w = POLY[kind]
    r = (1 << w) - 1
    for b in bs: r = crc_serial(r, b, 8, poly, w)
    return field(r, w)


def crc5_of(kind, v11):
    poly, w = POLY[kind]
    return field(crc_serial(0x1F, v11, 11, poly, w), w)


def step_field(kind, f, value, nbits):
    """CRC field after absorbing nbits more data bits, given the field before"""
    poly, w = POLY[kind]
    return field(crc_serial(unfield(f, w), value, nbits, poly, w), w)


def calibrate():
    """the reference must reproduce every vector recorded in /repo/tests (and zlib's CRC-32)"""
    bad = []
    def chk(name, got, want):
        if got != want: bad.append(f"{name}: reference gives {got:#x}, recorded {want:#x}")
    # tests/test_usb2_packet.py: OUT to address 0x3a endpoint 0xa -> bytes 0x3a, 0b00111_101
    chk("usb2 crc5 token 0x3a/0xa", crc5_of("usb2_crc5", 0x3A | (0xA << 7)), 0b00111)
    chk("usb2 crc5 token 0/0 (SETUP 2D 00 10)", crc5_of("usb2_crc5", 0), 0b00010)
    chk("usb2 crc16 captured sample", crc_of_bytes("usb2_crc16", [0, 5, 8, 0, 0, 0, 0, 0]), 0xBCEB)
    chk("usb2 crc16 packet_rx", crc_of_bytes("usb2_crc16", [0x23, 0x45, 0x67, 0x89]), 0x1C0E)
    chk("usb2 crc16 zlp", crc_of_bytes("usb2_crc16", []), 0x0000)
    # tests/test_usb3_receiver.py, test_usb3_data.py: recorded header packets (dw0, dw1, dw2, crc16 | lcw << 16)
    for dws, last in (((0x00000280, 0x00010004, 0x00000000), 0x10001845), ((0x32000008, 0x00010000, 0x08000000), 0xE801A822),
                      ((0x34000008, 0x00020000, 0x08000000), 0xD005A242), ((0x00000008, 0x00088000, 0x08000000), 0xA8023E0F)):
        chk("usb3 crc16 header", crc_of_bytes("usb3_crc16", b"".join(struct.pack("<I", d) for d in dws)), last & 0xFFFF)
        lcw = last >> 16
        chk("usb3 crc5 link control word", crc5_of("usb3_crc5", lcw & 0x7FF), lcw >> 11)
    # tests/test_usb3_data.py payloads, tests/test_usb3_crc.py
    vec = [(bytes([0xFF]), 0xFF000000), (bytes([0xAA, 0xBB]), 0x49822C98), (struct.pack("<II", 0x001E0500, 0), 0x0EC69325),
           # test_aligned_crc reads the output one cycle after the *first* word was absorbed
           (struct.pack("<I", 0x02000112), 0x34984B13),
           (struct.pack("<IIII", 0x03000112, 0x09000000, 0x520013FE, 0x02010100) + bytes([0x03, 0x01]), 0x540AA487)]
    for bs, want in vec:
        chk("usb3 crc32", crc_of_bytes("usb3_crc32", bs), want)
        chk("usb3 crc32 vs zlib", crc_of_bytes("usb3_crc32", bs), zlib.crc32(bs))
    if bad: raise MachineryError("reference CRC does not reproduce the recorded vectors: " + "; ".join(bad))


# ===================================================================================== DUT wrappers
def build_crc5(which):
    from amaranth import Elaboratable, Module, Signal

    class Crc5Wrapper(Elaboratable):
        """the real function applied to an 11-bit input; the registered copy only gives the simulator a clock"""
        def __init__(self, fn):
            self.fn = fn
            self.bits, self.crc, self.crc_q = Signal(11), Signal(5), Signal(5)
        def elaborate(self, platform):
            m = Module()
            m.d.comb += self.crc.eq(self.fn(self.bits))
            m.d.sync += self.crc_q.eq(self.crc)
            return m

    if which == "usb2_crc5":
        from luna.gateware.usb.usb2.packet import USBTokenDetector
        fn = USBTokenDetector._generate_crc_for_token
    else:
        from luna.gateware.usb.usb3.link.crc import compute_usb_crc5 as fn
    d = Crc5Wrapper(fn)
    return Design(d, dict(bits=d.bits), dict(crc=d.crc, crc_q=d.crc_q))


def build_usb2_crc16():
    from luna.gateware.usb.usb2.packet import USBDataPacketCRC, DataCRCInterface
    d = USBDataPacketCRC()
    i = DataCRCInterface()
    d.add_interface(i)
    d._iface = i
    return Design(d, dict(start=i.start, rx_data=d.rx_data, rx_valid=d.rx_valid, tx_data=d.tx_data, tx_valid=d.tx_valid),
                  dict(crc=i.crc))


def build_usb3_crc16():
    from luna.gateware.usb.usb3.link.crc import HeaderPacketCRC
    d = HeaderPacketCRC()
    return Design(d, dict(clear=d.clear, data_input=d.data_input, advance_crc=d.advance_crc), dict(crc=d.crc))


def build_usb3_crc32():
    from luna.gateware.usb.usb3.link.crc import DataPacketPayloadCRC
    d = DataPacketPayloadCRC()
    return Design(d, dict(clear=d.clear, data_input=d.data_input, advance_word=d.advance_word, advance_3B=d.advance_3B,
                          advance_2B=d.advance_2B, advance_1B=d.advance_1B),
                  dict(crc=d.crc, next_crc_3B=d.next_crc_3B, next_crc_2B=d.next_crc_2B, next_crc_1B=d.next_crc_1B))


def build_token():
    from luna.gateware.usb.usb2.packet import USBTokenDetector
    from luna.gateware.interface.utmi import UTMIInterface
    u = UTMIInterface()
    d = USBTokenDetector(utmi=u, filter_by_address=False)
    t = d.interface
    return Design(d, dict(rx_data=u.rx_data, rx_valid=u.rx_valid, rx_active=u.rx_active, speed=d.speed),
                  dict(new_token=t.new_token, new_frame=t.new_frame, pid=t.pid, address=t.address, endpoint=t.endpoint,
                       frame=t.frame), defaults=dict(speed=1))


# a register CRC under test: how to drive one update, and what the specification says it absorbs
class RegCRC:
    #            kind          builder           width  clear    modes: name -> (strobe, data input, data bits absorbed, extra output showing the value early)
    TABLE = dict(
        usb2_crc16=(build_usb2_crc16, 16, "start", dict(rx=("rx_valid", "rx_data", 8, None), tx=("tx_valid", "tx_data", 8, None))),
        usb3_crc16=(build_usb3_crc16, 16, "clear", dict(word=("advance_crc", "data_input", 32, None))),
        usb3_crc32=(build_usb3_crc32, 32, "clear", dict(word=("advance_word", "data_input", 32, None),
                                                        b3=("advance_3B", "data_input", 24, "next_crc_3B"),
                                                        b2=("advance_2B", "data_input", 16, "next_crc_2B"),
                                                        b1=("advance_1B", "data_input", 8, "next_crc_1B"))))

    def __init__(self, kind):
        self.kind = kind
        self.build, self.w, self.clear, self.modes = self.TABLE[kind]
        self.model = Model(self.build)
        self.regs = Regs(self.model)
        self.ff = self.regs.only(self.w)
        self.base = self.model.reset_state
        self.primary = next(iter(self.modes))
        self.in_width = {n: wd for n, wd in zip(self.model.in_names, self.model.in_widths)}

    def st(self, s):
        return self.regs.put(self.base, self.ff, s)

    def inputs(self, mode, d):
        strobe, port, nbits, _ = self.modes[mode]
        return {strobe: 1, port: d}

    def out(self, s):
        return self.model.peek_vec(self.st(s), tuple(self.model.default_vec))

    def step(self, s, **kw):
        st, o = self.model.step_vec(self.st(s), self.model.vec(**kw))
        return self.regs.get(st, self.ff), o

    # ---- structural argument
    def cone(self, run):
        """raises ConeError unless next-state and all outputs are XOR/NOT/wiring of (register, data inputs) with
        selections by strobes only; records what was established"""
        m = self.model
        d = m.design
        data_bits = set()
        for strobe, port, nbits, _ in self.modes.values():
            data_bits |= top_bits(m, d.inputs[port])
        ffcell = m.comp.cells[self.ff]
        info = affine_cone(m, list(ffcell.data), data_bits, {self.ff})
        outs = {}
        for name, sig in d.observes.items():
            outs[name] = affine_cone(m, list(m.comp.nl.signals[sig]), data_bits, {self.ff})
        # the short advances must not look at the bytes they do not absorb
        for mode, (strobe, port, nbits, early) in self.modes.items():
            if early:
                allowed = top_bits(m, d.inputs[port], 0, nbits)
                extra = outs[early]["data_support"] - allowed
                if extra:
                    raise ConeError(f"{early} depends on data bits beyond the {nbits} it absorbs")
        run.notes.append(f"{self.kind}: netlist cone of the {self.w}-bit register and of {sorted(outs)} is XOR/NOT/wiring only "
                         f"({info['cells']}); selections depend on strobes only -> affine over GF(2) per strobe valuation")
        return info


# ===================================================================================== per-point oracle
def check_point(dut, mode, s, d, junk=0):
    """one evaluation: register state s (poked), one update in `mode` with data d.  Returns (failures, s_next, O_before)."""
    kind = dut.kind
    strobe, port, nbits, early = dut.modes[mode]
    w = dut.w
    dmask = (1 << nbits) - 1
    word = (d & dmask) | (junk & ~dmask & ((1 << dut.in_width[port]) - 1))     # bytes not absorbed carry junk
    s2, o = dut.step(s, **{strobe: 1, port: word})
    o_before = o.crc
    o_after = dut.out(s2).crc
    want = step_field(kind, o_before, d & dmask, nbits)
    fails = []
    if o_after != want:
        fails.append((f"{kind}:update-{mode}", dict(crc_before=hex(o_before), data=hex(word), bits_absorbed=nbits,
                                                    crc_after=hex(o_after), expected=hex(want))))
    if early:
        got = getattr(o, early)
        if got != want:
            fails.append((f"{kind}:{early}", dict(crc_before=hex(o_before), data=hex(word), got=hex(got), expected=hex(want))))
    return fails, s2, o_before


def check_control(dut, s, d):
    """clear restores the preset, no strobe holds the value"""
    w = dut.w
    fails = []
    o0 = dut.out(s).crc
    s2, _ = dut.step(s, **{dut.clear: 1})
    oc = dut.out(s2).crc
    if oc != field((1 << w) - 1, w):
        fails.append((f"{dut.kind}:clear", dict(crc_before=hex(o0), crc_after_clear=hex(oc), expected=hex(field((1 << w) - 1, w)))))
    port = dut.modes[dut.primary][1]
    s3, _ = dut.step(s, **{port: d})
    oh = dut.out(s3).crc
    if oh != o0:
        fails.append((f"{dut.kind}:hold", dict(crc_before=hex(o0), crc_after_idle_cycle=hex(oh), data_lines=hex(d))))
    return fails


def trace_from_reset(dut, mode, s, d, junk=0):
    """turn (poked state s, one update) into an input sequence from reset: (segment = list of step() keyword dicts,
    words that reach s) or (None, None)"""
    pm = dut.primary
    strobe_p, port_p, nb_p, _ = dut.modes[pm]
    init = dut.regs.get(dut.base, dut.ff)
    words = reach_from_reset(dut.w, nb_p, lambda a, b: dut.step(a, **{strobe_p: 1, port_p: b})[0], init, s)
    if words is None: return None, None
    seg = [{strobe_p: 1, port_p: wd} for wd in words]
    cur = Cursor(dut.model)
    for kw in seg: cur.step(**kw)
    if dut.regs.get(cur.state, dut.ff) != s: return None, None
    if mode is not None:
        strobe, port, nbits, _ = dut.modes[mode]
        dmask = (1 << nbits) - 1
        seg.append({strobe: 1, port: (d & dmask) | (junk & ~dmask & ((1 << dut.in_width[port]) - 1))})
    seg.append({})
    return seg, words


def replay_segments(dut, segments):
    """one amaranth.sim run over all segments; each segment starts from the preset (a clear cycle separates them; the
    first one starts from reset).  The simulator is built once because elaborating the wide XOR trees is slow there."""
    log = []
    cur = Cursor(dut.model, None, log)
    for seg in segments:
        for kw in seg: cur.step(**kw)
        cur.step(**{dut.clear: 1})
    return pysim.replay(dut.model, log)


# ===================================================================================== enumeration plans
def lcg(n, bits, seed=0x9E3779B97F4A7C15):
    x = seed
    for _ in range(n):
        v = 0
        for _ in range((bits + 63) // 64):
            x = (x * 6364136223846793005 + 1442695040888963407) & 0xFFFFFFFFFFFFFFFF
            y = x ^ (x >> 29)
            v = (v << 64) | ((y * 0xBF58476D1CE4E5B9) & 0xFFFFFFFFFFFFFFFF)
        yield v & ((1 << bits) - 1)


def affine_points(n, tier):
    """the decisive basis + cross-checks, as integers over n = (register bits + data bits), register in the low bits"""
    yield 0
    for i in range(n): yield 1 << i
    full = (1 << n) - 1
    yield full
    for i in range(n): yield full ^ (1 << i)
    for i in range(n):
        for j in range(i + 1, n): yield (1 << i) | (1 << j)
    stride = 16 if tier == "quick" else 8
    for off in range(0, n - 15, stride):
        for v in range(1, 1 << 16): yield v << off
    if (n - 16) % stride:                       # last window flush with the top
        for v in range(1, 1 << 16): yield v << (n - 16)
    yield from lcg(20000 if tier == "quick" else 300000, n)


def run_regcrc(cfg, tier, seed):
    kind, mode = cfg["dut"], cfg["mode"]
    calibrate()
    dut = RegCRC(kind)
    run = Run(cfg, dut.model)
    w = dut.w
    nbits = dut.modes[mode][2]
    cone_err = None
    try:
        dut.cone(run)
    except ConeError as e:
        cone_err = str(e)

    def visit(s, d, junk=0):
        fails, s2, ob = check_point(dut, mode, s, d, junk)
        run.evals += 1
        run.states.add(s)
        run.cover["update"] += 1
        for rule, det in fails:
            run.violation(rule, det, [dict(dut=kind, mode=mode, state=s, data=d, junk=junk)])
        return s2, ob

    # reset value and bijection of the output map
    o_reset = dut.out(dut.regs.get(dut.base, dut.ff)).crc
    if o_reset != field((1 << w) - 1, w):
        run.violation(f"{kind}:initial", dict(crc_at_reset=hex(o_reset), expected=hex(field((1 << w) - 1, w))), [dict(dut=kind, mode=None, state=dut.regs.get(dut.base, dut.ff), data=0, junk=0)])
    o0 = dut.out(0).crc
    cols = [dut.out(1 << i).crc ^ o0 for i in range(w)]
    rank_ok = all(solve_gf2(cols[:i] + cols[i + 1:], cols[i], w) is None for i in range(w)) if w > 16 else None

    part = cfg.get("part", "affine")
    if part == "affine":
        n = w + nbits
        for v in affine_points(n, tier):
            s, d = v & ((1 << w) - 1), v >> w
            visit(s, d, junk=0 if (v & 1) else 0xFFFFFFFF)
        # control strobes on the state basis and a sample of dense states
        cs = [0, (1 << w) - 1] + [1 << i for i in range(w)] + list(lcg(2000, w, 7))
        for s in cs:
            for rule, det in check_control(dut, s, 0xFFFFFFFF & ((1 << dut.in_width[dut.modes[dut.primary][1]]) - 1)):
                run.violation(rule, det, [dict(dut=kind, mode="control", state=s, data=0, junk=0)])
            run.evals += 2; run.cover["clear"] += 1; run.cover["hold"] += 1
        if w > 16 and not rank_ok:
            run.violation(f"{kind}:output-not-bijective", dict(note="two register states show the same CRC value"), [dict(dut=kind, mode=None, state=0, data=0, junk=0)])
    if w == 16 and part in ("affine", "states"):
        # all 2^16 register states: output map is a bijection; clear / hold / a byte menu from every state
        lo, hi = cfg.get("range", [0, 1 << 16])
        seen = {}
        outtab = [dut.out(s).crc for s in range(1 << 16)]
        if len(set(outtab)) != 1 << 16:
            run.violation(f"{kind}:output-not-bijective", dict(distinct_outputs=len(set(outtab))), [dict(dut=kind, mode=None, state=0, data=0, junk=0)])
        menu = cfg.get("menu")
        if menu == "all": menu = list(range(256))
        if menu is None:
            if nbits == 8:
                menu = [0] + [1 << i for i in range(8)] if mode == "rx" else [0, 1, 0x80, 0xFF]
                if tier != "quick": menu = sorted(set(menu + [0xFF, 0xA5, 0x5A, 0x0F] + [1 << i for i in range(8)]))
            else:
                menu = [0, 0xFFFFFFFF, 0x02000112] + ([1, 1 << 31] if tier != "quick" else [])
        strobe, port, _, _ = dut.modes[mode]
        poly, _ = POLY[kind]
        for s in range(lo, hi):
            ob = outtab[s]
            r0 = unfield(ob, w)
            for d in menu:
                s2, _o = dut.step(s, **{strobe: 1, port: d})
                want = field(crc_serial(r0, d, nbits, poly, w), w)
                if outtab[s2] != want:
                    run.violation(f"{kind}:update-{mode}", dict(crc_before=hex(ob), data=hex(d), bits_absorbed=nbits, crc_after=hex(outtab[s2]), expected=hex(want)),
                                  [dict(dut=kind, mode=mode, state=s, data=d, junk=0)])
            run.evals += len(menu)
            run.states.add(s)
            if part == "affine":
                for rule, det in check_control(dut, s, 0xFF):
                    run.violation(rule, det, [dict(dut=kind, mode="control", state=s, data=0, junk=0)])
                run.evals += 2
        run.cover["update"] += (hi - lo) * len(menu)
        run.cover["all-states"] += 1
    # short histories from reset over a 4-word alphabet (all of them checked; a selection replayed in amaranth.sim)
    alpha = [0, (1 << nbits) - 1, 0x02000112 & ((1 << nbits) - 1), 0xA5C3F00F & ((1 << nbits) - 1)]
    strobe, port, _, early = dut.modes[mode]
    seqs = [[a] for a in alpha] + [[a, b] for a in alpha for b in alpha] + [[a, b, c] for a in alpha for b in alpha for c in alpha]
    segments = []
    for q in seqs:
        cur = Cursor(dut.model)
        f = cur.peek().crc
        for wd in q:
            o = cur.step(**{strobe: 1, port: wd})
            f = step_field(kind, f, wd, nbits)
            run.evals += 1
            if early and getattr(o, early) != f:
                run.violation(f"{kind}:{early}", dict(history=[hex(x) for x in q], got=hex(getattr(o, early)), expected=hex(f)), [dict(dut=kind, mode=mode, history=q)])
            got = cur.peek().crc
            run.states.add(dut.regs.get(cur.state, dut.ff))
            if got != f:
                run.violation(f"{kind}:update-{mode}", dict(history=[hex(x) for x in q], crc_after=hex(got), expected=hex(f)), [dict(dut=kind, mode=mode, history=q)])
                break
    run.cover["history"] += len(seqs)
    for k in range(6):
        q = seqs[(seed * 7 + k * 23 + 5) % len(seqs)]
        segments.append([{strobe: 1, port: wd} for wd in q] + [{}])
        run.samples.append([{strobe: 1, port: hex(x)} for x in q])
    # poked states are real states: a sample of evaluated points re-run from reset and replayed in amaranth.sim
    if part == "affine":
        pts = list(lcg(4, w + nbits, 11 + seed)) + [1 << 3, 1 << (w + 2)]
        for v in pts:
            s, d = v & ((1 << w) - 1), v >> w
            seg, words = trace_from_reset(dut, mode, s, d)
            if seg is None:
                run.notes.append(f"state {s:#x} not reached from reset by the linear solver (sample skipped)")
                continue
            cur = Cursor(dut.model)
            for kw in seg[:len(words)]: cur.step(**kw)
            if cur.state != dut.st(s) or cur.peek() != dut.out(s):
                raise MachineryError("poked register state and the same state reached from reset differ")
            segments.append(seg)
            run.cover["poke==reached"] += 1
    # attach a from-reset trace to each violation that has a poked state
    for v in run.viol.values():
        p = v["path"][0]
        if "state" in p and p.get("mode") not in (None, "control"):
            seg, words = trace_from_reset(dut, p["mode"], p["state"], p["data"], p.get("junk", 0))
            if seg is not None:
                pm = dut.modes[dut.primary]
                p["from_reset"] = [{pm[0]: 1, pm[1]: hex(x)} for x in words]
                segments.append(seg)
        elif "history" in p:
            st_, po_ = dut.modes[p["mode"]][:2]
            segments.append([{st_: 1, po_: wd} for wd in p["history"]] + [{}])
    run.cycles += replay_segments(dut, segments)
    run.traces += len(segments)
    run.notes.append("amaranth.sim replay: the sampled histories are run in one simulation, each starting from the preset "
                     "(separated by a clear cycle; the first starts from reset)")
    if cone_err and not run.viol:
        raise MachineryError(f"{kind}: cannot claim the full 2^{w + nbits} domain, the update function is no longer provably "
                             f"affine over GF(2): {cone_err}")
    goals = ["update", "history"] + (["clear", "hold", "poke==reached"] if part == "affine" else [])
    return run.result(goals=goals, assumptions=ASSUME_REG)


ASSUME_REG = ["at most one of the clear / advance strobes of a CRC unit is asserted in a cycle (combinations are unspecified)",
              "for the 1/2/3-byte advances only the bytes being absorbed are specified; the remaining data lines carry junk"]


def run_crc5(cfg, tier, seed):
    kind = cfg["dut"]
    calibrate()
    model = Model(lambda: build_crc5(kind))
    run = Run(cfg, model)
    log = []
    cur = Cursor(model, None, log)
    prev = None
    for v in range(1 << 11):
        o = cur.step(bits=v)
        run.evals += 1
        want = crc5_of(kind, v)
        run.outcomes.add(o.crc)
        if o.crc != want:
            run.violation(f"{kind}:value", dict(protected_bits=f"{v:#05x}", crc5=f"{o.crc:05b}", expected=f"{want:05b}"), [dict(dut=kind, bits=v)])
        if prev is not None and o.crc_q != prev:
            raise MachineryError("registered copy differs from the combinational value")
        prev = o.crc
    run.states.add(0)
    run.cover["all-2^11"] += 1
    run.validate(model, log)
    run.samples.append([dict(bits=hex(x)) for x in (0, 0x53A)])
    return run.result(goals=["all-2^11"], assumptions=["the 11 protected bits are numbered in transmission order (bit 0 first); the 5-bit result is the check field with its first transmitted bit at bit 0"])


# ---- the real token detector: accepted exactly when the CRC5 field is right
ACCEPT_WINDOW = 16       # cycles after the end of a packet in which the acceptance strobe may come (no latency demanded)

PIDS = dict(OUT=0xE1, IN=0x69, SETUP=0x2D, SOF=0xA5, PING=0xB4)


def token_case(model, st_after_pid, pidname, b1, b2, log=None):
    cur = Cursor(model, st_after_pid, log)
    cur.step(rx_active=1, rx_valid=1, rx_data=b1)
    cur.step(rx_active=1, rx_valid=1, rx_data=b2)
    cur.step(rx_active=1)
    seen = None
    for _ in range(ACCEPT_WINDOW):          # no latency is demanded: generous window, first strobe counts
        o = cur.step()
        if o.new_token or o.new_frame:
            seen = o; break
    v11 = b1 | ((b2 & 7) << 8)
    good = crc5_of("usb2_crc5", v11) == (b2 >> 3)
    if seen is None:
        return ("usb2-token:rejected-good-crc5", dict(pid=pidname, bytes=[hex(b1), hex(b2)])) if good else None, False
    if not good:
        return ("usb2-token:accepted-bad-crc5", dict(pid=pidname, bytes=[hex(b1), hex(b2)], expected_crc5=f"{crc5_of('usb2_crc5', v11):05b}")), True
    if pidname == "SOF":
        ok = seen.new_frame and not seen.new_token and seen.frame == v11
    else:
        ok = seen.new_token and not seen.new_frame and seen.address == (v11 & 0x7F) and seen.endpoint == (v11 >> 7) and seen.pid == (PIDS[pidname] & 0xF)
    if not ok:
        return ("usb2-token:fields", dict(pid=pidname, bytes=[hex(b1), hex(b2)], seen=dict(seen._asdict()))), True
    return None, True


def token_prefix(model, pidname, log=None):
    cur = Cursor(model, None, log)
    cur.step(); cur.step()
    cur.step(rx_active=1)
    cur.step(rx_active=1, rx_valid=1, rx_data=PIDS[pidname])
    return cur


def run_token(cfg, tier, seed):
    calibrate()
    pidname = cfg["pid"]
    model = Model(build_token)
    run = Run(cfg, model)
    pre = token_prefix(model, pidname)
    for b2 in range(256):
        for b1 in range(256):
            fail, acc = token_case(model, pre.state, pidname, b1, b2)
            run.evals += 1
            run.cover["accepted" if acc else "rejected"] += 1
            if fail: run.violation(fail[0], fail[1], [dict(dut="usb2_token", pid=pidname, b1=b1, b2=b2)])
    run.states.add(pre.state)
    picks = [(0x3A, 0x3D), (0x3A, 0x3C), ((seed * 37 + 1) & 0xFF, (seed * 91 + 7) & 0xFF), (0, 0x10)]
    picks += [tuple(v["path"][0][k] for k in ("b1", "b2")) for v in run.viol.values()]
    for b1, b2 in picks:
        log = []
        c = token_prefix(model, pidname, log)
        token_case(model, c.state, pidname, b1, b2, log)
        run.validate(model, log)
    run.samples.append([dict(pid=pidname, b1="0x3a", b2="0x3d")])
    return run.result(goals=["accepted", "rejected"], depth=9,
                      assumptions=["token packets arrive over UTMI as PID, two bytes, then rx_active falls; one byte per cycle, full speed",
                                   "acceptance = new_token / new_frame strobe within 16 cycles after the end of the packet"])


# ---- the real data-packet receiver: packet_complete exactly when the CRC16 field is right
def build_datarx():
    from luna.gateware.usb.usb2.packet import USBDataPacketReceiver
    from luna.gateware.interface.utmi import UTMIInterface
    u = UTMIInterface()
    d = USBDataPacketReceiver(utmi=u, standalone=True)
    return Design(d, dict(rx_data=u.rx_data, rx_valid=u.rx_valid, rx_active=u.rx_active),
                  dict(packet_complete=d.packet_complete, crc_mismatch=d.crc_mismatch))


PAYLOADS = dict(zlp=[], one=[0xA5], two=[0x12, 0xEF], sample=[0x00, 0x05, 0x08, 0x00, 0x00, 0x00, 0x00, 0x00])


def datarx_prefix(model, payload, log=None):
    cur = Cursor(model, None, log)
    cur.step(); cur.step()
    cur.step(rx_active=1)
    cur.step(rx_active=1, rx_valid=1, rx_data=0xC3)            # DATA0
    for b in payload: cur.step(rx_active=1, rx_valid=1, rx_data=b)
    return cur


def datarx_case(model, st, payload, lo, hi, log=None):
    cur = Cursor(model, st, log)
    cur.step(rx_active=1, rx_valid=1, rx_data=lo)
    cur.step(rx_active=1, rx_valid=1, rx_data=hi)
    cur.step(rx_active=1)
    complete = mismatch = False
    for _ in range(ACCEPT_WINDOW):
        o = cur.step()
        complete |= bool(o.packet_complete); mismatch |= bool(o.crc_mismatch)
        if complete: break
    good = crc_of_bytes("usb2_crc16", payload) == (lo | (hi << 8))
    det = dict(payload=[hex(b) for b in payload], crc_bytes=[hex(lo), hex(hi)], expected_crc16=hex(crc_of_bytes("usb2_crc16", payload)),
               packet_complete=complete, crc_mismatch=mismatch)
    if complete and not good: return ("usb2-data:accepted-bad-crc16", det), complete
    if good and not complete: return ("usb2-data:rejected-good-crc16", det), complete
    return None, complete


def run_datarx(cfg, tier, seed):
    calibrate()
    payload = PAYLOADS[cfg["payload"]]
    model = Model(build_datarx)
    run = Run(cfg, model)
    pre = datarx_prefix(model, payload)
    for hi in range(256):
        for lo in range(256):
            fail, acc = datarx_case(model, pre.state, payload, lo, hi)
            run.evals += 1
            run.cover["accepted" if acc else "rejected"] += 1
            if fail: run.violation(fail[0], fail[1], [dict(dut="usb2_data", payload=cfg["payload"], lo=lo, hi=hi)])
    run.states.add(pre.state)
    good = crc_of_bytes("usb2_crc16", payload)
    picks = [(good & 0xFF, good >> 8), (good >> 8, good & 0xFF), ((seed * 37 + 1) & 0xFF, (seed * 91 + 7) & 0xFF), ((good ^ 1) & 0xFF, good >> 8)]
    picks += [(v["path"][0]["lo"], v["path"][0]["hi"]) for v in run.viol.values()]
    for lo, hi in picks:
        log = []
        c = datarx_prefix(model, payload, log)
        datarx_case(model, c.state, payload, lo, hi, log)
        run.validate(model, log)
    run.samples.append([dict(payload=cfg["payload"], crc=hex(good))])
    return run.result(goals=["accepted", "rejected"], depth=len(payload) + 11,
                      assumptions=["data packets arrive over UTMI as PID, payload, two CRC bytes (low byte first), then rx_active falls; one byte per cycle",
                                   "acceptance = packet_complete strobe within 16 cycles after the end of the packet"])


# ===================================================================================== engine interface
def configs(tier):
    c = [dict(dut="usb2_crc5"), dict(dut="usb3_crc5"),
         dict(dut="usb2_token", pid="OUT"), dict(dut="usb2_token", pid="SOF"),
         dict(dut="usb2_data", payload="zlp"), dict(dut="usb2_data", payload="sample"),
         dict(dut="usb2_crc16", mode="rx"), dict(dut="usb2_crc16", mode="tx"),
         dict(dut="usb3_crc16", mode="word"),
         dict(dut="usb3_crc32", mode="word"), dict(dut="usb3_crc32", mode="b3"), dict(dut="usb3_crc32", mode="b2"), dict(dut="usb3_crc32", mode="b1")]
    if tier == "thorough":
        c += [dict(dut="usb2_token", pid=p) for p in ("IN", "SETUP", "PING")]
        c += [dict(dut="usb2_data", payload=p) for p in ("one", "two")]
        # the complete 2^16 x 2^8 table of the USB2 CRC16 update (receive byte path; the transmit path is a second
        # instance of the same expression and is decided by cone + basis + all states x 16 bytes above)
        for k in range(8):
            c.append(dict(dut="usb2_crc16", mode="rx", part="states", range=[k * 8192, (k + 1) * 8192], menu="all"))
    return c


def run_config(cfg, tier, seed):
    if cfg["dut"] in ("usb2_crc5", "usb3_crc5"): return run_crc5(cfg, tier, seed)
    if cfg["dut"] == "usb2_token": return run_token(cfg, tier, seed)
    if cfg["dut"] == "usb2_data": return run_datarx(cfg, tier, seed)
    return run_regcrc(cfg, tier, seed)


def replay(cfg, tier, payload):
    calibrate()
    p = payload["path"][0]
    kind = cfg["dut"]
    if kind in ("usb2_crc5", "usb3_crc5"):
        model = Model(lambda: build_crc5(kind))
        log = []
        o = Cursor(model, None, log).step(bits=p["bits"])
        n = pysim.replay(model, log)
        want = crc5_of(kind, p["bits"])
        msg = f"bits={p['bits']:#05x} crc5={o.crc:05b} expected={want:05b} [{n} cycle(s) identical in amaranth.sim]"
        return o.crc == want, msg
    if kind == "usb2_token":
        model = Model(build_token)
        log = []
        c = token_prefix(model, p["pid"], log)
        fail, acc = token_case(model, c.state, p["pid"], p["b1"], p["b2"], log)
        n = pysim.replay(model, log)
        return fail is None, f"{fail or 'token handled as specified'} [{n} cycles identical in amaranth.sim]"
    if kind == "usb2_data":
        model = Model(build_datarx)
        log = []
        c = datarx_prefix(model, PAYLOADS[p["payload"]], log)
        fail, acc = datarx_case(model, c.state, PAYLOADS[p["payload"]], p["lo"], p["hi"], log)
        n = pysim.replay(model, log)
        return fail is None, f"{fail or 'data packet handled as specified'} [{n} cycles identical in amaranth.sim]"
    dut = RegCRC(kind)
    if "history" in p:
        strobe, port, nbits, early = dut.modes[p["mode"]]
        log = []
        cur = Cursor(dut.model, None, log)
        f = cur.peek().crc
        bad = None
        for wd in p["history"]:
            o = cur.step(**{strobe: 1, port: wd})
            f = step_field(kind, f, wd, nbits)
            if early and getattr(o, early) != f: bad = f"{early}={getattr(o, early):#x} expected {f:#x}"
            if cur.peek().crc != f: bad = f"crc={cur.peek().crc:#x} expected {f:#x}"
            if bad: break
        cur.step()
        n = pysim.replay(dut.model, log)
        return bad is None, f"{bad or 'history matches the reference'} [{n} cycles identical in amaranth.sim]"
    if p.get("mode") == "control":
        fails = check_control(dut, p["state"], 0xFF)
        return not fails, f"{fails or 'clear/hold as specified'}"
    if p.get("mode") is None:
        w = dut.w
        o = dut.out(dut.regs.get(dut.base, dut.ff)).crc
        if o != field((1 << w) - 1, w):
            return False, f"CRC output at reset is {o:#x}, the CRC of the empty message is {field((1 << w) - 1, w):#x}"
        o0 = dut.out(0).crc
        cols = [dut.out(1 << i).crc ^ o0 for i in range(w)]
        dep = [i for i in range(w) if solve_gf2(cols[:i] + cols[i + 1:], cols[i], w) is not None]
        if dep: return False, f"the CRC output is not a bijection of the register (dependent state bits {dep})"
        return True, "reset value and output map as specified"
    fails, s2, ob = check_point(dut, p["mode"], p["state"], p["data"], p.get("junk", 0))
    msg = f"{fails or 'update matches the reference'}"
    seg, words = trace_from_reset(dut, p["mode"], p["state"], p["data"], p.get("junk", 0))
    if seg is not None:
        n = replay_segments(dut, [seg])
        msg += f" [state reached from reset by {[hex(x) for x in words]}; {n} cycles identical in amaranth.sim]"
    return not fails, msg
