# C03 - USB2 transmitted data packets are correctly framed with a valid CRC16.   Per-cycle harness, free tx_ready.
# DUTs: (a) USBDataPacketGenerator(standalone=True) (private CRC16 unit); (b) the generator as wired inside USBDevice
# (shared CRC16 unit advancing on accepted transmit bytes, transmit multiplexer), driven through the transmit half of a
# non-driving probe endpoint's EndpointInterface (tx stream + tx_pid_toggle are free inputs there) and observed on the
# UTMI transmit wires; optionally after an IN token addressed to the device.
#
# Environment, one action = one clock cycle unless stated (r = tx_ready of that cycle, free in every cycle):
#   ("idle", r)                     nothing requested (at most IDLE_MAX in a row)
#   ("req", pid, r, byte, last)     start a packet: stream valid & first with the first payload byte (last=1: single byte)
#   ("zlp", pid, r)                 one-cycle pulse valid & last without first (zero-length packet request)
#   ("c", r)                        next cycle of a running packet, producer keeps presenting what it presents
#   ("c", r, byte, last)            ... the previous byte was consumed (stream.ready seen): present the next one
#   ("token", n)                    device only, macro step: IN token for (address 0, endpoint 1) + n idle cycles
# The producer follows the USBInStreamInterface contract: valid is held from `first` to `last` inclusively, the presented
# byte and its flags only change after a cycle with ready; data_pid / tx_pid_toggle is constant during a packet; a new
# request is made only while the generator is idle.  Payloads come from request *families* (prefix trees of payloads
# over a small alphabet incl. 0x00 and 0xFF); cfg["fams"] gives the family of the 1st, 2nd packet of a run.
# Stall cycles (tx_ready=0) do not change the DUT state, so stall patterns of any length are covered at closure.
#
# Oracle (from the statement; CRC16 and PID bytes from rtlmc.usbref): the bytes accepted on the wire (tx_valid & tx_ready)
# are exactly  PID(data_pid), payload..., crc16 low, crc16 high;  tx_valid rises within LAT cycles of the request, stays
# high until the last byte is accepted and is low in the cycle after (UTMI: a packet is one contiguous tx_valid period);
# when the packet is over every payload byte was consumed (valid & ready) exactly once; nothing is transmitted unrequested.
from itertools import product
from rtlmc.model import Design, Violation
from rtlmc.explore import Spec
from rtlmc import usbref as U

PROPERTY = "C03"
TECHNIQUE = "per-cycle explicit-state exploration of USBDataPacketGenerator (standalone and inside USBDevice) with tx_ready free in every cycle"
LEVEL_TEXT = ("All runs of two data-packet requests from the request families (all four data PIDs, ZLP requests, payloads of 1..8 bytes over "
              "small alphabets) under every tx_ready pattern (free choice in every cycle, closure over stall lengths) are enumerated cycle by cycle "
              "against the real netlist; the accepted wire bytes are compared with the reference encoding.")

LAT = 3                  # admitted request -> tx_valid latency
IDLE_MAX = 2
K_STATE = 0b10
PIDBYTE = [U.pid_byte(p) for p in (U.DATA0, U.DATA1, U.DATA2, U.MDATA)]
ZLP_GARBAGE = 0x5A       # payload lines during a ZLP request pulse (must not matter)


def _payloads(dvals, maxlen, extra=()):
    out = [()]
    for n in range(1, maxlen + 1):
        out += list(product(dvals, repeat=n))
    return out + [tuple(e) for e in extra]


def family(name):
    """-> list of requests (pid 0..3, payload tuple); payload () = zero-length packet request"""
    if name == "full":
        return [(p, pl) for p in range(4) for pl in _payloads((0x00, 0xFF, 0xA5), 3, [(0xA5, 0x3C, 0x00, 0xFF)])]
    if name == "wide":
        return ([(p, pl) for p in (0, 1) for pl in _payloads((0x00, 0xFF, 0xA5, 0x3C), 4, [(0xA5, 0x3C, 0x00, 0xFF, 0x01, 0x80)])] +
                [(p, pl) for p in (2, 3) for pl in _payloads((0x00, 0xFF, 0xA5), 3, [(1, 2, 3, 4, 5)])])
    if name == "huge":
        return [(p, pl) for p in range(4) for pl in _payloads((0x00, 0xFF, 0xA5, 0x3C), 4, [(0xA5, 0x3C, 0x00, 0xFF, 0x01, 0x80), (8, 7, 6, 5, 4, 3, 2, 1)])]
    if name == "long":
        return [(p, pl) for p in (0, 1) for pl in _payloads((0x00, 0xFF), 7)] + [(2, (0x80,) * 8), (3, ())]
    if name == "mid":
        return ([(p, pl) for p in (0, 1) for pl in _payloads((0xA5, 0x00), 2)] + [(2, ()), (3, (0xFF,)), (3, (0x3C, 0xA5, 0xFF))])
    if name == "rep":
        return [(0, ()), (1, (0xA5,)), (0, (0x3C, 0xFF)), (3, (0x00, 0x00, 0x00))]
    raise KeyError(name)


def configs(tier):
    # fams: request family of the 1st / 2nd packet;  token (device): idle cycles between an optional IN token and the request
    def c(dut, fams, token=None): return dict(dut=dut, fams=list(fams), **({"token": token} if token is not None else {}))
    if tier == "quick":
        return [c("standalone", ["wide", "mid"]), c("standalone", ["mid", "wide"]), c("standalone", ["full", "full"]),
                c("device", ["wide", "mid"], token=[]), c("device", ["mid", "wide"], token=[]), c("device", ["full", "full"], token=[]),
                c("device", ["full", "rep"], token=[4]), c("device", ["mid", "mid"], token=[20, 3])]
    return [c("standalone", ["huge", "full"]), c("standalone", ["full", "huge"]), c("standalone", ["wide", "wide"]), c("standalone", ["long", "mid"]),
            c("standalone", ["mid", "long"]),
            c("device", ["huge", "full"], token=[]), c("device", ["full", "huge"], token=[]), c("device", ["wide", "wide"], token=[]),
            c("device", ["long", "mid"], token=[]), c("device", ["mid", "long"], token=[]),
            c("device", ["wide", "rep"], token=[4]), c("device", ["full", "mid"], token=[3, 20]), c("device", ["mid", "full"], token=[5, 2])]


class GeneratorSpec(Spec):
    n_validate = 8

    def __init__(self, cfg, tier):
        super().__init__(cfg, tier)
        # wall-clock caps, generous because the machine is shared; the configurations are sized for <= ~20 s (quick) and
        # <= ~90 s (thorough) of CPU each and close well before the cap on an idle machine
        self.time_budget = 900 if tier == "quick" else 3000
        self.max_states = 2_000_000        # closure needs < 10^6 states; the cap only matters for broken DUTs whose stall cycles change state
        self.device = cfg["dut"] == "device"
        self.npk = len(cfg["fams"])
        self.tokens = list(cfg.get("token", []))
        self.starts, self.nexts = [], []
        for name in cfg["fams"]:
            reqs = set(family(name))
            st, nx = set(), {}
            for pid, pl in reqs:
                if not pl:
                    st.add(("zlp", pid)); continue
                for i in range(len(pl)):
                    last = 1 if (pid, pl[:i + 1]) in reqs else 0
                    more = any(q == pid and len(r) > i + 1 and r[:i + 1] == pl[:i + 1] for q, r in reqs)
                    opts = ([(pl[i], 1)] if last else []) + ([(pl[i], 0)] if more else [])
                    if i == 0:
                        for o in opts: st.add(("req", pid) + o)
                    else:
                        nx.setdefault((pid, pl[:i]), set()).update(opts)
            self.starts.append(sorted(st))
            self.nexts.append({k: sorted(v) for k, v in nx.items()})
        self._vc = {}

    # ------------------------------------------------------------------ DUT
    def build(self):
        if not self.device:
            from luna.gateware.usb.usb2.packet import USBDataPacketGenerator
            d = USBDataPacketGenerator(standalone=True)
            ins = dict(pid=d.data_pid, valid=d.stream.valid, first=d.stream.first, last=d.stream.last, payload=d.stream.payload, ready=d.tx.ready)
            obs = dict(tx_valid=d.tx.valid, tx_data=d.tx.data, s_ready=d.stream.ready)
            return Design(d, ins, obs)
        from harness._usb2dev import build_device
        design, h = build_device(control=None, endpoints=[], probe=True)
        i, u = h["eprobe"].interface, h["utmi"]
        design.inputs["ready"] = design.inputs.pop("tx_ready")
        design.inputs.update(pid=i.tx_pid_toggle, valid=i.tx.valid, first=i.tx.first, last=i.tx.last, payload=i.tx.payload)
        design.observes = dict(tx_valid=u.tx_valid, tx_data=u.tx_data, s_ready=i.tx.ready)
        design.defaults = dict(line_state=K_STATE, connect=1)
        return design

    def assumptions(self):
        a = ["stream producer obeys the USBInStreamInterface contract: valid held high from `first` to `last` inclusively; payload/first/last only change after a cycle with ready; `first` only with the first byte",
             "a zero-length packet is requested by a one-cycle pulse of valid & last without first, as the LUNA endpoints do",
             "data_pid / tx_pid_toggle is constant while a packet is requested or transmitted; a new request is only made while the generator is idle (at least one cycle after the previous packet's last byte was accepted)",
             "tx_ready is free in every cycle (also while nothing is transmitted)",
             f"request-to-tx_valid latency is not fixed by the statement: 1..{LAT} cycles admitted",
             f"at most {IDLE_MAX} consecutive idle cycles between requests are explored (the standalone variant's private CRC unit free-runs on tx_ready while idle)"]
        if self.device:
            a.append("USBDevice at full speed on a UTMI bus with only a non-driving probe endpoint acting as the IN endpoint; line_state held at K (reset sequencer's suspend timer stays at zero); connect=1; the host sends nothing while the device transmits")
        return a

    # ------------------------------------------------------------------ environment
    # env = (k, ph, pid, pay, lastf, ncons, acc, wait, idles, tok)
    #   k      packets requested so far        ph  'idle' | 'pkt' | 'cool' (the cycle after the last accepted byte)
    #   pay    payload bytes revealed so far (consumed ones + the one being presented); lastf 1 iff the length is final
    #   ncons  payload bytes consumed (valid & ready)      acc  wire bytes accepted
    #   wait   cycles since the request in which tx_valid has not been seen yet (-1 once it was seen)
    #   idles  consecutive idle cycles                      tok  1 iff an IN token was sent (device)
    def env0(self):
        return (0, "idle", 0, (), 0, 0, 0, 0, 0, 0)

    def prologue(self, cur):
        if self.device:
            cur.hold(64)          # reset sequencer leaves INITIALIZE, inter-packet timers saturate (12 MHz: 17 cycles)
        return self.env0()

    def actions(self, env):
        k, ph, pid, pay, lastf, ncons, acc, wait, idles, tok = env
        if ph == "cool":
            return [("idle", 0), ("idle", 1)]
        if ph == "idle":
            acts = []
            if k == 0 and not tok: acts += [("token", n) for n in self.tokens]
            if idles < IDLE_MAX and 0 < k < self.npk: acts += [("idle", 0), ("idle", 1)]
            if k < self.npk:
                for s in self.starts[k]:
                    for r in (0, 1):
                        acts.append((s[0], s[1], r) + tuple(s[2:]))
            return acts
        # running packet
        need = ncons == len(pay) and not lastf and pay != ()
        if need:
            return [("c", r, b, l) for r in (0, 1) for b, l in self.nexts[k - 1].get((pid, pay), [])]
        return [("c", 0), ("c", 1)]

    def label(self, a):
        return list(a)

    def goals(self):
        g = ["packet-sent", "zlp-sent", "single-byte-sent", "stalled-on-pid", "stalled-on-payload", "stalled-on-crc-low", "stalled-on-crc-high",
             "second-packet-sent", "ready-before-valid"]
        if self.device and self.tokens: g.append("sent-after-in-token")
        return g

    # ------------------------------------------------------------------ one cycle
    def _step(self, cur, **kw):
        key = tuple(sorted(kw.items()))
        v = self._vc.get(key)
        if v is None: v = self._vc[key] = cur.model.vec(**kw)
        return cur.step_vec(v)

    def _expected(self, pid, pay, lastf, acc):
        """expected wire byte number acc, or None if no such byte can exist yet / any more"""
        if acc == 0: return PIDBYTE[pid]
        if acc <= len(pay): return pay[acc - 1]
        if not lastf: return None
        c = U.crc16(pay)
        if acc == len(pay) + 1: return c & 0xFF
        if acc == len(pay) + 2: return c >> 8
        return None

    def apply(self, cur, env, a):
        k, ph, pid, pay, lastf, ncons, acc, wait, idles, tok = env
        op = a[0]
        if op == "token":
            pkt = U.token(U.IN, 0, 1)
            seq = [dict(rx_active=1)] + [dict(rx_active=1, rx_valid=1, rx_data=b) for b in pkt] + [dict()] * a[1]
            for kw in seq:
                o = self._step(cur, pid=pid, **kw)
                if o.tx_valid: raise Violation("tx-without-request", dict(during="IN token", tx_data=o.tx_data))
            return (k, ph, pid, pay, lastf, ncons, acc, wait, idles, 1)
        r = a[1] if op in ("idle", "c") else a[2]
        if op == "idle":
            o = self._step(cur, pid=pid, ready=r)
            if o.tx_valid:
                raise Violation("tx-valid-after-packet-end" if ph == "cool" else "tx-without-request", dict(tx_data=o.tx_data, ready=r, previous_payload=list(pay)))
            return (k, "idle", pid, pay, lastf, 0, 0, 0, (0 if ph == "cool" else idles + 1), tok)
        if op in ("zlp", "req"):
            pid = a[1]
            pay, lastf = ((), 1) if op == "zlp" else ((a[3],), a[4])
            ncons = acc = wait = 0
            k += 1
            if r: self.cover["ready-before-valid"] += 1
        elif len(a) == 4:
            pay, lastf = pay + (a[2],), a[3]
        # ---- one cycle of a running packet
        presenting = ncons < len(pay)
        if op == "zlp":
            o = self._step(cur, pid=pid, ready=r, valid=1, first=0, last=1, payload=ZLP_GARBAGE)
        elif presenting:
            o = self._step(cur, pid=pid, ready=r, valid=1, first=int(ncons == 0), last=int(lastf and ncons == len(pay) - 1), payload=pay[ncons])
        else:
            o = self._step(cur, pid=pid, ready=r)
        info = dict(pid=pid, payload_so_far=list(pay), length_final=lastf, consumed=ncons, accepted=acc, ready=r, tx_valid=o.tx_valid, tx_data=o.tx_data)
        total = len(pay) + 3
        if o.tx_valid:
            wait = -1
            if r:
                e = self._expected(pid, pay, lastf, acc)
                if e is None:
                    raise Violation("wire-byte-beyond-packet" if lastf else "wire-byte-from-nowhere", info)
                if o.tx_data != e:
                    what = "pid" if acc == 0 else ("payload" if acc <= len(pay) else ("crc-low" if acc == len(pay) + 1 else "crc-high"))
                    raise Violation("wire-wrong-" + what, dict(info, expected=e))
                acc += 1
            else:
                self.cover["stalled-on-" + ("pid" if acc == 0 else ("payload" if acc <= len(pay) else ("crc-low" if acc == len(pay) + 1 else "crc-high")))] += 1
        else:
            if wait == -1:
                raise Violation("tx-valid-dropped-mid-packet", info)
            if wait >= LAT: raise Violation("request-not-transmitted", dict(info, cycles_since_request=wait))
            wait += 1
        if presenting and o.s_ready:
            ncons += 1
        if lastf and acc == total:
            if ncons != len(pay):
                raise Violation("payload-byte-not-consumed", info)
            self.cover["packet-sent"] += 1
            if not pay: self.cover["zlp-sent"] += 1
            if len(pay) == 1: self.cover["single-byte-sent"] += 1
            if k == 2: self.cover["second-packet-sent"] += 1
            if tok: self.cover["sent-after-in-token"] += 1
            return (k, "cool", pid, pay, lastf, ncons, acc, 0, 0, tok)
        return (k, "pkt", pid, pay, lastf, ncons, acc, wait, 0, tok)


def make(cfg, tier):
    return GeneratorSpec(cfg, tier)
