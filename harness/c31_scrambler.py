# C31 - SuperSpeed scrambling uses the USB3 LFSR and descrambling inverts it.
#
# Three kinds of configuration, all on the real elaborated classes of luna.gateware.usb.usb3.physical.scrambling:
#   lfsr       ScramblerLFSR, every one of the 2^16 register states (placed directly in the model's state) and several
#              initial_value parameters: `value` must be 32 consecutive keystream bits of the specification's LFSR,
#              an advance must continue the same sequence by exactly 32 bits, clear restarts it, no strobe holds it;
#              plus a long run from reset replayed in amaranth.sim.
#   datapath   Scrambler / Descrambler, every LFSR state x a word menu x enable: data symbols XOR keystream byte of
#              their lane, control symbols untouched (one-step function, enumeration).
#   stream     Scrambler / Descrambler / scrambler->descrambler: per-cycle BFS over all input combinations
#              (word menu incl. COM in every lane, a *data* byte 0xBC, SKP, invalid cycles with a COM pattern on the
#              lines) x valid x ready x hold x clear x enable, from reset to a word-depth bound.
#
# Reference (oracle), written from USB 3.2 Appendix B: 16-bit Galois LFSR, G(x) = x^16+x^5+x^4+x^3+1, serial output =
# bit 15, eight shifts per symbol, output bit k of a symbol's eight shifts scrambles data bit k; calibrated on the
# table recorded in /repo/tests/test_usb3_scrambling.py.  On top of it the statement's rules: the keystream position
# moves only when a word is transferred (valid & ready & not hold), by one byte per symbol (4 per word); a transferred
# word whose first symbol is COM, or the clear strobe, restarts it for the following word.
# Whether the position also moves for words transferred while `enable` is low is not fixed by the statement: both
# answers are admitted (candidate-set reference, as in c18).
import functools
from rtlmc.model import Model, Design, Cursor, Violation, MachineryError
from rtlmc.explore import Spec
from rtlmc import explore, pysim
from harness._gf2 import Regs, Run

PROPERTY = "C31"
TECHNIQUE = "2^16-state enumeration of the LFSR / scrambler datapath + per-cycle BFS of the stream behaviour"

POLY_TAPS = 0x0039            # x^5 + x^4 + x^3 + 1 (x^16 is the shifted-out bit)


# ===================================================================================== reference
def lfsr_byte(r):
    """eight serial shifts: returns (keystream byte, next register)"""
    b = 0
    for k in range(8):
        o = (r >> 15) & 1
        b |= o << k
        r = (r << 1) & 0xFFFF
        if o: r ^= POLY_TAPS
    return b, r


@functools.lru_cache(maxsize=None)
def k32(r):
    """(32 keystream bits as a word, symbol 0 in the low byte; register after the four symbols)"""
    v = 0
    for i in range(4):
        b, r = lfsr_byte(r)
        v |= b << (8 * i)
    return v, r


def calibrate():
    seq = [0x14c017ff, 0x8202e7b2, 0xa6286e72, 0x8dbf6dbe, 0xe6a740be, 0xb2e2d32c, 0x2a770207, 0xe0be34cd,
           0xb1245da7, 0x22bda19b, 0xd31d45d4, 0xee76ead7]           # [USB3.2 Appendix B.1] via tests/test_usb3_scrambling.py
    r = 0xFFFF
    for i, want in enumerate(seq):
        v, r = k32(r)
        if v != want: raise MachineryError(f"reference LFSR does not reproduce the recorded keystream at word {i}: {v:#x} vs {want:#x}")


COM, SKP = 0xBC, 0x3C


def scramble_ref(r, data, ctrl, enable):
    """expected output word for keystream register r"""
    ks = k32(r)[0]
    out = 0
    for i in range(4):
        d = (data >> (8 * i)) & 0xFF
        if enable and not (ctrl >> i) & 1: d ^= (ks >> (8 * i)) & 0xFF
        out |= d << (8 * i)
    return out


# ===================================================================================== builders
def build_lfsr(init):
    from luna.gateware.usb.usb3.physical.scrambling import ScramblerLFSR
    d = ScramblerLFSR() if init is None else ScramblerLFSR(initial_value=init)
    return Design(d, dict(clear=d.clear, advance=d.advance), dict(value=d.value))


def make_unit(which):
    from luna.gateware.usb.usb3.physical.scrambling import Scrambler, Descrambler
    if which == "scrambler": return Scrambler(), 0x7DBD
    if which == "scrambler_ffff": return Scrambler(initial_value=0xFFFF), 0xFFFF      # as instantiated by the PHY layer
    if which == "descrambler": return Descrambler(), 0xFFFF
    raise KeyError(which)


def build_unit(which):
    d, _ = make_unit(which)
    ins = dict(clear=d.clear, enable=d.enable, hold=d.hold, valid=d.sink.valid, data=d.sink.payload, ctrl=d.sink.ctrl,
               ready=d.source.ready)
    obs = dict(src_valid=d.source.valid, src_data=d.source.payload, src_ctrl=d.source.ctrl, sink_ready=d.sink.ready)
    return Design(d, ins, obs)


def build_pair():
    from amaranth import Elaboratable, Module, Signal
    from luna.gateware.usb.usb3.physical.scrambling import Scrambler, Descrambler

    class Pair(Elaboratable):
        """transmit scrambler feeding a receive descrambler the way USBSuperSpeedPHY does (Scrambler(0xffff),
        Descrambler()); a word held for SKP insertion is not forwarded (the CTC replaces it by SKPs, which the far
        end's CTC removes again)"""
        def __init__(self):
            self.tx, self.rx = Scrambler(initial_value=0xFFFF), Descrambler()
            self.enable, self.hold, self.clear = Signal(), Signal(), Signal()
        def elaborate(self, platform):
            m = Module()
            m.submodules.tx, m.submodules.rx = tx, rx = self.tx, self.rx
            m.d.comb += [tx.enable.eq(self.enable), rx.enable.eq(self.enable), tx.hold.eq(self.hold),
                         tx.clear.eq(self.clear), rx.clear.eq(self.clear),
                         rx.sink.payload.eq(tx.source.payload), rx.sink.ctrl.eq(tx.source.ctrl),
                         rx.sink.valid.eq(tx.source.valid & ~self.hold), tx.source.ready.eq(rx.sink.ready)]
            return m

    d = Pair()
    ins = dict(clear=d.clear, enable=d.enable, hold=d.hold, valid=d.tx.sink.valid, data=d.tx.sink.payload, ctrl=d.tx.sink.ctrl,
               ready=d.rx.source.ready)
    obs = dict(src_valid=d.rx.source.valid, src_data=d.rx.source.payload, src_ctrl=d.rx.source.ctrl, sink_ready=d.tx.sink.ready,
               line_data=d.tx.source.payload, line_ctrl=d.tx.source.ctrl)
    return Design(d, ins, obs)


# ===================================================================================== lfsr: all states
def run_lfsr(cfg, tier, seed):
    calibrate()
    init = cfg["init"]
    model = Model(lambda: build_lfsr(init))
    run = Run(cfg, model)
    regs = Regs(model)
    ff = regs.only(16)
    base = model.reset_state
    init_v = 0xFFFF if init is None else init
    inverse = {k32(r)[0]: r for r in range(1 << 16)}
    if len(inverse) != 1 << 16: raise MachineryError("reference keystream window is not injective")
    v0 = model.peek_vec(base, model.vec()).value
    if v0 != k32(init_v)[0]:
        run.violation("lfsr:initial-keystream", dict(initial_value=hex(init_v), value=hex(v0), expected=hex(k32(init_v)[0])), [dict(kind="reset")])
    seen_r = set()
    adv, clr, idle = model.vec(advance=1), model.vec(clear=1), model.vec()
    for s in range(1 << 16):
        st = regs.put(base, ff, s)
        st2, o = model.step_vec(st, adv)
        run.evals += 1
        r = inverse.get(o.value)
        if r is None:
            run.violation("lfsr:value-not-keystream", dict(register=hex(s), value=hex(o.value), note="not 32 consecutive bits of the x^16+x^5+x^4+x^3+1 sequence"),
                          [dict(kind="state", state=s)], key=s)
            continue
        seen_r.add(r)
        run.states.add(s)
        o2 = model.peek_vec(st2, idle)
        want = k32(k32(r)[1])[0]
        if o2.value != want:
            run.violation("lfsr:advance", dict(register=hex(s), value=hex(o.value), value_after_advance=hex(o2.value), expected=hex(want)),
                          [dict(kind="state", state=s)], key=s)
        if s % 16 == 0 or s < 256:
            st3, _ = model.step_vec(st, clr)
            if model.peek_vec(st3, idle).value != k32(init_v)[0]:
                run.violation("lfsr:clear", dict(register=hex(s), value_after_clear=hex(model.peek_vec(st3, idle).value), expected=hex(k32(init_v)[0])), [dict(kind="state", state=s)], key=s)
            st4, _ = model.step_vec(st, idle)
            if model.peek_vec(st4, idle).value != o.value:
                run.violation("lfsr:hold", dict(register=hex(s), value=hex(o.value), value_after_idle=hex(model.peek_vec(st4, idle).value)), [dict(kind="state", state=s)], key=s)
            run.evals += 2
    if len(seen_r) != 1 << 16 and not run.viol:
        run.violation("lfsr:states-not-distinct", dict(distinct_keystream_positions=len(seen_r)), [dict(kind="reset")])
    run.cover["all-2^16-states"] += 1
    # from reset, advancing every cycle (with a pause and a clear in the middle): replayed in amaranth.sim
    n = 3000 if tier == "quick" else 66000
    log = []
    cur = Cursor(model, None, log)
    r = init_v
    for i in range(n):
        pause = (i % 97) == 50
        clear = (i == n // 2)
        o = cur.step(advance=0 if pause else 1, clear=1 if clear else 0)
        run.evals += 1
        if o.value != k32(r)[0]:
            run.violation("lfsr:sequence", dict(cycle=i, value=hex(o.value), expected=hex(k32(r)[0])), [dict(kind="run", cycles=i + 1)], key=i)
            break
        if clear: r = init_v
        elif not pause: r = k32(r)[1]
    run.cover["run-from-reset"] += 1
    run.validate(model, log, 6000)
    run.samples.append([dict(advance=1)] * 3)
    return run.result(goals=["all-2^16-states", "run-from-reset"], depth=n,
                      assumptions=["clear and advance are not asserted together, except that clear wins (checked in the run from reset)",
                                   "the register value is opaque: `value` must be a 32-bit window of the specified sequence and an advance must move the window by 32 bits"])


# ===================================================================================== datapath: all LFSR states
MENU = [(0x00000000, 0b0000), (0xFFFFFFFF, 0b0000), (0xBCBCBCBC, 0b0000), (0xBCBCBCBC, 0b1111), (0x3C00FFBC, 0b1001),
        (0xA5BC3C5A, 0b0110), (0x12345678, 0b0101), (0x12345678, 0b1010)]


def run_datapath(cfg, tier, seed):
    calibrate()
    which = cfg["unit"]
    model = Model(lambda: build_unit(which))
    run = Run(cfg, model)
    regs = Regs(model)
    ff = regs.only(16)
    base = model.reset_state
    # what keystream position does each register value stand for?  read it through the all-zero data word
    inverse = {k32(r)[0]: r for r in range(1 << 16)}
    zero = model.vec(valid=1, ready=1, enable=1, data=0, ctrl=0)
    menu = MENU if tier != "quick" else [MENU[1], MENU[3], MENU[4], MENU[5]]
    vecs = [(d, c, e, model.vec(valid=1, ready=1, enable=e, data=d, ctrl=c)) for d, c in menu for e in (0, 1)]
    for s in range(1 << 16):
        st = regs.put(base, ff, s)
        ks = model.peek_vec(st, zero).src_data
        r = inverse.get(ks)
        run.evals += 1
        if r is None:
            run.violation("scrambler:keystream", dict(register=hex(s), scrambled_zero_word=hex(ks), note="D0.0 x4 is not scrambled to a window of the LFSR sequence"),
                          [dict(kind="state", state=s, data=0, ctrl=0, enable=1)], key=s)
            continue
        run.states.add(s)
        for d, c, e, vec in vecs:
            o = model.peek_vec(st, vec)
            run.evals += 1
            want = scramble_ref(r, d, c, e)
            if o.src_data != want:
                rule = "scrambler:control-symbol-changed" if any(((c >> i) & 1) and ((o.src_data ^ d) >> (8 * i)) & 0xFF for i in range(4)) else \
                       ("scrambler:data-symbol" if e else "scrambler:disabled-not-transparent")
                run.violation(rule, dict(register=hex(s), data=hex(d), ctrl=bin(c), enable=e, out=hex(o.src_data), expected=hex(want)),
                              [dict(kind="state", state=s, data=d, ctrl=c, enable=e)], key=s)
            if o.src_ctrl != c or not o.src_valid:
                run.violation("scrambler:ctrl-flags", dict(ctrl=bin(c), out_ctrl=bin(o.src_ctrl), out_valid=o.src_valid), [dict(kind="state", state=s, data=d, ctrl=c, enable=e)], key=s)
    run.cover["all-2^16-states"] += 1
    # a reachable stretch replayed in amaranth.sim
    log = []
    cur = Cursor(model, None, log)
    for i in range(400):
        d, c = MENU[(i * 5 + seed) % len(MENU)]
        cur.step(valid=1, ready=1 if i % 5 else 0, enable=1 if i % 7 else 0, data=d, ctrl=c)
    run.validate(model, log)
    run.samples.append([dict(data=hex(d), ctrl=bin(c)) for d, c in MENU[:3]])
    return run.result(goals=["all-2^16-states"], assumptions=["datapath is observed combinationally with valid=ready=1"])


# ===================================================================================== stream behaviour: BFS
def lanes(*syms):
    d = c = 0
    for i, (v, k) in enumerate(syms):
        d |= v << (8 * i); c |= k << i
    return d, c


D00, DFF, DBC, KCOM, KSKP = (0x00, 0), (0xFF, 0), (0xBC, 0), (COM, 1), (SKP, 1)


def word_menu(tier):
    rest = [(D00, D00, D00), (DFF, DFF, DFF), (KCOM, KCOM, KCOM), (D00, KCOM, DFF), (KCOM, DFF, D00), (DFF, D00, KCOM)]
    if tier != "quick": rest += [(DBC, KSKP, D00), (KSKP, DBC, DBC)]
    first = [D00, DFF, DBC, KCOM, KSKP]
    return [lanes(f, *r) for f in first for r in rest]


class StreamSpec(Spec):
    n_validate = 8

    def __init__(self, cfg, tier):
        super().__init__(cfg, tier)
        self.which = cfg["unit"]
        self.pair = self.which == "pair"
        self.words = word_menu(tier)
        self.max_depth = cfg["depth"]
        self.time_budget = 300 if tier == "quick" else 800     # safety net only; the depth bound is the intended cap
        self.init = 0xFFFF if self.pair else make_unit(self.which)[1]
        acts = []
        for w in range(len(self.words)):
            for ready in (0, 1):
                for hold in (0, 1):
                    for clear in (0, 1):
                        for enable in (0, 1):
                            acts.append((1, w, ready, hold, clear, enable))
        comw = self.words.index(lanes(KCOM, KCOM, KCOM, KCOM))
        for w in (0, comw):                      # no word this cycle; the lines may carry anything, e.g. a COM pattern
            for ready in (0, 1):
                for hold in (0, 1):
                    acts.append((0, w, ready, hold, 0, 1))
        self._acts = acts
        self._by_word = {}
        for a in acts:
            if a[0]: self._by_word.setdefault(a[1], []).append(a)
        calibrate()

    def build(self):
        return build_pair() if self.pair else build_unit(self.which)

    def env0(self):
        return (frozenset([self.init]), -1)

    def actions(self, env):
        held = env[1]
        return self._acts if held < 0 else self._by_word[held]

    def assumptions(self):
        return ["stream protocol on the sink: a word offered with valid and not taken (ready low) is offered again unchanged",
                "hold (SKP insertion) is only asserted while the offered word does not start with COM; a word offered under hold is "
                "not transferred (the CTC replaces it), whatever ready says",
                "the statement does not say whether the keystream position moves for words transferred while enable is low: both admitted",
                "output symbols are compared on the cycles in which a word is transferred"]

    def label(self, a):
        v, w, ready, hold, clear, enable = a
        d, c = self.words[w]
        return dict(valid=v, data=f"{d:08x}", ctrl=f"{c:04b}", ready=ready, hold=hold, clear=clear, enable=enable)

    def apply(self, cur, env, a):
        cands, held = env
        valid, w, ready, hold, clear, enable = a
        data, ctrl = self.words[w]
        com0 = valid and (ctrl & 1) and (data & 0xFF) == COM
        if hold and com0: return None
        o = cur.step(valid=valid, data=data, ctrl=ctrl, ready=ready, hold=hold, clear=clear, enable=enable)
        transfer = valid and ready and not hold
        if self.pair:
            exp_valid = valid and not hold
        else:
            exp_valid = valid
        if bool(o.src_valid) != bool(exp_valid) or bool(o.sink_ready) != bool(ready):
            raise Violation("stream:handshake", dict(valid=valid, ready=ready, hold=hold, src_valid=o.src_valid, sink_ready=o.sink_ready))
        nxt = set()
        if transfer:
            if o.src_ctrl != ctrl:
                raise Violation("stream:ctrl-flags", dict(ctrl=bin(ctrl), out=bin(o.src_ctrl)))
            for i in range(4):
                if (ctrl >> i) & 1 and ((o.src_data ^ data) >> (8 * i)) & 0xFF:
                    raise Violation("stream:control-symbol-changed", dict(lane=i, data=hex(data), ctrl=bin(ctrl), out=hex(o.src_data)))
            if self.pair:
                if o.src_data != data:
                    raise Violation("roundtrip:data", dict(sent=hex(data), ctrl=bin(ctrl), line=hex(o.line_data), received=hex(o.src_data), enable=enable))
                ok = []       # (what is on the line is judged by the single-unit configurations)
            else:
                ok = [r for r in cands if o.src_data == scramble_ref(r, data, ctrl, enable)]
                if not ok:
                    exp = [hex(scramble_ref(r, data, ctrl, enable)) for r in sorted(cands)]
                    det = dict(data=hex(data), ctrl=bin(ctrl), enable=enable, out=hex(o.src_data), expected=exp,
                               keystream_register=[hex(r) for r in sorted(cands)])
                    if com0 and o.src_data == scramble_ref(self.init, data, ctrl, enable):
                        raise Violation("stream:restart-before-com-word-transferred", dict(det, note="the COM word itself is scrambled with the restarted keystream: the LFSR was "
                                                                                                     "cleared while the word was offered but stalled"))
                    if o.src_data == scramble_ref(self.init, data, ctrl, enable):
                        raise Violation("stream:unexpected-restart", det)
                    raise Violation("stream:data-symbol", det)
            self.cover["transfer"] += 1
            if enable and ctrl != 0xF: self.cover["scrambled-transfer"] += 1
            if com0: self.cover["com-restart"] += 1
            if self.pair: nxt = set(cands)
            for r in ok:
                if clear or com0: nxt.add(self.init)
                else:
                    nxt.add(k32(r)[1])
                    if not enable: nxt.add(r)
        else:
            if valid and hold: self.cover["held"] += 1
            if valid and not ready: self.cover["stalled"] += 1
            if not valid: self.cover["idle-cycle"] += 1
            nxt = {self.init} if clear else set(cands)
        if clear: self.cover["clear"] += 1
        self.outcomes.add((o.src_valid, o.src_ctrl, o.sink_ready))
        return (frozenset(nxt), w if (valid and not ready) else -1)

    def goals(self):
        return ["transfer", "scrambled-transfer", "com-restart", "held", "stalled", "idle-cycle", "clear"]


def make(cfg, tier):
    return StreamSpec(cfg, tier)


# ===================================================================================== engine interface
def configs(tier):
    c = [dict(kind="lfsr", init=None), dict(kind="lfsr", init=0x7DBD), dict(kind="lfsr", init=0x0001)]
    c += [dict(kind="datapath", unit=u) for u in ("scrambler", "descrambler")]
    depth = 12 if tier == "quick" else 32
    c += [dict(kind="stream", unit=u, depth=depth) for u in ("scrambler_ffff", "scrambler", "descrambler", "pair")]
    return c


def run_config(cfg, tier, seed):
    if cfg["kind"] == "lfsr": return run_lfsr(cfg, tier, seed)
    if cfg["kind"] == "datapath": return run_datapath(cfg, tier, seed)
    return explore.run_spec(make(cfg, tier), seed)


def _tuplify(x):
    return tuple(_tuplify(y) for y in x) if isinstance(x, list) else x


def replay(cfg, tier, payload):
    calibrate()
    if cfg["kind"] == "stream":
        spec = make(cfg, tier)
        model = Model(spec.build)
        log = []
        try:
            explore.run_path(model, spec, _tuplify(payload["path"]), log)
            ok, msg = True, "path executed without violating the oracle"
        except Violation as e:
            ok, msg = False, f"rule={e.rule} detail={e.detail}"
        n = pysim.replay(model, log, None)
        return ok, msg + f" [trace of {n} cycles reproduced identically in amaranth.sim]"
    p = payload["path"][0]
    if cfg["kind"] == "lfsr":
        r = run_lfsr(cfg, "quick", 0)
    else:
        r = run_datapath(cfg, "quick", 0)
    hit = [v for v in r["violations"] if v["rule"] == payload["rule"]]
    if hit: return False, f"rule={hit[0]['rule']} detail={hit[0]['detail']} (enumeration re-run)"
    return True, "enumeration re-run without this violation"
