# C29 - USBMultibyteStreamInEndpoint serialises words little-endian with correct framing.
#
# DUT: the real USBMultibyteStreamInEndpoint.  Its inner byte endpoint (USBStreamInEndpoint -> USBInTransferManager)
# drives byte_stream.ready itself, from its packet buffers, so with the real inner endpoint the property's quantifier
# ("all byte-endpoint ready patterns") cannot be exercised: ready is neither an input nor anything like arbitrary.
# Moreover the inner endpoint is *created inside elaborate()*, so its `stream` is not reachable through a public
# attribute before elaboration.  The harness therefore makes the byte endpoint the environment: only while
# USBMultibyteStreamInEndpoint.elaborate() runs, the name `USBStreamInEndpoint` in luna...endpoints.stream resolves to
# a factory returning an empty Elaboratable that owns a real StreamInterface() `stream` and EndpointInterface()
# `interface`.  Every statement of USBMultibyteStreamInEndpoint.elaborate (the shift FSM, the flag gating, the ready
# logic) is the unmodified code under test; nothing of the property's subject lives in the stubbed class.
# If the seam disappears (class renamed / constructed elsewhere) build() fails loudly (machinery error), it cannot
# silently pass.
#
# Oracle (from the statement): a FIFO of expected bytes.  A word accepted (word.valid & word.ready) appends its bytes,
# least significant first, `first` on byte 0 iff the word had first, `last` on the final byte iff the word had last.
# A byte handed over (byte.valid & byte.ready) must be the head of the FIFO (payload, first, last) - or, should an
# implementation pass the first byte through combinationally, the first byte of the word accepted in this very cycle.
# Back-pressure: the bytes accepted but not yet handed over never exceed two words (one in the shifter plus at most
# one buffered) - "words are accepted only as fast as the byte endpoint can take them".
# Progress (bounded, no exact latency demanded): pending bytes are offered within SLACK ready cycles; an offered word
# is accepted within SLACK cycles once nothing is pending.
import sys
from rtlmc.model import Design, Violation, MachineryError
from rtlmc.explore import Spec

PROPERTY = "C29"
TECHNIQUE = "per-cycle closure; inner byte endpoint replaced by the environment at the USBStreamInEndpoint seam"
SLACK = 8          # generous progress window (cycles); the statement fixes no latency

WORD_BYTES = [(0x11, 0x22, 0x33, 0x44, 0x55, 0x66, 0x77, 0x88), (0xA5, 0x5A, 0xC3, 0x3C, 0x96, 0x69, 0xF0, 0x0F),
              (0x80, 0x01, 0x7F, 0xFE, 0x00, 0xFF, 0x10, 0x08)]


def configs(tier):
    if tier == "quick":
        return [dict(byte_width=w, values=2) for w in (1, 2, 3, 4)]
    return [dict(byte_width=w, values=3) for w in (1, 2, 3, 4, 5, 8)]


def _build_dut(byte_width):
    from amaranth import Elaboratable, Module
    import luna.gateware.usb.usb2.endpoints.stream as epmod
    from luna.gateware.stream import StreamInterface
    from luna.gateware.usb.usb2.endpoint import EndpointInterface

    class ByteEndpointEnvironment(Elaboratable):
        """Stands where the inner USBStreamInEndpoint stands; the harness plays its role."""
        def __init__(self):
            self.stream = StreamInterface()
            self.interface = EndpointInterface()
            self.kwargs = None
        def elaborate(self, platform):
            return Module()

    class Wrapper(Elaboratable):
        def __init__(self):
            self.ep = epmod.USBMultibyteStreamInEndpoint(byte_width=byte_width, endpoint_number=1, max_packet_size=64)
            self.inner = ByteEndpointEnvironment()
            self.used = 0

        def _factory(self, **kw):
            self.used += 1
            self.inner.kwargs = kw
            return self.inner

        def elaborate(self, platform):
            if not hasattr(epmod, "USBStreamInEndpoint"):
                raise MachineryError("seam lost: endpoints.stream.USBStreamInEndpoint no longer exists")
            orig = epmod.USBStreamInEndpoint
            epmod.USBStreamInEndpoint = self._factory
            try:
                m = self.ep.elaborate(platform)
            finally:
                epmod.USBStreamInEndpoint = orig
            if self.used != 1:
                raise MachineryError("seam lost: USBMultibyteStreamInEndpoint did not construct exactly one USBStreamInEndpoint")
            return m

    return Wrapper()


class MultibyteSpec(Spec):
    n_validate = 8

    def __init__(self, cfg, tier):
        super().__init__(cfg, tier)
        self.w = w = cfg["byte_width"]
        self.time_budget = 150 if tier == "quick" else 600       # a cap, not a target
        self.words = [tuple(b[:w]) for b in WORD_BYTES[:cfg["values"]]]
        acts = []
        for rdy in (0, 1):
            acts.append((rdy, 0, 0, 0, 0))                  # no word offered, bus quiet
            acts.append((rdy, 0, 1, 1, 1))                  # no word offered, but garbage with first/last on the bus
            for k in range(len(self.words)):
                for f in (0, 1):
                    for l in (0, 1):
                        acts.append((rdy, 1, k, f, l))
        self._acts = acts

    def build(self):
        d = _build_dut(self.w)
        ws, bs = d.ep.stream, d.inner.stream
        ins = dict(w_valid=ws.valid, w_first=ws.first, w_last=ws.last, w_payload=ws.payload, b_ready=bs.ready)
        obs = dict(w_ready=ws.ready, b_valid=bs.valid, b_first=bs.first, b_last=bs.last, b_payload=bs.payload)
        return Design(d, ins, obs)

    def env0(self):
        return ((), 0, 0)          # (pending bytes, ready-cycles without hand-over, cycles a word waited with nothing pending)

    def actions(self, env):
        return self._acts

    def assumptions(self):
        return ["the byte endpoint is the environment: byte_stream.ready is free in every cycle (stub at the USBStreamInEndpoint seam)",
                "byte payload/first/last are compared in the cycle the byte is handed over (valid & ready)",
                f"progress is demanded within {SLACK} cycles, no exact latency"]

    def goals(self):
        # only situations every conforming implementation must reach under this environment.  "back-to-back-accept"
        # (a word accepted while bytes of its predecessor are still pending) is counted but not required: the
        # statement does not ask for a gap-free hand-over, an endpoint may return to idle between words.
        return ["word-accepted", "byte-stalled", "word-back-pressured", "first-word", "last-word", "idle-gap"]

    def _bytes_of(self, k, f, l):
        bs = self.words[k]
        n = len(bs)
        return tuple((b, int(bool(f) and i == 0), int(bool(l) and i == n - 1)) for i, b in enumerate(bs))

    def apply(self, cur, env, a):
        rdy, wv, k, f, l = a
        pending, starve, wstarve = env
        payload = 0
        for i, b in enumerate(self.words[k]): payload |= b << (8 * i)
        o = cur.step(w_valid=wv, w_first=f, w_last=l, w_payload=payload, b_ready=rdy)
        accepted = bool(wv and o.w_ready)
        handed = bool(o.b_valid and rdy)
        had_pending = bool(pending)
        new = self._bytes_of(k, f, l) if accepted else ()
        if handed:
            got = (o.b_payload, o.b_first, o.b_last)
            if pending:
                exp, pending = pending[0], pending[1:]
                pending = pending + new
            elif new:
                exp, pending = new[0], new[1:]          # admitted: combinational pass-through of the first byte
            else:
                raise Violation("byte-without-word", dict(got=got))
            if got[0] != exp[0]:
                raise Violation("byte-order-or-value", dict(expected=exp, got=got, still_pending=pending))
            if got[1] != exp[1]:
                raise Violation("first-flag", dict(expected=exp, got=got))
            if got[2] != exp[2]:
                raise Violation("last-flag", dict(expected=exp, got=got))
        else:
            pending = pending + new
        if len(pending) > 2 * self.w:
            raise Violation("accepted-faster-than-bytes-drain", dict(pending=len(pending)))
        # bounded progress
        if had_pending and rdy and not handed:
            starve += 1
            if starve > SLACK: raise Violation("pending-byte-not-offered", dict(pending=pending))
        elif handed or not had_pending:
            starve = 0
        if wv and not had_pending and not accepted:
            wstarve += 1
            if wstarve > SLACK: raise Violation("word-not-accepted-while-empty", dict())
        else:
            wstarve = 0
        # cover
        if accepted:
            self.cover["word-accepted"] += 1
            if f: self.cover["first-word"] += 1
            if l: self.cover["last-word"] += 1
            if had_pending: self.cover["back-to-back-accept"] += 1
        if o.b_valid and not rdy: self.cover["byte-stalled"] += 1
        if wv and not o.w_ready: self.cover["word-back-pressured"] += 1
        if not had_pending and not wv: self.cover["idle-gap"] += 1
        self.outcomes.add((o.w_ready, o.b_valid, handed, accepted))
        return (pending, starve, wstarve)


def make(cfg, tier):
    return MultibyteSpec(cfg, tier)


def run_config(cfg, tier, seed):
    """explore with the byte endpoint as environment; additionally make sure the class elaborates down to a netlist with
    its real inner USBStreamInEndpoint (the seam must not hide a class that cannot be built at all)"""
    from rtlmc import explore
    from amaranth.hdl import Fragment, _ir as ir
    import luna.gateware.usb.usb2.endpoints.stream as epmod
    r = explore.run_spec(make(cfg, tier), seed)
    try:
        ep = epmod.USBMultibyteStreamInEndpoint(byte_width=cfg["byte_width"], endpoint_number=1, max_packet_size=64)
        ir.build_netlist(Fragment.get(ep, None), ports=[ep.stream.valid, ep.stream.payload, ep.stream.ready], name="top")
    except Exception as e:
        r["violations"].append(dict(rule="elaboration-fails:with-real-byte-endpoint", detail=f"{type(e).__name__}: {e}",
                                    path=[], count=1))
    return r
