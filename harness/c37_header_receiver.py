# C37 - HeaderPacketReceiver: acceptance, LGOOD / LBAD / LCRD, buffering.
#
# DUT: luna.gateware.usb.usb3.link.receiver.HeaderPacketReceiver(buffer_count), enable = 1 throughout (link in U0).
# Macro-step exploration; one action is one of
#   ("hp", rel, corrupt, content, ready, inv)  the partner sends a header packet (HPSTART + 4 words): sequence number =
#                                              expected + rel, corrupt = 0 good / 1 bad CRC-5 / 2 bad CRC-16, content
#                                              A/B, source.ready held at `ready` meanwhile; inv = k: one not-valid word
#                                              after word k; one idle word follows the packet unless inv = "n" (then
#                                              the next action's first word - e.g. the HPSTART of the next header
#                                              packet - follows back to back)
#   ("lrty",)      the partner's LRTY (two words on the sink; retry_received strobes in the following cycle, as the
#                  link command detector of the transmitter reports it)
#   ("c",)         the protocol layer takes one header (queue.ready for one cycle)
#   ("t", ready)   one idle cycle with source.ready = ready
#   ("ka",) ("rreq",)   keepalive_required / retry_required strobes (other link commands competing for the source)
#   ("drain",)     source.ready held until everything owed has been sent (liveness probe and legitimate move)
#
# Oracle = reference model of USB 3.2 7.2.4.1 in harness/_usb3hp.py (RxRef / HprMonitor), checked on every cycle:
#   * a header is accepted iff both CRCs are good, its sequence number is the expected one and no LBAD is outstanding;
#     queue.valid never shows a header the reference has not accepted / has already handed over, the header shown is
#     the oldest accepted one (all 96 protocol bits, hub depth, DL, DF, sequence number); after a drain every accepted,
#     unconsumed header is on offer.
#   * every LGOOD carries the sequence number of the oldest unacknowledged accepted header (the first one after reset is
#     the advertisement LGOOD_7); none is missing after a drain.
#   * a corrupted header (outside ignore mode) is answered by exactly one LBAD, sent after the LGOODs still owed; until
#     the partner's LRTY no header is accepted and no recovery is requested for the ignored ones.
#   * LCRD_x are issued in cyclic A-B-.. order and only while a buffer is free and unadvertised
#     (advertised + buffered + free == buffer count); none is missing after a drain.
#   * everything on the source is a well-formed link command (LCSTART + two identical words with a valid CRC-5).
from rtlmc.model import Violation
from rtlmc.explore import Spec
from harness import _usb3hp as L

PROPERTY = "C37"
LEVEL_NOTE = ("Closure (or depth-bounded BFS, see caps) of the real HeaderPacketReceiver under partner header packets "
              "(expected / next sequence number, good / bad CRC-5 / bad CRC-16, two contents, back to back or spaced, "
              "with not-valid words inside), LRTY, protocol-layer consumption, source.ready stalls and competing "
              "keepalive / LRTY requests.")


def configs(tier):
    if tier == "quick":
        return [dict(buffers=2, rich=0, depth=11, name="b2"),
                dict(buffers=2, rich=1, depth=7, name="b2-rich"),
                dict(buffers=4, rich=0, depth=8, name="b4"),
                dict(buffers=4, rich=1, depth=6, name="b4-rich")]
    return [dict(buffers=2, rich=0, depth=80, name="b2"),          # closes (frontier empties) well before depth 80
            dict(buffers=2, rich=1, depth=10, name="b2-rich"),
            dict(buffers=4, rich=0, depth=11, name="b4"),
            dict(buffers=4, rich=1, depth=8, name="b4-rich")]


class HprSpec(Spec):

    def __init__(self, cfg, tier):
        super().__init__(cfg, tier)
        self.n_validate = 2 if tier == "quick" else 4      # each amaranth.sim replay costs seconds to set up
        self.n = cfg["buffers"]
        self.mon = L.HprMonitor(self, self.n)
        self.max_depth = cfg["depth"]
        self.time_budget = 400 if tier == "quick" else 840      # safety net only; the bounds are the depth bounds
        self.max_states = 600_000 if tier == "quick" else 6_000_000
        rich = cfg["rich"]
        hp = []
        for rel in (0, 1):
            for corrupt, contents in ((0, (0, 1)), (1, (0,)), (2, (1,))):
                for c in contents:
                    hp.append(("hp", rel, corrupt, c, 1, None))
                    if rich:
                        hp.append(("hp", rel, corrupt, c, 0, None))
        hp += [("hp", 0, 0, 0, 1, "n"), ("hp", 0, 1, 0, 1, "n")]
        if rich:
            hp += [("hp", 0, 0, 0, 1, 0), ("hp", 0, 0, 1, 1, 2), ("hp", 0, 0, 0, 1, 3), ("hp", 0, 2, 1, 1, 1), ("hp", 0, 1, 0, 0, 3)]
        self._hp = hp
        self._misc = [("t", 1), ("t", 0), ("c",), ("drain",)] + ([("ka",), ("rreq",)] if rich else [("ka",)])

    def build(self):
        return L.build_hpr(self.n)

    def env0(self):
        return L.RxRef(self.n).freeze()

    def actions(self, env):
        r = L.RxRef(self.n, env)
        if r.terminal: return []
        acts = [a for a in self._hp if r.adv > a[1]]
        if r.wait_retry: acts.append(("lrty",))
        return acts + self._misc

    def assumptions(self):
        return ["enable = 1 and usb_reset = 0 throughout (the link stays in U0); exploration starts at the reset state, so the "
                "initial advertisement (LGOOD_7, LCRD for every buffer) is part of every history",
                "the partner respects flow control: a header with sequence number expected+k is only sent while it holds more "
                "than k unused credits (LCRDs seen minus headers accepted)",
                "the partner sends LRTY only after the DUT has completely sent an LBAD (USB 3.2 7.2.4.1.1); retry_received "
                "strobes in the cycle after the LRTY word, never inside a header packet",
                "a header with a valid CRC but the wrong sequence number outside ignore mode ends the history (the link leaves U0 "
                "for Recovery); it must not be offered or acknowledged in the 8 cycles that follow",
                "header packets and link commands are word aligned; not-valid words may be interleaved",
                "LUP / LRTY / LXU emitted by the DUT are only checked for well-formedness",
                "liveness is checked by the drain action: source.ready held for 16 + 6*(owed+3) cycles"]

    def apply(self, cur, env, a):
        r = L.RxRef(self.n, env)
        m = self.mon
        k = a[0]
        if k == "hp":
            _, rel, corrupt, content, ready, inv = a
            seq = (r.exp_seq + rel) & 7
            b2b = bool(r.extra) and r.extra[0] == 0
            res = m.send_header(cur, r, seq, content, corrupt, ready, inv if isinstance(inv, int) else None)
            if b2b:
                self.cover["hp:back-to-back"] += 1
                if res == "accept": m.probe_received(cur, r, "good-header-lost")
                elif res == "bad": m.probe_received(cur, r, "corrupted-header-not-answered")
            self.cover["hp:" + res] += 1
            self.outcomes.add((res, rel, corrupt))
            if isinstance(inv, int): self.cover["hp:with-invalid-word"] += 1
            if res == "wrongseq":
                for _ in range(8): m.cyc(cur, r)        # must not be offered / acknowledged: the per-cycle checks apply
                r.terminal = True
            elif inv != "n":
                m.cyc(cur, r, ready=ready)              # one idle word behind the packet
        elif k == "lrty":
            m.send_lrty(cur, r)
            self.cover["lrty"] += 1
        elif k == "c":
            o = m.cyc(cur, r, q_ready=1)
            if not o.q_valid: self.cover["consume-on-empty"] += 1
        elif k == "t":
            m.cyc(cur, r, ready=a[1])
        elif k == "ka":
            m.cyc(cur, r, keepalive_required=1)
        elif k == "rreq":
            m.cyc(cur, r, retry_required=1)
        elif k == "drain":
            m.drain(cur, r)
        if len(r.fifo) == self.n: self.cover["buffers-full"] += 1
        return r.freeze()

    def goals(self):
        return ["hp:accept", "hp:bad", "hp:ignored", "hp:wrongseq", "lrty", "consumed", "LGOOD", "LCRD", "LBAD", "LUP",
                "buffers-full", "recovery_required"]


def make(cfg, tier):
    L.calibrate()
    return HprSpec(cfg, tier)
