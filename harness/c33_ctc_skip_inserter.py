# C33 - transmit CTC: Scrambler + CTCSkipInserter as wired in USB3PhysicalLayer (physical/layer.py 150-177).
# The transmitted stream equals the link layer's stream except that some logical-idle filler words are replaced by
# SKP words; data words are never replaced / dropped / reordered; the scrambler keystream does not advance over an
# inserted SKP word; SKP ordered sets are scheduled at one per 354 transmitted symbols whenever idle permits.
#
# Two kinds of DUT (same environment, same oracle, same observed signals: sink.ready, PHY tx_data, tx_datak):
#   dut="layer"   : the real USB3PhysicalLayer(phy=PIPEInterface(width=4)).  Its LFPS detectors contain free-running
#                   24/25-bit counters, so no state ever repeats: explored as a bounded tree of macro steps
#                   ("n idle words", "n data words", n around the 354-symbol period) with the LFSR running freely.
#   dut="replica" : Scrambler(initial_value=0xffff) + CTCSkipInserter with the wiring statements of layer.py copied
#                   verbatim (class TxPathReplica below - TRUSTED to equal layer.py; the "layer" configurations run
#                   the identical oracle on the real class).  Per-cycle BFS to closure over every word choice, for all
#                   354-symbol phases x owed-SKP counts x keystream positions 0..maxrun after a COM word.
#
# Oracle: FIFO of the words the link layer handed over (sink.ready high).  Every cycle the PHY transmits one word: it
# must be either the oldest queued word scrambled with the reference keystream (serial LFSR x^16+x^5+x^4+x^3+1 from
# USB 3.2 appendix B, written from the polynomial; advanced once per transmitted symbol, not for inserted SKPs, reset
# by COM), or SKP SKP SKP SKP *in place of* a queued logical-idle filler word (one handed over with can_send_skp
# high).  SKP scheduling: every transmitted word (inserted SKP words included - they are transmitted symbols) counts
# 4 symbols, every 354 symbols one more ordered set is owed (remainder carried).  A set of candidate book-keepings
# (is the start-up word counted or not) is pruned by what is observed, cf. c18: an SKP word may only appear when two
# ordered sets are owed, and once two are owed at most SLACK idle opportunities may pass unused.
from rtlmc.model import Design, Violation
from rtlmc.explore import Spec

PROPERTY = "C33"
TECHNIQUE = ("explicit-state model checking of the elaborated transmit path: per-cycle BFS to closure (Scrambler + "
             "CTCSkipInserter wired as in layer.py) plus bounded macro-step exploration of the real USB3PhysicalLayer, "
             "against a FIFO / reference-LFSR / SKP book-keeping oracle; traces replayed in amaranth.sim")

PERIOD = 354          # symbols per owed SKP ordered set  [USB3.2r1 6.4.3]
SLACK = 1             # idle opportunities that may pass unused once two ordered sets are owed
LFSR_INIT = 0xFFFF

COM, SKP, SHP, EPF, SDP, END = (0xBC, 1), (0x3C, 1), (0xFB, 1), (0xF7, 1), (0x5C, 1), (0xFD, 1)
IDL = (0x00, 0)
WORDS = {
    "I": (IDL, IDL, IDL, IDL),                            # logical idle filler, offered with can_send_skp = 1
    "z": (IDL, IDL, IDL, IDL),                            # an all-zero *data* word (can_send_skp = 0): never replaceable
    "d": ((0x11, 0), (0x22, 0), (0x33, 0), (0x44, 0)),
    "m": (SDP, (0xA5, 0), END, (0x5A, 0)),
    "k": (SHP, SHP, SHP, EPF),
    "c": (COM, COM, COM, COM),                            # start of a training set: re-seeds the scramblers
}
SKP_WORD = (0x3C3C3C3C, 0xF)


def lfsr_byte(state):
    """8 serial shifts of the Galois LFSR x^16+x^5+x^4+x^3+1; returns (key byte, LSB = first bit; new state)"""
    key = 0
    for i in range(8):
        bit = state >> 15 & 1
        key |= bit << i
        state = (state << 1 & 0xFFFF) ^ (0x39 if bit else 0)
    return key, state


def _selfcheck():
    s, out = LFSR_INIT, []
    for _ in range(8):
        k, s = lfsr_byte(s); out.append(k)
    assert out == [0xFF, 0x17, 0xC0, 0x14, 0xB2, 0xE7, 0x02, 0x82], out       # [USB3.2r1 appendix B] known answer
_selfcheck()

_scr_cache = {}


def scramble(kind, state, enable):
    """reference: transmit word `kind` with LFSR `state` -> (data, ctrl, state')"""
    key = (kind, state, enable)
    r = _scr_cache.get(key)
    if r is None:
        data = ctrl = 0
        s = state
        for i, (b, k) in enumerate(WORDS[kind]):
            if (b, k) == COM:
                s = LFSR_INIT
            else:
                kb, s = lfsr_byte(s)
                if not k and enable: b ^= kb
            data |= b << (8 * i); ctrl |= k << i
        r = _scr_cache[key] = (data, ctrl, s)
    return r


def configs(tier):
    if tier == "quick":
        return [dict(dut="replica", mode="cycle", kinds="dzc", maxrun=3, scramble=1),
                dict(dut="replica", mode="cycle", kinds="mkc", maxrun=3, scramble=1),
                dict(dut="replica", mode="cycle", kinds="dc", maxrun=10, scramble=1),
                dict(dut="replica", mode="cycle", kinds="mc", maxrun=2, scramble=0),
                dict(dut="layer", mode="macro", kinds="d", menu=[1, 3, 88], depth=8, scramble=1),
                dict(dut="layer", mode="macro", kinds="m", menu=[2, 89, 177], depth=7, scramble=1),
                dict(dut="layer", mode="macro", kinds="z", menu=[1, 87, 265], depth=7, scramble=1)]
    return [dict(dut="replica", mode="cycle", kinds="dmzkc", maxrun=16, scramble=1),
            dict(dut="replica", mode="cycle", kinds="dc", maxrun=511, scramble=1),
            dict(dut="replica", mode="cycle", kinds="dzc", maxrun=8, scramble=0),
            dict(dut="replica", mode="cycle", kinds="mzc", maxrun=8, scramble=1, max_owed=7),
            dict(dut="layer", mode="macro", kinds="d", menu=[1, 2, 3, 88, 89], depth=26, scramble=1),
            dict(dut="layer", mode="macro", kinds="m", menu=[1, 87, 177, 266], depth=24, scramble=1),
            dict(dut="layer", mode="macro", kinds="dz", menu=[1, 88, 178], depth=24, scramble=1),
            dict(dut="layer", mode="macro", kinds="k", menu=[3, 90, 264], depth=24, scramble=0)]


def make_replica():
    from amaranth import Elaboratable, Module, Signal
    from luna.gateware.usb.stream import USBRawSuperSpeedStream
    from luna.gateware.usb.usb3.physical.scrambling import Scrambler
    from luna.gateware.usb.usb3.physical.ctc import CTCSkipInserter

    class PhyStub:
        def __init__(self):
            self.tx_data = Signal(32); self.tx_datak = Signal(4)

    class TxPathReplica(Elaboratable):
        """The "Transmit output conditioning" section of USB3PhysicalLayer.elaborate, statement for statement."""
        def __init__(self):
            self.sink = USBRawSuperSpeedStream()
            self.enable_scrambling = Signal()
            self.can_send_skp = Signal()
            self.tx_electrical_idle = Signal()
            self.phy = PhyStub()

        def elaborate(self, platform):
            m = Module()
            phy = self.phy
            m.submodules.scrambler = scrambler = Scrambler(initial_value=0xffff)
            m.d.comb += [
                scrambler.enable      .eq(self.enable_scrambling),
                scrambler.sink        .stream_eq(self.sink, omit={'valid'}),
                scrambler.sink.valid  .eq(1)
            ]
            m.submodules.tx_ctc = tx_ctc = CTCSkipInserter()
            m.d.comb += [
                tx_ctc.sink           .stream_eq(scrambler.source),
                tx_ctc.can_send_skip  .eq(self.can_send_skp),
                scrambler.hold        .eq(tx_ctc.sending_skip)
            ]
            with m.If(~self.tx_electrical_idle):
                m.d.comb += [
                    phy.tx_data          .eq(tx_ctc.source.data),
                    phy.tx_datak         .eq(tx_ctc.source.ctrl),
                    tx_ctc.source.ready  .eq(1),
                ]
            return m
    return TxPathReplica()


class TxCtcSpec(Spec):
    n_validate = 6
    validate_max_cycles = 4000
    LAYER_VALIDATE = dict(quick=(3, 1200), thorough=(6, 6000))      # amaranth.sim runs the 956-cell layer at ~2 k cycles/s

    def __init__(self, cfg, tier):
        super().__init__(cfg, tier)
        self.time_budget = 150 if tier == "quick" else 840      # generous: results must not depend on machine load
        self.enable = cfg.get("scramble", 1)
        self.max_owed = cfg.get("max_owed", 4)
        self.maxrun = cfg.get("maxrun")
        kinds = list(cfg["kinds"])
        if cfg["dut"] == "layer": self.n_validate, self.validate_max_cycles = self.LAYER_VALIDATE[tier]
        if cfg["mode"] == "cycle":
            self._acts = [("I",)] + [(k,) for k in kinds]
        else:
            self._acts = [("I", n) for n in cfg["menu"]] + [(k, n) for k in kinds for n in cfg["menu"]]
            self.max_depth = cfg["depth"]
            self.max_states = 10 ** 7

    def build(self):
        if self.cfg["dut"] == "layer":
            from amaranth import DomainRenamer
            from luna.gateware.usb.usb3.physical.layer import USB3PhysicalLayer
            from luna.gateware.interface.pipe import PIPEInterface
            phy = PIPEInterface(width=4)
            d = USB3PhysicalLayer(phy=phy, sync_frequency=1e6)
            # the PHY reset controller lives in "sync": clock it from the same clock so that the design has one clock
            dut = DomainRenamer({"sync": "ss"})(d)
        else:
            d = dut = make_replica()
            phy = d.phy
        ins = dict(data=d.sink.data, ctrl=d.sink.ctrl, can=d.can_send_skp, enable=d.enable_scrambling,
                   tx_electrical_idle=d.tx_electrical_idle)
        obs = dict(ready=d.sink.ready, tx_data=phy.tx_data, tx_datak=phy.tx_datak)
        return Design(dut, ins, obs, defaults=dict(enable=self.enable))

    def assumptions(self):
        a = ["tx_electrical_idle is low and enable_scrambling constant throughout",
             "the link layer offers one word per cycle, keeps it until sink.ready is high, and raises can_send_skp exactly "
             "with its logical-idle filler words (link/layer.py: arbiter.idle)",
             "the first two cycles after reset are outside the property (sink.ready is a register that starts low; the word "
             "offered meanwhile - logical idle, the PHY is still in reset - is transmitted once more)",
             f"never more than {self.max_owed} SKP ordered sets become pending (the inserter's documented bound; its 3-bit "
             "counter wraps at 8): transitions beyond are pruned",
             f"once two ordered sets are owed, at most {SLACK} further idle filler word may pass before a SKP word is sent; "
             "an SKP word stands for two ordered sets (the implementation only inserts pairs)",
             "COM symbols only occur as whole COM COM COM COM words"]
        if self.maxrun is not None:
            a.append(f"closure bound: keystream positions 0..{self.maxrun} after a COM word (longer COM-free runs are pruned; "
                     "the free-running keystream is covered by the bounded dut=layer configurations)")
        return a

    # env = (queue of (kind) handed over but not yet transmitted, reference LFSR, words since COM, cands, held action)
    # cands = frozenset of (tag, elapsed symbols mod 354, owed sets, idle opportunities missed while two sets are owed)
    def prologue(self, cur):
        o0 = cur.step(data=0, ctrl=0, can=1)
        o1 = cur.step(data=0, ctrl=0, can=1)
        q = ("I",) if o1.ready else ()
        cands = frozenset(("A", e, 0, 0) for e in (0, 4))
        return (q, LFSR_INIT, 0, cands, None)

    def env0(self):
        raise AssertionError("prologue provides the initial environment")

    def actions(self, env):
        if env[4] is not None: return [env[4]]
        return self._acts

    def one_cycle(self, cur, env, kind):
        queue, lfsr, pos, cands, held = env
        w = WORDS[kind]
        data = ctrl = 0
        for i, (b, k) in enumerate(w):
            data |= b << (8 * i); ctrl |= k << i
        o = cur.step(data=data, ctrl=ctrl, can=1 if kind == "I" else 0)
        out = (o.tx_data, o.tx_datak)
        if queue:
            head = queue[0]
            ed, ec, lfsr2 = scramble(head, lfsr, self.enable)
            if out == (ed, ec):
                slot = "idle" if head == "I" else "data"
                lfsr = lfsr2
                pos = 0 if head == "c" else pos + 1
                if head == "c": self.cover["com_reseed"] += 1
            elif out == SKP_WORD:
                if head != "I":
                    raise Violation("skp-replaced-non-idle-word", dict(replaced=head, queue=queue))
                slot = "skp"
            else:
                # diagnose: right word, wrong keystream?
                plain_ctrl_ok = out[1] == ec and all((out[0] >> 8 * i & 0xFF) == (ed >> 8 * i & 0xFF) for i in range(4) if ec >> i & 1)
                if plain_ctrl_ok and self.enable:
                    raise Violation("scrambler-keystream-mismatch",
                                    dict(word=head, expected=hex(ed), got=hex(out[0]), reference_lfsr=hex(lfsr), words_since_com=pos))
                raise Violation("tx-stream-mismatch", dict(expected_word=head, expected=(hex(ed), ec), got=(hex(out[0]), out[1]), queue=queue))
            queue = queue[1:]
            new = set(); why = None
            for conv, el, owed, missed in cands:
                if slot == "skp":
                    if owed < 2: why = why or "skp-sent-but-not-owed"; continue
                    owed -= 2; missed = 0
                elif slot == "idle" and owed >= 2:
                    missed += 1
                    if missed > SLACK: why = "skp-owed-but-idle-not-used"; continue
                el += 4
                if el >= PERIOD: el -= PERIOD; owed += 1
                new.add((conv, el, owed, missed))
            if not new:
                raise Violation(why, dict(slot=slot, candidates=sorted(cands)))
            cands = frozenset(new)
            mo = max(c[2] for c in cands)
            if mo > self.max_owed: return None
            if slot == "skp":
                self.cover["skp_inserted"] += 1
                if pos: self.cover["skp_inserted_midstream"] += 1
            elif slot == "idle": self.cover["idle_passed"] += 1
            else:
                self.cover["data_word"] += 1
                if mo >= 2: self.cover["skp_deferred_by_data"] += 1
                if mo >= 2 and head == "z": self.cover["zero_data_word_not_replaced"] += 1
            if mo >= 3: self.cover["three_owed"] += 1
            self.outcomes.add((slot, head, mo))
            if self.maxrun is not None and pos > self.maxrun: return None
        if o.ready:
            queue = queue + (kind,); held = None
        else:
            held = kind
        if len(queue) > 2:
            raise Violation("tx-word-delayed", dict(queue=queue))
        return (queue, lfsr, pos, cands, held)

    def apply(self, cur, env, a):
        macro = len(a) == 2
        kind, n = a if macro else (a[0], 1)
        for i in range(n):
            env = self.one_cycle(cur, env[:4] + (None,), kind)
            if env is None: return None
        if env[4] is not None:          # not accepted in the last cycle: the link layer must offer that word again
            env = env[:4] + ((kind, 1) if macro else (kind,),)
        return env

    def goals(self):
        g = ["skp_inserted", "skp_inserted_midstream", "idle_passed", "data_word", "skp_deferred_by_data"]
        if "c" in self.cfg["kinds"]: g.append("com_reseed")
        if "z" in self.cfg["kinds"]: g.append("zero_data_word_not_replaced")
        return g


def make(cfg, tier):
    return TxCtcSpec(cfg, tier)
