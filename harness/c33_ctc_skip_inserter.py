# C33 - transmit CTC: Scrambler + CTCSkipInserter as wired in USB3PhysicalLayer (physical/layer.py 150-177).
# The transmitted stream equals the link layer's stream except that some logical-idle filler words are replaced by
# SKP words; data words are never replaced / dropped / reordered; the scrambler keystream does not advance over an
# inserted SKP word; SKP ordered sets are scheduled at one per 354 transmitted symbols whenever idle permits.
#
# Two kinds of DUT (same environment, same oracle, same observed signals: sink.ready, PHY tx_data, tx_datak):
#   dut="layer"   : the real USB3PhysicalLayer(phy=PIPEInterface(width=4)).  Its LFPS detectors contain free-running
#                   24/25-bit counters, so no state ever repeats: explored as a bounded tree of macro steps
#                   ("n idle words", "n data words", n around the 354-symbol period) with the LFSR running freely.
#   dut="replica" : Scrambler(initial_value=0xffff) + CTCSkipInserter with the wiring statements of layer.py copied
#                   verbatim (class TxPathReplica below - TRUSTED to equal layer.py; the "layer" configurations run
#                   the identical oracle on the real class).  Per-cycle BFS to closure over every word choice, for all
#                   354-symbol phases x owed-SKP counts x keystream positions 0..maxrun after a COM word.
#
# Oracle: FIFO of the words the link layer handed over (sink.ready high).  The latency of the transmit path is not
# fixed by the statement: it is measured once after reset (see prologue; up to MAX_EXTRA_LATENCY register stages more
# than the current implementation are accepted).  From then on, every cycle the PHY transmits one word: it
# must be either the oldest queued word scrambled with the reference keystream (serial LFSR x^16+x^5+x^4+x^3+1 from
# USB 3.2 appendix B, written from the polynomial; advanced once per transmitted symbol, not for inserted SKPs, reset
# by COM), or SKP SKP SKP SKP *in place of* a queued logical-idle filler word (one handed over with can_send_skp
# high).  SKP scheduling: every transmitted word (inserted SKP words included - they are transmitted symbols) counts
# 4 symbols, every 354 symbols one more ordered set is owed (remainder carried).  A set of candidate book-keepings
# (is the start-up word counted or not) is pruned by what is observed, cf. c18: an SKP word may only appear when two
# ordered sets are owed, and once two are owed at most SLACK idle opportunities may pass unused.
from rtlmc.model import Design, Violation
from rtlmc.explore import Spec

PROPERTY = "C33"
TECHNIQUE = ("explicit-state model checking of the elaborated transmit path: per-cycle BFS to closure (Scrambler + "
             "CTCSkipInserter wired as in layer.py) plus bounded macro-step exploration of the real USB3PhysicalLayer, "
             "against a FIFO / reference-LFSR / SKP book-keeping oracle; traces replayed in amaranth.sim")

PERIOD = 354          # symbols per owed SKP ordered set  [USB3.2r1 6.4.3]
SLACK = 2             # idle opportunities that may pass unused once two ordered sets are owed
MAX_EXTRA_LATENCY = 3 # the statement fixes no latency: up to this many further register stages between link layer and PHY
LFSR_INIT = 0xFFFF

COM, SKP, SHP, EPF, SDP, END = (0xBC, 1), (0x3C, 1), (0xFB, 1), (0xF7, 1), (0x5C, 1), (0xFD, 1)
IDL = (0x00, 0)
WORDS = {
    "I": (IDL, IDL, IDL, IDL),                            # logical idle filler, offered with can_send_skp = 1
    "z": (IDL, IDL, IDL, IDL),                            # an all-zero *data* word (can_send_skp = 0): never replaceable
    "d": ((0x11, 0), (0x22, 0), (0x33, 0), (0x44, 0)),
    "m": (SDP, (0xA5, 0), END, (0x5A, 0)),
    "k": (SHP, SHP, SHP, EPF),
    "c": (COM, COM, COM, COM),                            # start of a training set: re-seeds the scramblers
}
SKP_WORD = (0x3C3C3C3C, 0xF)


def lfsr_byte(state):
    """8 serial shifts of the Galois LFSR x^16+x^5+x^4+x^3+1; returns (key byte, LSB = first bit; new state)"""
    key = 0
    for i in range(8):
        bit = state >> 15 & 1
        key |= bit << i
        state = (state << 1 & 0xFFFF) ^ (0x39 if bit else 0)
    return key, state


def _selfcheck():
    s, out = LFSR_INIT, []
    for _ in range(8):
        k, s = lfsr_byte(s); out.append(k)
    assert out == [0xFF, 0x17, 0xC0, 0x14, 0xB2, 0xE7, 0x02, 0x82], out       # [USB3.2r1 appendix B] known answer
_selfcheck()

_scr_cache = {}


def scramble(kind, state, enable):
    """reference: transmit word `kind` with LFSR `state` -> (data, ctrl, state')"""
    key = (kind, state, enable)
    r = _scr_cache.get(key)
    if r is None:
        data = ctrl = 0
        s = state
        for i, (b, k) in enumerate(WORDS[kind]):
            if (b, k) == COM:
                s = LFSR_INIT
            else:
                kb, s = lfsr_byte(s)
                if not k and enable: b ^= kb
            data |= b << (8 * i); ctrl |= k << i
        r = _scr_cache[key] = (data, ctrl, s)
    return r


def configs(tier):
    if tier == "quick":
        return [dict(dut="replica", mode="cycle", kinds="dzc", maxrun=3, scramble=1),
                dict(dut="replica", mode="cycle", kinds="mkc", maxrun=3, scramble=1),
                dict(dut="replica", mode="cycle", kinds="dc", maxrun=10, scramble=1),
                dict(dut="replica", mode="cycle", kinds="mc", maxrun=3, scramble=0),
                dict(dut="layer", mode="macro", kinds="d", menu=[1, 3, 88], depth=8, scramble=1),
                dict(dut="layer", mode="macro", kinds="m", menu=[2, 89, 177], depth=7, scramble=1),
                dict(dut="layer", mode="macro", kinds="z", menu=[1, 87, 265], depth=7, scramble=1)]
    return [dict(dut="replica", mode="cycle", kinds="dmzkc", maxrun=16, scramble=1),
            dict(dut="replica", mode="cycle", kinds="dc", maxrun=511, scramble=1),
            dict(dut="replica", mode="cycle", kinds="dzc", maxrun=8, scramble=0),
            dict(dut="replica", mode="cycle", kinds="mzc", maxrun=8, scramble=1, max_owed=7),
            dict(dut="layer", mode="macro", kinds="d", menu=[1, 2, 3, 88, 89], depth=26, scramble=1),
            dict(dut="layer", mode="macro", kinds="m", menu=[1, 87, 177, 266], depth=24, scramble=1),
            dict(dut="layer", mode="macro", kinds="dz", menu=[1, 88, 178], depth=24, scramble=1),
            dict(dut="layer", mode="macro", kinds="k", menu=[3, 90, 264], depth=24, scramble=0)]


def make_replica():
    from amaranth import Elaboratable, Module, Signal
    from luna.gateware.usb.stream import USBRawSuperSpeedStream
    from luna.gateware.usb.usb3.physical.scrambling import Scrambler
    from luna.gateware.usb.usb3.physical.ctc import CTCSkipInserter

    class PhyStub:
        def __init__(self):
            self.tx_data = Signal(32); self.tx_datak = Signal(4)

    class TxPathReplica(Elaboratable):
        """The "Transmit output conditioning" section of USB3PhysicalLayer.elaborate, statement for statement."""
        def __init__(self):
            self.sink = USBRawSuperSpeedStream()
            self.enable_scrambling = Signal()
            self.can_send_skp = Signal()
            self.tx_electrical_idle = Signal()
            self.phy = PhyStub()

        def elaborate(self, platform):
            m = Module()
            phy = self.phy
            m.submodules.scrambler = scrambler = Scrambler(initial_value=0xffff)
            m.d.comb += [
                scrambler.enable      .eq(self.enable_scrambling),
                scrambler.sink        .stream_eq(self.sink, omit={'valid'}),
                scrambler.sink.valid  .eq(1)
            ]
            m.submodules.tx_ctc = tx_ctc = CTCSkipInserter()
            m.d.comb += [
                tx_ctc.sink           .stream_eq(scrambler.source),
                tx_ctc.can_send_skip  .eq(self.can_send_skp),
                scrambler.hold        .eq(tx_ctc.sending_skip)
            ]
            with m.If(~self.tx_electrical_idle):
                m.d.comb += [
                    phy.tx_data          .eq(tx_ctc.source.data),
                    phy.tx_datak         .eq(tx_ctc.source.ctrl),
                    tx_ctc.source.ready  .eq(1),
                ]
            return m
    return TxPathReplica()


class TxCtcSpec(Spec):
    n_validate = 6
    validate_max_cycles = 4000
    LAYER_VALIDATE = dict(quick=(3, 1200), thorough=(6, 6000))      # amaranth.sim runs the 956-cell layer at ~2 k cycles/s

    def __init__(self, cfg, tier):
        super().__init__(cfg, tier)
        self.time_budget = 150 if tier == "quick" else 840      # generous: results must not depend on machine load
        self.enable = cfg.get("scramble", 1)
        self.max_owed = cfg.get("max_owed", 4)
        self.maxrun = cfg.get("maxrun")
        kinds = list(cfg["kinds"])
        if cfg["dut"] == "layer": self.n_validate, self.validate_max_cycles = self.LAYER_VALIDATE[tier]
        if cfg["mode"] == "cycle":
            self._acts = [("I",)] + [(k,) for k in kinds]
        else:
            self._acts = [("I", n) for n in cfg["menu"]] + [(k, n) for k in kinds for n in cfg["menu"]]
            self.max_depth = cfg["depth"]
            self.max_states = 10 ** 7

    def build(self):
        if self.cfg["dut"] == "layer":
            from amaranth import DomainRenamer
            from luna.gateware.usb.usb3.physical.layer import USB3PhysicalLayer
            from luna.gateware.interface.pipe import PIPEInterface
            phy = PIPEInterface(width=4)
            d = USB3PhysicalLayer(phy=phy, sync_frequency=1e6)
            # the PHY reset controller lives in "sync": clock it from the same clock so that the design has one clock
            dut = DomainRenamer({"sync": "ss"})(d)
        else:
            d = dut = make_replica()
            phy = d.phy
        ins = dict(data=d.sink.data, ctrl=d.sink.ctrl, can=d.can_send_skp, enable=d.enable_scrambling,
                   tx_electrical_idle=d.tx_electrical_idle)
        obs = dict(ready=d.sink.ready, tx_data=phy.tx_data, tx_datak=phy.tx_datak)
        return Design(dut, ins, obs, defaults=dict(enable=self.enable))

    def assumptions(self):
        a = ["tx_electrical_idle is low and enable_scrambling constant throughout",
             "the link layer offers one word per cycle, keeps it until sink.ready is high, and raises can_send_skp exactly "
             "with its logical-idle filler words (link/layer.py: arbiter.idle)",
             "start-up is outside the property: the link layer idles for one cycle after reset, then sends COM COM COM COM and "
             "logical idle; whatever the PHY transmits before that COM word comes out (sink.ready starts low; the logical idle "
             "offered meanwhile is transmitted once more) is not checked, and the latency measured there (up to "
             f"{MAX_EXTRA_LATENCY} register stages more than today's) is taken as the pipeline depth",
             f"never more than {self.max_owed} SKP ordered sets become pending (the inserter's documented bound; its 3-bit "
             "counter wraps at 8): transitions beyond are pruned",
             f"once two ordered sets are owed, at most {SLACK} further idle filler word may pass before a SKP word is sent; "
             "an SKP word stands for two ordered sets (the implementation only inserts pairs)",
             "COM symbols only occur as whole COM COM COM COM words"]
        if self.maxrun is not None:
            a.append(f"closure bound: at most {self.maxrun} words are handed over between two COM words, i.e. keystream positions "
                     f"0..{self.maxrun} (longer COM-free runs are pruned; "
                     "the free-running keystream is covered by the bounded dut=layer configurations)")
        return a

    # env = (queue of words handed over but not yet transmitted, reference LFSR, words handed over since the last COM word,
    #        book, held action)
    #   book = frozenset of (tag, elapsed symbols mod 354, owed sets, idle opportunities missed while two sets are owed)
    # The statement fixes no latency between link layer and PHY, so the prologue *measures* it: it hands over COM COM COM COM
    # followed by logical idle and waits until "COM word, then the first scrambled idle word" shows up on the PHY (words the
    # implementation transmits before that - reset values, repeats of not-yet-accepted words - are start-up garbage).
    # From then on every transmit slot is accounted for.
    def prologue(self, cur):
        def offer(kind):
            w = WORDS[kind]
            data = sum(b << 8 * i for i, (b, k) in enumerate(w)); ctrl = sum(k << i for i, (b, k) in enumerate(w))
            o = cur.step(data=data, ctrl=ctrl, can=1 if kind == "I" else 0)
            return o.ready, (o.tx_data, o.tx_datak)
        offer("I")                                            # cycle 0: the PHY is still in reset, the link idles
        com = scramble("c", LFSR_INIT, self.enable)
        idle = scramble("I", LFSR_INIT, self.enable)
        todo, accepted, prev = ["c"], [], None
        for t in range(MAX_EXTRA_LATENCY + 8):
            kind = todo[0] if todo else "I"
            ready, out = offer(kind)
            found = "c" in accepted and "I" in accepted[1:] + [None] and prev == com[:2] and out == idle[:2]
            if ready:
                accepted.append(kind); todo = todo[1:]
            if found:
                book = frozenset(("A", e, 0, 0) for e in (8, 12))
                return (tuple(accepted[2:]), idle[2], len(accepted) - 1, book, None if ready else (kind,) if self.cfg["mode"] == "cycle" else (kind, 1))
            prev = out
        return ("calibration-failed", tuple(accepted))

    def env0(self):
        raise AssertionError("prologue provides the initial environment")

    def actions(self, env):
        if env[0] == "calibration-failed": return self._acts[:1]
        if env[4] is not None: return [env[4]]
        return self._acts

    def advance(self, hyp, out, events):
        """one transmit slot under one hypothesis -> new hypothesis, or (rule, detail) if the slot contradicts it"""
        queue, lfsr, run, book = hyp
        if not queue:
            return hyp                                    # nothing handed over yet: the slot is unconstrained
        head = queue[0]
        ed, ec, lfsr2 = scramble(head, lfsr, self.enable)
        if out == (ed, ec):
            slot = "idle" if head == "I" else "data"
            lfsr = lfsr2
            if head == "c": events.append("com_reseed")
        elif out == SKP_WORD:
            if head != "I":
                return ("skp-replaced-non-idle-word", dict(replaced=head, queue=queue))
            slot = "skp"
        else:
            # diagnose: right word, wrong keystream?
            plain_ctrl_ok = out[1] == ec and all((out[0] >> 8 * i & 0xFF) == (ed >> 8 * i & 0xFF) for i in range(4) if ec >> i & 1)
            if plain_ctrl_ok and self.enable:
                return ("scrambler-keystream-mismatch",
                        dict(word=head, expected=hex(ed), got=hex(out[0]), reference_lfsr=hex(lfsr)))
            return ("tx-stream-mismatch", dict(expected_word=head, expected=(hex(ed), ec), got=(hex(out[0]), out[1]), queue=queue))
        queue = queue[1:]
        new = set(); why = None
        for tag, el, owed, missed in book:
            if slot == "skp":
                if owed < 2: why = why or "skp-sent-but-not-owed"; continue
                owed -= 2; missed = 0
            elif slot == "idle" and owed >= 2:
                missed += 1
                if missed > SLACK: why = "skp-owed-but-idle-not-used"; continue
            el += 4
            if el >= PERIOD: el -= PERIOD; owed += 1
            new.add((tag, el, owed, missed))
        if not new:
            return (why, dict(slot=slot, book=sorted(book)))
        mo = max(c[2] for c in new)
        if slot == "skp":
            events.append("skp_inserted")
            if lfsr != LFSR_INIT: events.append("skp_inserted_midstream")
        elif slot == "idle": events.append("idle_passed")
        else:
            events.append("data_word")
            if mo >= 2: events.append("skp_deferred_by_data")
            if mo >= 2 and head == "z": events.append("zero_data_word_not_replaced")
        if mo >= 3: events.append("three_owed")
        self.outcomes.add((slot, head, mo))
        return (queue, lfsr, run, frozenset(new))

    def one_cycle(self, cur, env, kind):
        if env[0] == "calibration-failed":
            raise Violation("tx-stream-mismatch", dict(note="COM word followed by scrambled logical idle never appeared on the PHY after reset",
                                                       handed_over=env[1]))
        held = env[4]
        w = WORDS[kind]
        data = ctrl = 0
        for i, (b, k) in enumerate(w):
            data |= b << (8 * i); ctrl |= k << i
        o = cur.step(data=data, ctrl=ctrl, can=1 if kind == "I" else 0)
        events = []
        r = self.advance(env[:4], (o.tx_data, o.tx_datak), events)
        if len(r) == 2: raise Violation(r[0], r[1])
        queue, lfsr, run, book = r
        if o.ready:
            queue = queue + (kind,)
            run = 0 if kind == "c" else run + 1
        if len(queue) > MAX_EXTRA_LATENCY + 2:
            raise Violation("tx-word-delayed", dict(queue=queue))
        for e in events: self.cover[e] += 1
        # environment bounds (see assumptions): pending SKP sets, COM-free run length
        if max(c[2] for c in book) > self.max_owed: return None
        if self.maxrun is not None and run > self.maxrun: return None
        return (queue, lfsr, run, book, None if o.ready else kind)

    def apply(self, cur, env, a):
        macro = len(a) == 2
        kind, n = a if macro else (a[0], 1)
        for i in range(n):
            env = self.one_cycle(cur, env[:4] + (None,) if env[0] != "calibration-failed" else env, kind)
            if env is None: return None
        if env[4] is not None:          # not accepted in the last cycle: the link layer must offer that word again
            env = env[:4] + ((kind, 1) if macro else (kind,),)
        return env

    def goals(self):
        g = ["skp_inserted", "skp_inserted_midstream", "idle_passed", "data_word", "skp_deferred_by_data"]
        if "c" in self.cfg["kinds"]: g.append("com_reseed")
        if "z" in self.cfg["kinds"]: g.append("zero_data_word_not_replaced")
        return g


def make(cfg, tier):
    return TxCtcSpec(cfg, tier)
