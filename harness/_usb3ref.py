# USB 3.2 link-layer reference encoders used as oracles by the C35 / C36 / C43 harnesses.
#
# Everything here is written from the specification (USB 3.2 r1.0 ch. 6.4 / 7.2), bit-serially, and is independent of
# the gateware in /repo:
#   * K symbols (table 6-2): SKP K28.1, SDP K28.2, EDB K28.3, SUB K28.4, COM K28.5, SHP K27.7, END K29.7, SLC K30.7,
#     EPF K23.7 (byte value = y << 5 | x).
#   * words: 4 symbols per 32-bit word, symbol 0 (first on the wire) in bits 7:0; ctrl bit i flags symbol i as K.
#   * CRC-5  (7.2.2.1 link command word / 7.2.1.1.3 link control word): G = x^5+x^2+1, preset all ones, the 11
#     protected bits enter LSb first, remainder complemented, highest order remainder bit in the lowest field bit.
#   * CRC-16 (7.2.1.1.2 header): G = x^16+x^12+x^3+x+1 (0x100B), preset ones, 12 bytes LSb first, complemented.
#   * CRC-32 (7.2.1.2.1 payload): G = 0x04C11DB7, preset ones, bytes LSb first, complemented (the IEEE 802.3 CRC).
# calibrate() checks the encoders against every vector recorded in /repo/tests/test_usb3_*.py (and zlib for CRC-32);
# harnesses call it before using the encoders as oracles.
import struct, zlib
from rtlmc.model import MachineryError


def K(x, y): return (y << 5) | x
def D(x, y): return (y << 5) | x

SKP, SDP, EDB, SUB, COM = K(28, 1), K(28, 2), K(28, 3), K(28, 4), K(28, 5)
SHP, END, SLC, EPF = K(27, 7), K(29, 7), K(30, 7), K(23, 7)


def word(symbols):
    """symbols: 4 x (byte, is_k) -> (data, ctrl)"""
    data = ctrl = 0
    for i, (b, k) in enumerate(symbols):
        data |= (b & 0xFF) << (8 * i)
        ctrl |= (1 if k else 0) << i
    return data, ctrl


def kword(*syms):
    return word([(s, 1) for s in syms])


LCSTART = kword(SLC, SLC, SLC, EPF)
HPSTART = kword(SHP, SHP, SHP, EPF)
DPPSTART = kword(SDP, SDP, SDP, EPF)
DPPEND = kword(END, END, END, EPF)
DPPABORT = kword(EDB, EDB, EDB, EPF)


# ------------------------------------------------------------------------------------------------ CRCs (bit-serial)
def _crc_serial(reg, value, nbits, poly, w):
    m = (1 << w) - 1
    for i in range(nbits):
        fb = ((value >> i) & 1) ^ ((reg >> (w - 1)) & 1)
        reg = (reg << 1) & m
        if fb: reg ^= poly
    return reg


def _field(reg, w):
    reg ^= (1 << w) - 1
    r = 0
    for i in range(w):
        if (reg >> i) & 1: r |= 1 << (w - 1 - i)
    return r


def crc5(bits11):
    return _field(_crc_serial(0x1F, bits11 & 0x7FF, 11, 0b00101, 5), 5)


def crc16(data):
    r = 0xFFFF
    for b in data: r = _crc_serial(r, b, 8, 0x100B, 16)
    return _field(r, 16)


def crc32(data):
    r = 0xFFFFFFFF
    for b in data: r = _crc_serial(r, b, 8, 0x04C11DB7, 32)
    return _field(r, 32)


# ------------------------------------------------------------------------------------------------ link commands
def link_command_word(command, subtype, reserved=0):
    """16-bit link command word: subtype 3:0, reserved 6:4, type 8:7 / class 10:9 (= 4-bit command), CRC-5 15:11"""
    info = (subtype & 0xF) | ((reserved & 7) << 4) | ((command & 0xF) << 7)
    return info | (crc5(info) << 11)


def link_command_words(command, subtype):
    w = link_command_word(command, subtype)
    return [LCSTART, (w | (w << 16), 0)]


def parse_link_command_word(w16):
    """-> (crc_ok, command, subtype, reserved)"""
    info = w16 & 0x7FF
    return (w16 >> 11) == crc5(info), (info >> 7) & 0xF, info & 0xF, (info >> 4) & 7


# ------------------------------------------------------------------------------------------------ header / data packets
DATA_TYPE = 0b01000


def link_control_word(seq, rsvd, hub, delayed, deferred):
    lcw = (seq & 7) | ((rsvd & 7) << 3) | ((hub & 7) << 6) | ((delayed & 1) << 9) | ((deferred & 1) << 10)
    return lcw | (crc5(lcw) << 11)


def header_words(dw0, dw1, dw2, seq=0, rsvd=0, hub=0, delayed=0, deferred=0):
    """the five words of a header packet as (data, ctrl)"""
    c16 = crc16(struct.pack("<III", dw0, dw1, dw2))
    dw3 = c16 | (link_control_word(seq, rsvd, hub, delayed, deferred) << 16)
    return [HPSTART, (dw0, 0), (dw1, 0), (dw2, 0), (dw3, 0)]


def symbols_to_words(symbols, pad=(0x00, 0)):
    symbols = list(symbols)
    while len(symbols) % 4: symbols.append(pad)
    return [word(symbols[i:i + 4]) for i in range(0, len(symbols), 4)]


def dpp_symbols(payload):
    c = crc32(payload)
    return ([(SDP, 1)] * 3 + [(EPF, 1)] + [(b, 0) for b in payload] + [((c >> (8 * i)) & 0xFF, 0) for i in range(4)]
            + [(END, 1)] * 3 + [(EPF, 1)])


def dpp_words(payload):
    """DPP as on the wire: DPPSTART, payload, CRC-32 immediately after the last byte, END END END EPF immediately after
    the CRC; what remains of the last word is logical idle (D0.0)."""
    return symbols_to_words(dpp_symbols(payload))


def dpp_words_padded(payload):
    """the other reading of the property statement: END symbols pad the CRC's word, then a whole END END END EPF word"""
    c = crc32(payload)
    syms = [(SDP, 1)] * 3 + [(EPF, 1)] + [(b, 0) for b in payload] + [((c >> (8 * i)) & 0xFF, 0) for i in range(4)]
    while len(syms) % 4: syms.append((END, 1))
    syms += [(END, 1)] * 3 + [(EPF, 1)]
    return symbols_to_words(syms)


def dpp_abort_words():
    return [DPPSTART, DPPABORT]


# ------------------------------------------------------------------------------------------------ training ordered sets
def ts_words(kind, config=0):
    """TS1 / TS2 (table 6-? : COM x4, reserved, link functionality, identifier x10), TSEQ (table 6-3), as 32-bit words.
    config = link functionality symbol (bit0 hot reset, bit2 loopback, bit3 disable scrambling)."""
    if kind == "TSEQ":
        syms = [(COM, 1), (0xFF, 0), (0x17, 0), (0xC0, 0), (0x14, 0), (0xB2, 0), (0xE7, 0), (0x02, 0), (0x82, 0), (0x72, 0),
                (0x6E, 0), (0x28, 0), (0xA6, 0), (0xBE, 0), (0x6D, 0), (0xBF, 0)] + [(D(10, 2), 0)] * 16
    else:
        ident = {"TS1": D(10, 2), "TS2": D(5, 2), "ITS1": D(10, 2) ^ 0xFF}[kind]
        syms = [(COM, 1)] * 4 + [(0x00, 0), (config, 0)] + [(ident, 0)] * 10
    return symbols_to_words(syms)


# ------------------------------------------------------------------------------------------------ calibration
_calibrated = False


def calibrate():
    global _calibrated
    if _calibrated: return
    bad = []
    def chk(name, got, want):
        if got != want: bad.append(f"{name}: reference {got!r} != recorded {want!r}")
    # tests/test_usb3_receiver.py / test_usb3_data.py: recorded header packets
    recorded = [((0x00000280, 0x00010004, 0x00000000), 0x10001845), ((0x32000008, 0x00010000, 0x08000000), 0xE801A822),
                ((0x34000008, 0x00020000, 0x08000000), 0xD005A242), ((0x00000008, 0x00088000, 0x08000000), 0xA8023E0F)]
    for dws, last in recorded:
        lcw = last >> 16
        ws = header_words(*dws, seq=lcw & 7, rsvd=(lcw >> 3) & 7, hub=(lcw >> 6) & 7, delayed=(lcw >> 9) & 1, deferred=(lcw >> 10) & 1)
        chk("header packet", ws, [(0xF7FBFBFB, 0b1111), (dws[0], 0), (dws[1], 0), (dws[2], 0), (last, 0)])
    # tests/test_usb3_data.py: recorded data packet payloads (the recordings stop before EPF of the unaligned ones)
    chk("dpp 1B", dpp_words(bytes([0xFF]))[:3], [(0xF75C5C5C, 0b1111), (0x000000FF, 0), (0xFDFDFDFF, 0b1110)])
    chk("dpp 1B tail", dpp_words(bytes([0xFF]))[3:], [(0x000000F7, 0b0001)])
    chk("dpp 2B", dpp_words(bytes([0xAA, 0xBB]))[:3], [(0xF75C5C5C, 0b1111), (0x2C98BBAA, 0), (0xFDFD4982, 0b1100)])
    chk("dpp 8B", dpp_words(struct.pack("<II", 0x001E0500, 0)),
        [(0xF75C5C5C, 0b1111), (0x001E0500, 0), (0, 0), (0x0EC69325, 0), (0xF7FDFDFD, 0b1111)])
    # tests/test_usb3_crc.py
    chk("crc32 unaligned", crc32(struct.pack("<IIII", 0x03000112, 0x09000000, 0x520013FE, 0x02010100) + bytes([3, 1])), 0x540AA487)
    chk("crc32 aligned", crc32(struct.pack("<I", 0x02000112)), 0x34984B13)
    for bs in (b"", b"\x00", b"\xff" * 5, bytes(range(9)), bytes(range(200, 213))):
        chk("crc32 vs zlib", crc32(bs), zlib.crc32(bs))
    # link command word: same CRC-5 as the link control word (recorded above); structure per 7.2.2.1
    chk("LGOOD_0", link_command_word(0, 0), 0x1000)         # info 0 -> same CRC-5 as the all-zero link control word above
    chk("lcw crc5 of 1", link_command_word(0, 1) >> 11, 0xE801 >> 11)
    chk("lcw crc5 of 5", link_command_word(0, 5) >> 11, 0xD005 >> 11)
    chk("lcw crc5 of 2", link_command_word(0, 2) >> 11, 0xA802 >> 11)
    # ordered sets against the symbol tables of the specification as recorded in the repository's constants is NOT a
    # calibration source (those constants are part of the code under test); the encoders above are from table 6-3..6-6.
    if bad: raise MachineryError("USB3 reference encoders do not reproduce the recorded vectors: " + "; ".join(bad))
    _calibrated = True
