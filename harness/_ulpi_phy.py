# Shared environment for the ULPI properties C22/C23/C24: UTMITranslator on a nondeterministic ULPI 1.1 PHY.
#
# One BFS action = one 60 MHz clock cycle = (PHY choice, UTMI transmitter choice, control-input choice).
#
# PHY model (written from the ULPI 1.1 specification, PHY side; all PHY outputs are registered, i.e. DIR/NXT/DATA of
# cycle t only depend on what the link drove up to cycle t-1 and on the PHY's own free choices):
#   mode I   bus idle, DIR low.  `pend` = the link drove a non-zero (command) byte in the previous cycle.  With pend the
#            PHY may accept it (NXT), stall (NXT low) or take the bus (DIR rise = abort of the command).
#   mode T   transmit command accepted: every cycle NXT is free; NXT high consumes the byte on the bus; a cycle with
#            STP ends the packet (its data byte is the status: 0xFF = forced error).
#   mode WD  register write command accepted, waiting for the data byte (NXT free, DIR rise = abort, write not done).
#   mode WS  data byte accepted: the link has to assert STP in exactly this cycle; the register is then written.
#   mode R   DIR high.  The cycle in which DIR rises is the turn-around (DATA = poison, NXT high = receive start/RxActive);
#            afterwards every cycle is an RX CMD (NXT low) or - only while RxActive - a data byte (NXT high); "end" drops
#            DIR (turn-around, poison on DATA), allowed after at least one payload cycle.
# Register reads cannot be requested through UTMITranslator (read_request is tied low); a read command on the bus is
# reported as a link protocol error.
from rtlmc.model import Design, Violation
from rtlmc.explore import Spec

POISON = 0x9B          # driven on DATA during turn-around cycles (decodes as RxActive, SE1, so swallowing it is visible)

CONTROL_DEFAULTS = dict(xcvr_select=1, term_select=0, op_mode=0, suspend=0, id_pullup=0, dp_pulldown=1, dm_pulldown=1,
                        chrg_vbus=0, dischrg_vbus=0, use_external_vbus_indicator=0)
REG_FC, REG_OTG = 0x04, 0x0A
PHY_RESET_REGS = (0x41, 0x06)       # ULPI 1.1 reset values of Function Control / OTG Control


def fc_value(s):
    """ULPI 1.1 Function Control: XcvrSelect[1:0] TermSelect[2] OpMode[4:3] Reset[5] SuspendM[6]"""
    return (s["xcvr_select"] & 3) | (s["term_select"] & 1) << 2 | (s["op_mode"] & 3) << 3 | (0 if s["suspend"] else 1) << 6


def otg_value(s):
    """ULPI 1.1 OTG Control: IdPullup DpPulldown DmPulldown DischrgVbus ChrgVbus DrvVbus DrvVbusExternal UseExternalVbusIndicator"""
    return (s["id_pullup"] & 1) | (s["dp_pulldown"] & 1) << 1 | (s["dm_pulldown"] & 1) << 2 | (s["dischrg_vbus"] & 1) << 3 | \
           (s["chrg_vbus"] & 1) << 4 | (s["use_external_vbus_indicator"] & 1) << 7


def build_translator():
    from amaranth import Record
    from luna.gateware.interface.ulpi import UTMITranslator
    ulpi = Record([("dir", [("i", 1)]), ("nxt", [("i", 1)]), ("data", [("i", 8), ("o", 8), ("oe", 1)]), ("stp", [("o", 1)])])
    d = UTMITranslator(ulpi=ulpi, handle_clocking=False)
    ins = dict(dir=ulpi.dir.i, nxt=ulpi.nxt.i, data_i=ulpi.data.i, tx_data=d.tx_data, tx_valid=d.tx_valid)
    for n in CONTROL_DEFAULTS: ins[n] = getattr(d, n)
    obs = dict(data_o=ulpi.data.o, oe=ulpi.data.oe, stp=ulpi.stp.o, tx_ready=d.tx_ready, rx_data=d.rx_data, rx_valid=d.rx_valid,
               rx_active=d.rx_active, line_state=d.line_state, vbus_valid=d.vbus_valid, session_end=d.session_end, busy=d.busy)
    return Design(d, ins, obs, dict(CONTROL_DEFAULTS))


# ---------------------------------------------------------------------------------------------- PHY
# state p = (mode, a, b, rxact, fc, otg)
#   I : a = pend, b = pending command byte        T : a = b = 0
#   WD: a = addr                                  WS: a = addr, b = value
#   R : a = 1 once a payload cycle happened, b = 1 if this DIR phase aborted a link register command
PHY0 = ("I", 0, 0, 0) + PHY_RESET_REGS


class Phy:
    def __init__(self, rxcmds=(), rxbytes=(), rise0=False, rise1=False, stall=True):
        self.rxcmds, self.rxbytes = tuple(rxcmds), tuple(rxbytes)
        self.rise0, self.rise1, self.stall = rise0 and bool(rxcmds), rise1, stall
        self._rises = (["rise0"] if self.rise0 else []) + (["rise1"] if self.rise1 else [])
        self._cmds = [("cmd", v) for v in self.rxcmds]
        self._dats = [("dat", b) for b in self.rxbytes]

    def choices(self, p, rises_ok=True):
        mode = p[0]
        rises = self._rises if rises_ok else []
        if mode == "I":
            if p[1]: return ["nxt"] + (["idle"] if self.stall else []) + rises
            return ["idle"] + rises
        if mode == "T": return ["nxt", "idle"] if self.stall else ["nxt"]
        if mode == "WD": return ["nxt"] + (["idle"] if self.stall else []) + rises
        if mode == "WS": return ["idle"]
        out = list(self._cmds) if self._cmds else [("cmd", 0x0D)]
        if p[3]: out += self._dats
        if p[1]: out.append("end")
        return out

    def benign(self, p):
        mode = p[0]
        if mode == "I": return "nxt" if p[1] else "idle"
        if mode in ("T", "WD"): return "nxt"
        if mode == "WS": return "idle"
        return "end" if p[1] else ("cmd", self.rxcmds[0] if self.rxcmds else 0x0D)

    @staticmethod
    def outputs(ch):
        """-> (dir, nxt, data_i)"""
        if ch == "idle": return 0, 0, 0
        if ch == "nxt": return 0, 1, 0
        if ch == "rise0": return 1, 0, POISON
        if ch == "rise1": return 1, 1, POISON
        if ch == "end": return 0, 0, POISON
        return 1, (1 if ch[0] == "dat" else 0), ch[1]

    @staticmethod
    def update(p, ch, data_o, stp):
        """PHY state after a cycle in which it made choice `ch` and saw the link drive data_o/stp.
        Returns (p', events).  events: ("txcmd",b) ("txbyte",b) ("txstp",b) ("regcmd",addr) ("regdata",addr,v)
        ("regwrite",addr,v) ("abort",what) ("rise",nxt) ("rxcmd",v) ("rxbyte",b) ("end",) ("proto",rule,detail)"""
        mode, a, b, rxact, fc, otg = p
        ev = []
        if ch == "rise0" or ch == "rise1":
            regint = 0
            if mode == "WD" or (mode == "I" and a and (b >> 6) == 2):
                regint = 1
            if mode == "WD" or (mode == "I" and a):
                ev.append(("abort", "reg" if regint else "tx"))
            nx = 1 if ch == "rise1" else 0
            ev.append(("rise", nx))
            return ("R", 0, regint, nx, fc, otg), ev
        if mode == "R":
            if stp: ev.append(("proto", "stp-outside-transaction", "STP while DIR is high"))
            if ch == "end":
                ev.append(("end",))
                return ("I", 0, 0, 0, fc, otg), ev
            if ch[0] == "cmd":
                ev.append(("rxcmd", ch[1]))
                return ("R", 1, b, 1 if (ch[1] >> 4) & 1 else 0, fc, otg), ev
            ev.append(("rxbyte", ch[1]))
            return ("R", 1, b, rxact, fc, otg), ev
        if mode == "I":
            if stp: ev.append(("proto", "stp-outside-transaction", "STP on an idle bus"))
            if ch == "nxt":          # only offered with pend
                kind = data_o >> 6
                if data_o != b:
                    ev.append(("proto", "cmd-changed-before-accept", dict(was=b, now=data_o)))
                if kind == 1:
                    ev.append(("txcmd", data_o))
                    return ("T", 0, 0, 0, fc, otg), ev
                if kind == 2:
                    ev.append(("regcmd", data_o & 0x3F))
                    return ("WD", data_o & 0x3F, 0, 0, fc, otg), ev
                if kind == 3:
                    ev.append(("proto", "unexpected-register-read", dict(cmd=data_o)))
                else:
                    ev.append(("proto", "cmd-withdrawn", dict(was=b, now=data_o)))
                return ("I", 0, 0, 0, fc, otg), ev
            if a and data_o != b:
                ev.append(("proto", "cmd-changed-before-accept", dict(was=b, now=data_o)))
            if data_o: return ("I", 1, data_o, 0, fc, otg), ev
            return ("I", 0, 0, 0, fc, otg), ev
        if mode == "T":
            if stp:
                ev.append(("txstp", data_o))
                return ("I", 0, 0, 0, fc, otg), ev
            if ch == "nxt": ev.append(("txbyte", data_o))
            return p, ev
        if mode == "WD":
            if stp: ev.append(("proto", "stp-outside-transaction", "STP before the register data was accepted"))
            if ch == "nxt":
                ev.append(("regdata", a, data_o))
                return ("WS", a, data_o, 0, fc, otg), ev
            return p, ev
        # WS
        if not stp:
            ev.append(("proto", "regwrite-stp-missing", dict(addr=a, value=b)))
            return ("I", 0, 0, 0, fc, otg), ev
        ev.append(("regwrite", a, b))
        if a == REG_FC: fc = b
        elif a == REG_OTG: otg = b
        return ("I", 0, 0, 0, fc, otg), ev


# ---------------------------------------------------------------------------------------------- Spec
RX_LAT = 4          # cycles the UTMI side may lag behind the ULPI bus (the statement fixes no latency; the design has 1-2)
QUIET = 8           # idle-bus cycles with PHY registers == request after which older requested values are forgotten
TX_PROTO = ("cmd-changed-before-accept", "cmd-withdrawn", "stp-outside-transaction", "unexpected-register-read")


def _age(hist, cur):
    """hist: ((value, age), ...) sorted by age, age 0 = the reference value of the previous cycle.  Returns the history after a
    cycle whose reference value is `cur`; values not seen as reference for more than RX_LAT cycles are forgotten."""
    out = [(cur, 0)]
    for v, a in hist:
        if v != cur and a < RX_LAT: out.append((v, a + 1))
    return tuple(out)


def decode_flags(v):
    return (v & 3, 1 if (v >> 2) & 3 == 3 else 0, 1 if (v >> 2) & 3 == 0 else 0)


class UlpiSpec(Spec):
    """cfg keys: checks (subset of rx/tx/reg), ctrl (list of override dicts; index 0 is applied from reset),
    packets (list of byte lists), phy (kwargs of Phy), budgets dict(rises=, ctrl=, packets=) (None = unlimited),
    converge (lookahead horizon in cycles, 0 = off), stable (cycles the converged condition must have held)."""
    n_validate = 8

    def __init__(self, cfg, tier):
        super().__init__(cfg, tier)
        self.checks = set(cfg["checks"])
        self.ctrl = [dict(CONTROL_DEFAULTS, **c) for c in cfg.get("ctrl", [{}])]
        self.req = [(fc_value(c), otg_value(c)) for c in self.ctrl]
        self.mode2 = [c["op_mode"] == 2 for c in self.ctrl]
        self.packets = [tuple(p) for p in cfg.get("packets", [])]
        self.phy = Phy(**cfg.get("phy", {}))
        b = cfg.get("budgets", {})
        self.bud0 = (b.get("rises"), b.get("ctrl"), b.get("packets"))
        self.converge = cfg.get("converge", 0)
        self.stable = cfg.get("stable", 8)
        self._memo = {}
        self.time_budget = cfg.get("time_budget", 200 if tier == "quick" else 850)      # wall-clock safety net only; all configurations close well before
        if "max_states" in cfg: self.max_states = cfg["max_states"]

    # env = (p, u, c, bud, rxm, txm, regm)
    #   u    None | (packet index, byte index)
    #   rxm  (queue of (byte, age), reference flag history, reference RxActive history (see _age), register-write-outstanding tag countdown)
    #   txm  1 if STP is due in the coming cycle
    #   regm (S_fc, S_otg, quiet)
    def build(self):
        return build_translator()

    def env0(self):
        r = self.req[0]
        return (PHY0, None, 0, self.bud0, ((), ((None, 0),), ((0, 0),), 0, 0), 0,
                (frozenset([PHY_RESET_REGS[0], r[0]]), frozenset([PHY_RESET_REGS[1], r[1]]), 0))

    def prologue(self, cur):
        env = self.env0()
        try:
            for _ in range(40):
                env = self.cycle(cur, env, (self.phy.benign(env[0]), 0, 0))
        except Violation as v:           # report it as the first (and only) transition of the exploration
            self._prologue_violation = v
            return ("!", v.rule)
        p = env[0]
        if p[:2] == ("I", 0) and (p[4], p[5]) == self.req[0]:
            self.cover["prologue-settled"] += 1
        return env

    def actions(self, env):
        if env[0] == "!": return ["prologue"]
        p, u, c, bud = env[0], env[1], env[2], env[3]
        pcs = self.phy.choices(p, bud[0] is None or bud[0] > 0)
        ucs = [0]
        if u is None and not env[5] and self.packets and (bud[2] is None or bud[2] > 0):     # TxValid stays low for >= 1 cycle
            ucs += list(range(1, len(self.packets) + 1))
        ccs = [c]
        if len(self.ctrl) > 1 and (bud[1] is None or bud[1] > 0):
            ccs += [i for i in range(len(self.ctrl)) if i != c]
        return [(pc, uc, cc) for pc in pcs for uc in ucs for cc in ccs]

    def apply(self, cur, env, action):
        if env[0] == "!":
            v = getattr(self, "_prologue_violation", None)
            if v is None:               # re-execution by the engine: the prologue ran in this process as well
                raise Violation(env[1], "raised during the reset prologue (benign PHY, initial register writes)")
            raise Violation(v.rule, dict(during="reset prologue (benign PHY, initial register writes)", detail=v.detail))
        env2 = self.cycle(cur, env, action)
        if self.converge:
            self.check_convergence(cur, env2)
        return env2

    # ------------------------------------------------------------------ one clock cycle
    def cycle(self, cur, env, action):
        p, u, c, bud, rxm, txm, regm = env
        pc, uc, cc = action
        checks = self.checks
        r_left, c_left, k_left = bud
        if uc:
            u = (uc - 1, 0)
            if k_left is not None: k_left -= 1
            self.cover["tx-start"] += 1
        if cc != c:
            c = cc
            if c_left is not None: c_left -= 1
            self.cover["ctrl-change"] += 1
            if u is not None and u[1] == 0 and uc: self.cover["ctrl-change-with-tx-start"] += 1
            if p[0] in ("WD", "WS") or (p[0] == "I" and p[1] and p[2] >> 6 == 2): self.cover["ctrl-change-during-write"] += 1
        if pc in ("rise0", "rise1") and r_left is not None: r_left -= 1
        dir_, nxt, data_i = Phy.outputs(pc)
        if u is None:
            txv, txd = 0, 0
        else:
            txv, txd = 1, self.packets[u[0]][u[1]]
        o = cur.step(dir=dir_, nxt=nxt, data_i=data_i, tx_valid=txv, tx_data=txd, **self.ctrl[c])
        mode2 = self.mode2[c]

        if "tx" in checks and dir_ and o.oe:
            raise Violation("drives-bus-under-dir", dict(phy=p, choice=pc))
        p2, events = Phy.update(p, pc, o.data_o if not dir_ else 0, o.stp)

        accepted = False          # a UTMI byte was taken by the PHY in this cycle
        stp_seen = False
        rx_new = None
        for e in events:
            k = e[0]
            if k == "proto":
                rule = e[1]
                is_reg = rule == "regwrite-stp-missing" or p[0] in ("WD", "WS") or (p[0] == "I" and p[2] >> 6 == 2)
                if ("reg" in checks and is_reg) or ("tx" in checks and not is_reg):
                    raise Violation("link-protocol:" + rule, dict(detail=e[2], phy=p, choice=pc))
            elif k == "txcmd":
                self.cover["txcmd"] += 1
                if "tx" in checks:
                    if u is None or u[1] != 0:
                        raise Violation("tx-spurious-command", dict(cmd=e[1], utmi=u))
                    want = 0x40 if mode2 else 0x40 | (txd & 0xF)
                    if e[1] != want:
                        raise Violation("txcmd-value", dict(got=e[1], expected=want, op_mode=self.ctrl[c]["op_mode"]))
                if not mode2: accepted = True
            elif k == "txbyte":
                self.cover["txbyte"] += 1
                if "tx" in checks:
                    if u is None:
                        raise Violation("tx-byte-after-end", dict(byte=e[1]))
                    if e[1] != txd:
                        raise Violation("tx-byte-value", dict(got=e[1], expected=txd, utmi=u))
                accepted = True
            elif k == "txstp":
                stp_seen = True
                self.cover["txstp"] += 1
                if "tx" in checks:
                    if not txm:
                        raise Violation("tx-stp-spurious", dict(utmi=u, data=e[1]))
                    if mode2 and e[1] != 0xFF:
                        raise Violation("tx-stp-data:no-bitstuff-error-forced", dict(data=e[1]))
                    if not mode2 and e[1] == 0xFF:
                        raise Violation("tx-stp-data:error-forced-in-normal-mode", dict(data=e[1]))
            elif k == "regwrite":
                self.cover["regwrite"] += 1
                self.cover["regwrite-%02x" % e[1]] += 1
                if "reg" in checks:
                    if e[1] not in (REG_FC, REG_OTG):
                        raise Violation("regwrite-unknown-address", dict(addr=e[1], value=e[2]))
                    S = regm[0] if e[1] == REG_FC else regm[1]
                    if e[2] not in S | {self.req[c][0 if e[1] == REG_FC else 1]}:
                        raise Violation("regwrite-wrong-value", dict(addr=e[1], value=e[2], requested_recently=sorted(S),
                                                                   requested_now=self.req[c]))
            elif k == "abort":
                self.cover["abort-" + e[1]] += 1
            elif k == "rxbyte":
                rx_new = e[1]
                self.cover["rxbyte"] += 1
            elif k == "rxcmd":
                self.cover["rxcmd"] += 1
                if p[2]: self.cover["rxcmd-during-regop"] += 1
            elif k == "rise":
                self.cover["rise%d" % e[1]] += 1
            elif k == "end":
                if p[3]: self.cover["rx-aborted-by-dir"] += 1

        # ---- transmit side bookkeeping (C23)
        if "tx" in checks:
            if txm and not stp_seen:
                raise Violation("tx-stp-missing", dict(phy=p, stp=o.stp, data=o.data_o))
            if txv and bool(o.tx_ready) != accepted:
                raise Violation("tx-ready-mismatch", dict(tx_ready=o.tx_ready, phy_accepted=accepted, phy=p, choice=pc, utmi=u))
        txm2 = 0
        if u is not None and o.tx_ready:
            if u[1] + 1 == len(self.packets[u[0]]):
                u = None; txm2 = 1
                self.cover["tx-packet-done"] += 1
            else:
                u = (u[0], u[1] + 1)
        if p[0] == "T" and pc == "idle" and txv: self.cover["tx-stall"] += 1

        # ---- receive side (C22)
        queue, hcmd, hact, rw, uq = rxm
        # hcmd / hact: the values the reference (decoded flags of the most recent RX CMD / PHY RxActive) had during the
        # last RX_LAT+1 cycles, canonically as ((value, cycles since it last was the reference), ...) - age 0 = current
        ref = hcmd[0][0]
        for e in events:
            if e[0] == "rxcmd": ref = decode_flags(e[1])
        hcmd = _age(hcmd, ref)
        hact = _age(hact, p2[3] if p2[0] == "R" else 0)
        # tag receive findings that happen while a register write is outstanding (requested settings != PHY registers,
        # or the DIR phase aborted a register command): a different mechanism in the design than plain receive
        # (sticky for the whole DIR-high phase plus the latency window after it)
        # `uq` > 0: a control input changed and the bus has not since been quiet (idle, registers == request) for QUIET
        # cycles with the design's `busy` output low, i.e. the design may still be busy with a register write the PHY cannot see
        # (`busy` is only used for this tag, never by an oracle)
        if cc != env[2]: uq = QUIET
        elif uq:
            uq = uq - 1 if (p2[:2] == ("I", 0) and (p2[4], p2[5]) == self.req[c] and u is None and not txm2 and not o.busy) else QUIET
        if p2[0] == "R":
            if rw or uq or p2[2] or (p2[4], p2[5]) != self.req[c]: rw = RX_LAT + 1
        elif rw:
            rw -= 1
        sfx = ":register-write-outstanding" if rw else ""
        if rx_new is not None:
            queue = queue + ((rx_new, 0),)
        if "rx" in checks:
            if o.rx_valid:
                if not queue:
                    raise Violation("rx-byte-spurious" + sfx, dict(rx_data=o.rx_data, phy=p, choice=pc))
                if queue[0][0] != o.rx_data:
                    raise Violation("rx-byte-wrong" + sfx, dict(rx_data=o.rx_data, expected=queue[0][0]))
                queue = queue[1:]
                self.cover["rx-byte-delivered"] += 1
            if queue and queue[0][1] >= RX_LAT:
                raise Violation("rx-byte-lost" + sfx, dict(byte=queue[0][0], phy=p, choice=pc))
            if o.rx_active not in [v for v, _ in hact]:
                raise Violation(("rx-active-stuck-high" if o.rx_active else "rx-active-missing") + sfx,
                                dict(rx_active=o.rx_active, phy_rxactive_value_and_age=hact, phy=p, choice=pc))
            admitted = [v for v, _ in hcmd]
            if None not in admitted:
                got = (o.line_state, o.vbus_valid, o.session_end)
                if got not in admitted:
                    raise Violation("rx-flags-mismatch" + sfx, dict(got=dict(line_state=got[0], vbus_valid=got[1], session_end=got[2]),
                                                               recent_rxcmd_flags_and_age=hcmd, phy=p, choice=pc))
        elif o.rx_valid and queue:
            queue = queue[1:]
        queue = tuple((b, a + 1) for b, a in queue)
        if "rx" not in checks:
            queue = (); hcmd = ((None, 0),); hact = ((0, 0),); rw = uq = 0
        if o.rx_active: self.cover["rx-active"] += 1

        # ---- register bookkeeping (C24)
        if "reg" in checks:
            rq = self.req[c]
            sf, so, quiet = regm
            sf = sf | {rq[0]}; so = so | {rq[1]}
            if p2[0] == "I" and not p2[1] and (p2[4], p2[5]) == rq and u is None and not txm2:
                quiet = min(QUIET, quiet + 1)
                if quiet >= QUIET:
                    sf = frozenset([rq[0]]); so = frozenset([rq[1]])
            else:
                quiet = 0
            regm = (sf, so, quiet)
        self.outcomes.add((p2[0], o.data_o, o.stp, o.tx_ready, o.rx_valid, o.rx_active))
        return (p2, u, c, (r_left, c_left, k_left), (queue, hcmd, hact, rw, uq), txm2, regm)

    # ------------------------------------------------------------------ bounded convergence (lookahead, C24)
    def check_convergence(self, cur, env):
        key = (cur.state, env[0], env[1], env[2], env[5])
        res = self._memo.get(key)
        if res is None:
            res = self._lookahead(cur.fork(), env)
            self._memo[key] = res
        if res[0]:
            raise Violation(res[0], res[1])

    def _lookahead(self, f, env):
        c = env[2]
        rq = self.req[c]
        good = 0
        saved = self.cover, self.outcomes
        self.cover, self.outcomes = type(saved[0])(), set()
        try:
            for i in range(self.converge):
                try:
                    env = self.cycle(f, env, (self.phy.benign(env[0]), 0, c))
                except Violation:
                    return (None, None)          # some other oracle fires on this suffix; the BFS reports it with its own path
                p = env[0]
                if p[:2] == ("I", 0) and (p[4], p[5]) == rq and env[1] is None and not env[5]:
                    good += 1
                else:
                    good = 0
        finally:
            self.cover, self.outcomes = saved
        if good >= self.stable:
            return (None, None)
        p, u = env[0], env[1]
        detail = dict(horizon=self.converge, phy_registers=dict(function_control=p[4], otg_control=p[5]),
                      requested=dict(function_control=rq[0], otg_control=rq[1]), utmi_transmitter=u, phy=p[:3])
        if u is not None or p[0] == "T":
            return ("no-convergence:transmit-stuck", detail)
        if (p[4], p[5]) != rq:
            if p[:2] == ("I", 0): return ("no-convergence:registers-stale", detail)
            return ("no-convergence:register-write-stuck", detail)
        return ("no-convergence:bus-never-idle", detail)

    def label(self, a):
        return a
