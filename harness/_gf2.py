# Helpers shared by the enumeration-style harnesses (C30, C31, C47):
#   * exact placement of register values into the engine's state bytes ("poke") so that *every* register state can
#     be evaluated, not only the ones a short input sequence reaches;
#   * the structural cone walk of DESIGN.md 2.3: is a next-state / output function built from XOR / NOT / wiring
#     (and selections steered by control inputs only)?  Then, for every fixed valuation of the control inputs, it
#     is affine over GF(2) in (register state, data inputs) and fully determined by its value at the zero vector
#     and the unit vectors;
#   * GF(2) linear algebra on the *model's own* affine map, to turn a poked register state into an input sequence
#     from reset that reaches it (so that counterexamples and samples can be replayed in amaranth.sim);
#   * the bookkeeping of an enumeration run (violations by rule, evidence dict in the engine's format).
import time, collections
from amaranth.hdl import _nir as nir
from rtlmc.model import Model, Cursor, MachineryError
from rtlmc import pysim


# ------------------------------------------------------------------------------------------------ state poke
def _csize(w):
    return 1 if w <= 8 else 2 if w <= 16 else 4 if w <= 32 else 8 if w <= 64 else 16


class Regs:
    """Byte layout of the flip-flops in a Model's packed state struct (mirrors cgen.generate: ffs, then read ports,
    then memories).  Only designs without memories / sync read ports are supported here."""

    def __init__(self, model):
        c = model.comp
        if c.srps or c.mems:
            raise MachineryError("Regs: design has memories; poke layout not supported")
        self.model = model
        self.ffs = []            # (cell idx, width, offset, size)
        off = 0
        for i, cell in c.ffs:
            w = len(cell.data); sz = _csize(w)
            self.ffs.append((i, w, off, sz)); off += sz
        if off != model.nstate and not (off == 0 and model.nstate == 1):
            raise MachineryError(f"Regs: layout mismatch ({off} vs {model.nstate} state bytes)")
        self.by_idx = {i: (w, o, s) for i, w, o, s in self.ffs}

    def only(self, width):
        """cell index of the unique flip-flop of this width"""
        hits = [i for i, w, _, _ in self.ffs if w == width]
        if len(hits) != 1:
            raise MachineryError(f"expected exactly one {width}-bit register in the design, found {len(hits)}")
        return hits[0]

    def of_signal(self, sig):
        """cell index of the flip-flop behind a (possibly internal) Signal"""
        nets = self.model.comp.nl.signals[sig]
        cells = {n.cell for n in nets if n.is_cell}
        if len(cells) != 1 or not isinstance(self.model.comp.cells[next(iter(cells))], nir.FlipFlop):
            raise MachineryError(f"{sig!r} is not a single register")
        return next(iter(cells))

    def get(self, state, idx):
        w, o, s = self.by_idx[idx]
        return int.from_bytes(state[o:o + s], "little") & ((1 << w) - 1)

    def put(self, state, idx, value):
        w, o, s = self.by_idx[idx]
        return state[:o] + (int(value) & ((1 << w) - 1)).to_bytes(s, "little") + state[o + s:]


# ------------------------------------------------------------------------------------------------ cone analysis
class ConeError(Exception):
    pass


def top_bits(model, sig, lo=0, hi=None):
    """set of top-level input bit numbers (cell 0 bits) of an input Signal (optionally a slice of it)"""
    nets = model.comp.nl.signals[sig]
    hi = len(nets) if hi is None else hi
    out = set()
    for n in list(nets)[lo:hi]:
        if not (n.is_cell and n.cell == 0):
            raise MachineryError(f"{sig!r} is not a top-level input")
        out.add(n.bit)
    return out


def affine_cone(model, roots, data_bits, state_cells, wiring_only=False, through_registers=False):
    """Walk the combinational cone of `roots` (iterable of nir nets).  Allowed on the data path: constants, the given
    top-level data input bits, outputs of the given register cells, '^' and '~' operators (none if wiring_only),
    and selections ('m' operators / assignment lists) whose selectors depend on *control* inputs only, where
    control := every top-level input bit that is not in data_bits.  Anything else raises ConeError.
    With through_registers the walk continues through flip-flops: a register on the data path is a pipeline stage
    (its own input cone must again be wiring/selection), a register feeding a selector is control state (its input
    cone must depend on control inputs and control state only).  The function of the input *history* is then still
    bitwise wiring for every fixed control history.
    Returns dict(cells=Counter by kind, data_support=set of data bits used, state_support=set of (cell,bit),
    control_support=set of control bits steering selections)."""
    cells = model.comp.cells
    kinds = collections.Counter()
    data_support, state_support, control_support = set(), set(), set()
    seen_data, seen_ctrl = set(), set()

    def ctrl_net(n, why):
        if n.is_const: return
        if n.cell == 0:
            if n.bit in data_bits:
                raise ConeError(f"{why}: selector depends on data input bit {n.bit}")
            control_support.add(n.bit); return
        if n.cell in seen_ctrl: return
        seen_ctrl.add(n.cell)
        c = cells[n.cell]
        if isinstance(c, nir.FlipFlop) and through_registers:
            kinds["control-register"] += 1
            for m in c.data: ctrl_net(m, why + f" via register cell {n.cell}")
            return
        if isinstance(c, (nir.FlipFlop, nir.SyncReadPort, nir.AsyncReadPort, nir.Memory)):
            raise ConeError(f"{why}: selector depends on stored state (cell {n.cell} {type(c).__name__})")
        for m in c.input_nets():
            ctrl_net(m, why)

    def data_net(n):
        # bit-precise: output bit k of a bitwise cell depends on bit k of its operands only
        if n.is_const: return
        if n.cell == 0:
            if n.bit not in data_bits:
                raise ConeError(f"control input bit {n.bit} is used as data")
            data_support.add(n.bit); return
        c = cells[n.cell]
        k = n.bit
        if isinstance(c, nir.FlipFlop) and n.cell in state_cells:
            state_support.add((n.cell, k)); return
        if isinstance(c, nir.FlipFlop) and not through_registers:
            raise ConeError(f"cone reads register cell {n.cell} which is not part of the declared state")
        if (n.cell, k) in seen_data: return
        seen_data.add((n.cell, k))
        if isinstance(c, nir.FlipFlop):
            kinds["pipeline-register-bit"] += 1
            data_net(c.data[k])
        elif isinstance(c, nir.Operator) and c.operator in ("^", "~") and not wiring_only:
            kinds[c.operator + "-bit"] += 1
            for v in c.inputs: data_net(v[k])
        elif isinstance(c, nir.Operator) and c.operator == "m":
            kinds["mux-bit"] += 1
            for m in c.inputs[0]: ctrl_net(m, f"mux cell {n.cell}")
            for v in c.inputs[1:]: data_net(v[k])
        elif isinstance(c, nir.AssignmentList):
            kinds["assignment-bit"] += 1
            data_net(c.default[k])
            for a in c.assignments:
                if a.start <= k < a.start + len(a.value):
                    ctrl_net(a.cond, f"assignment list cell {n.cell}")
                    data_net(a.value[k - a.start])
        else:
            what = f"operator '{c.operator}'" if isinstance(c, nir.Operator) else type(c).__name__
            raise ConeError(f"cell {n.cell} ({what}) on the data path is not XOR/NOT/wiring")

    for n in roots:
        data_net(n)
    return dict(cells=dict(kinds), data_support=data_support, state_support=state_support,
                control_support=control_support)


# ------------------------------------------------------------------------------------------------ GF(2) algebra
def solve_gf2(columns, target, nbits):
    """Find x (as int bitmask over len(columns)) with XOR of selected columns == target, or None."""
    basis = {}       # pivot bit -> (vector, combination mask)
    for j, col in enumerate(columns):
        v, comb = col, 1 << j
        while v:
            p = v.bit_length() - 1
            if p in basis:
                bv, bc = basis[p]; v ^= bv; comb ^= bc
            else:
                basis[p] = (v, comb); break
    v, comb = target, 0
    while v:
        p = v.bit_length() - 1
        if p not in basis: return None
        bv, bc = basis[p]; v ^= bv; comb ^= bc
    return comb


def reach_from_reset(nstate_bits, ndata_bits, step, init, target, max_words=4):
    """`step(s, d) -> s'` is an affine map (evaluated on the model).  Returns a list of data words driving `init`
    to `target`, or None."""
    if target == init: return []
    c = step(0, 0)
    A = [step(1 << i, 0) ^ c for i in range(nstate_bits)]
    B = [step(0, 1 << j) ^ c for j in range(ndata_bits)]

    def lin(s):      # A*s
        r = 0; i = 0
        while s:
            if s & 1: r ^= A[i]
            s >>= 1; i += 1
        return r
    for k in range(1, max_words + 1):
        # s_k = A^k init + sum_t A^(k-1-t) (B d_t + c)
        base = init
        for _ in range(k): base = lin(base) ^ c
        cols = []
        for t in range(k):
            for j in range(ndata_bits):
                v = B[j]
                for _ in range(k - 1 - t): v = lin(v)
                cols.append(v)
        x = solve_gf2(cols, target ^ base, nstate_bits)
        if x is not None:
            words = [(x >> (t * ndata_bits)) & ((1 << ndata_bits) - 1) for t in range(k)]
            s = init
            for w in words: s = step(s, w)
            if s == target: return words
    return None


# ------------------------------------------------------------------------------------------------ run bookkeeping
class Run:
    """Collects what run_config must return."""

    def __init__(self, cfg, model=None):
        self.cfg = cfg
        self.t0 = time.time()
        self.model = model
        self.states = set()
        self.evals = 0
        self.viol = {}
        self._keys = {}
        self.cover = collections.Counter()
        self.outcomes = set()
        self.samples = []
        self.traces = self.cycles = 0
        self.caps = []
        self.notes = []
        self.exhaustive = True

    def violation(self, rule, detail, path, key=None):
        """first (or, with `key`, the smallest-key) counterexample per rule is the one reported"""
        v = self.viol.get(rule)
        if v is None:
            self.viol[rule] = dict(rule=rule, detail=detail, path=path, count=1)
            self._keys[rule] = key
        else:
            v["count"] += 1
            if key is not None and self._keys[rule] is not None and key < self._keys[rule]:
                v["detail"], v["path"] = detail, path
                self._keys[rule] = key

    def validate(self, model, log, max_cycles=None):
        """replay a Cursor log (recorded from reset) in amaranth.sim"""
        n = pysim.replay(model, log, max_cycles)
        self.traces += 1; self.cycles += n

    def result(self, goals=(), assumptions=(), depth=1):
        unmet = [g for g in goals if not self.cover.get(g)]
        m = self.model
        return dict(config=self.cfg, states=len(self.states), transitions=self.evals, depth=depth,
                    exhaustive=self.exhaustive and not self.caps, caps=self.caps,
                    violations=list(self.viol.values()), traces_validated=self.traces, cycles_validated=self.cycles,
                    samples=self.samples[:3], cover=dict(self.cover), unmet_goals=unmet, outcomes=len(self.outcomes),
                    cells=m.cells if m else None, state_bytes=m.nstate if m else None,
                    assumptions=list(assumptions) + self.notes, wall_s=round(time.time() - self.t0, 2))
