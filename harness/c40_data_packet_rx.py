# C40 - every received SuperSpeed data packet is reported good or bad exactly once.
#
# DUT: luna.gateware.usb.usb3.link.data.DataPacketReceiver (real class, elaborated), driven word by word on `sink`
# like the physical layer does (32-bit data, 4 ctrl bits, valid).
#
# One BFS action = one bus event, driven cycle by cycle with the oracle looking at every cycle:
#   ("pkt", L, var, corrupt, gaps, tail)   a data packet: DPH (HPSTART framing, DW0-2, DW3 with CRC-16 / link control
#                                          word / CRC-5), DPP (SDP framing, L payload bytes, CRC-32, END END END EPF,
#                                          byte-packed, rest of the last word is logical idle), then `tail` valid idle words.
#        corrupt: ok | crc32 (one CRC-32 bit flipped) | data (one payload bit flipped) | hcrc16 (DW2 bit flipped) |
#                 hcrc5 (link control word bit flipped) | k0 / kl (first / last payload byte replaced by a K symbol, SUB)
#        gaps:    tuple of (position, length, flavour): `length` not-valid words inserted before word `position` of the
#                 packet (position = n: behind its last word).  flavour z: data/ctrl zero, s: stale copy of the previous
#                 word (what a skid register shows when SKP removal leaves a hole).
#   ("hdr", type, tail)                    a header packet without payload (DATA type with no DPP following / TP)
#   ("dpp", tail)                          an orphan payload without data packet header (never offered directly behind a
#                                          bare DATA header: that would simply be a data packet)
# The graph is explored to closure (the DUT state after an event only depends on the event's content), so *histories*
# of arbitrary length are covered, not only pairs of packets.
#
# Oracle (reference monitor written from the statement; USB 3.2 7.2.1/7.2.2 for the packet format):
#   * a packet whose header CRCs are valid gets exactly one verdict cycle (packet_good or packet_bad, never both), in
#     the window [DW3 word .. VERDICT_SLACK cycles behind its last word]; good iff CRC-32 is right and no K symbol sits
#     in the payload; good not before the last CRC-32 byte was presented
#   * a packet whose header CRC-16 / CRC-5 is wrong is never reported good (bad or silence are both admitted: the
#     statement does not say which)
#   * no verdict and no payload byte outside such a window
#   * when good is reported the bytes marked valid on `source` since the header are exactly the data_length payload
#     bytes; never more than data_length bytes for any packet
#   No latency is demanded beyond the window; not-valid words are never counted as cycles of the window's start.
from rtlmc.model import Design, Violation
from rtlmc.explore import Spec

PROPERTY = "C40"
TECHNIQUE = "explicit-state BFS to closure over packet-level bus events on the elaborated DataPacketReceiver, per-cycle verdict monitor"

VERDICT_SLACK = 4          # cycles behind the last word of a packet in which its verdict may still arrive
HPSTART = (0xF7FBFBFB, 0xF)     # SHP SHP SHP EPF
DPPSTART = (0xF75C5C5C, 0xF)    # SDP SDP SDP EPF
END, EPF, SUB = 0xFD, 0xF7, 0x9C
TYPE_DATA, TYPE_TP = 0b01000, 0b00100


# ------------------------------------------------------------------------------------ reference encoders (spec)
def _crc_serial(reg, value, nbits, poly, w):
    m = (1 << w) - 1
    for i in range(nbits):
        fb = ((value >> i) & 1) ^ ((reg >> (w - 1)) & 1)
        reg = (reg << 1) & m
        if fb: reg ^= poly
    return reg


def _rev(x, w):
    r = 0
    for i in range(w):
        if (x >> i) & 1: r |= 1 << (w - 1 - i)
    return r


def crc16_hp(dws):
    """CRC-16 of a header packet (USB 3.2 7.2.1.1.2): x^16+x^12+x^3+x+1, preset ones, LSb first, complemented, MSb first"""
    r = 0xFFFF
    for dw in dws: r = _crc_serial(r, dw, 32, 0x100B, 16)
    return _rev(r ^ 0xFFFF, 16)


def crc5_lcw(v11):
    r = _crc_serial(0x1F, v11, 11, 0b00101, 5)
    return _rev(r ^ 0x1F, 5)


def crc32_dpp(bs):
    r = 0xFFFFFFFF
    for b in bs: r = _crc_serial(r, b, 8, 0x04C11DB7, 32)
    return _rev(r ^ 0xFFFFFFFF, 32)


def _selfcheck():
    # vectors recorded from real hardware in /repo/tests/test_usb3_data.py
    for dws, dw3 in (((0x32000008, 0x00010000, 0x08000000), 0xE801A822), ((0x34000008, 0x00020000, 0x08000000), 0xD005A242),
                     ((0x00000008, 0x00088000, 0x08000000), 0xA8023E0F)):
        assert crc16_hp(dws) == dw3 & 0xFFFF and crc5_lcw((dw3 >> 16) & 0x7FF) == dw3 >> 27
    assert crc32_dpp(b"\xff") == 0xFF000000 and crc32_dpp(b"\xaa\xbb") == 0x49822C98
    assert crc32_dpp(bytes.fromhex("00051e0000000000")) == 0x0EC69325


_selfcheck()


def payload_bytes(L, var):
    if var == 0: return bytes((0xA1 + 0x13 * i) & 0xFF for i in range(L))
    if var == 1: return bytes(L)                                    # looks like logical idle
    return bytes((0xFF - 0x21 * i) & 0xFF for i in range(L))


def header_words(ptype, L, var, corrupt):
    dw0 = ptype | (0x2 << 25)                                       # device address 2
    dw1 = ((3 + var) & 0x1F) | (1 << 8) | (L << 16)                 # data sequence, endpoint 1, data length
    dw2 = 0x08000000                                                # packet pending (as in the recorded packets)
    lcw = 0x001 + var                                               # header sequence number
    crc16 = crc16_hp((dw0, dw1, dw2))
    crc5 = crc5_lcw(lcw)
    if corrupt == "hcrc16": dw2 ^= 1
    if corrupt == "hcrc5": lcw ^= 1 << 6
    return [dw0, dw1, dw2, crc16 | (lcw << 16) | (crc5 << 27)]


def dpp_words(L, var, corrupt):
    """-> (list of (data, ctrl), index of the word holding the last CRC-32 byte)"""
    pay = payload_bytes(L, var)
    crc = crc32_dpp(pay)
    if corrupt == "crc32": crc ^= 1 << 31
    sym = [(b, 0) for b in pay]
    if corrupt == "data": sym[L // 2] = (sym[L // 2][0] ^ 0x10, 0)
    if corrupt == "k0": sym[0] = (SUB, 1)
    if corrupt == "kl": sym[L - 1] = (SUB, 1)
    sym += [((crc >> (8 * i)) & 0xFF, 0) for i in range(4)]
    crc_last = (len(sym) - 1) // 4
    sym += [(END, 1), (END, 1), (END, 1), (EPF, 1)]
    while len(sym) % 4: sym.append((0, 0))
    words = []
    for i in range(0, len(sym), 4):
        d = c = 0
        for j in range(4):
            d |= sym[i + j][0] << (8 * j); c |= sym[i + j][1] << j
        words.append((d, c))
    return words, crc_last


def packet_words(L, var, corrupt):
    """-> list of (data, ctrl, tag); tags: hp, open (DW3), crc (last CRC byte on the bus), last"""
    ws = [(HPSTART[0], HPSTART[1], "hp")]
    hw = header_words(TYPE_DATA, L, var, corrupt)
    for i, w in enumerate(hw): ws.append((w, 0, "open" if i == 3 else None))
    ws.append((DPPSTART[0], DPPSTART[1], None))
    dw, crc_last = dpp_words(L, var, corrupt)
    for i, (d, c) in enumerate(dw):
        tags = []
        if i == crc_last: tags.append("crc")
        if i == len(dw) - 1: tags.append("last")
        ws.append((d, c, "+".join(tags) or None))
    return ws


def n_words(L):
    return 6 + (L + 8 + 3) // 4


CORRUPTS = ("ok", "crc32", "data", "hcrc16", "hcrc5", "k0", "kl")


def expectation(L, corrupt):
    if corrupt in ("hcrc16", "hcrc5"): return "bad-or-none"
    return "good" if corrupt == "ok" else "bad"


LONG = (1024, 1023, 1022, 1021, 1020, 513, 512, 511, 256)     # top of the data_length range and the byte counter's upper bits


def configs(tier):
    if tier == "quick":
        return [dict(L=L, k=1, variants=1) for L in range(10)] + [dict(L=1024, k=1, variants=1)]
    # thorough: two runs of not-valid words per packet (payload pattern 0), and one run with three tails and two payload patterns
    return ([dict(L=L, k=2, variants=1) for L in range(10)] + [dict(L=L, k=1, variants=2) for L in range(10)] +
            [dict(L=L, k=1, variants=1) for L in LONG])


# slot = (expect, reason, payload, L, phase, verdict, got, behind_bare_header)     phase 0 header, 1 window open, 2 CRC complete
class DataRxSpec(Spec):
    def __init__(self, cfg, tier):
        super().__init__(cfg, tier)
        L, k, nv = cfg["L"], cfg["k"], cfg["variants"]
        # every amaranth.sim replay re-elaborates the DUT (two wide CRC XOR trees: ~10 s of CPU each), so few paths are replayed
        self.n_validate = 1 if tier == "quick" else 3
        # safety nets only (a quick config has < 1000 states and needs 10-20 s of CPU); the state cap is the deterministic one
        self.time_budget = 900
        self.max_states = 20000 if tier == "quick" else 200000
        tails = (0, 5) if (tier == "quick" or k >= 2 or L > 9) else (0, 1, 5)
        n = n_words(L)
        if L > 9:
            # long packets (maximum size and neighbours): a small menu - ok / CRC-32 corrupt / K symbol in the last payload
            # byte / header CRC-16 corrupt, no gap or one not-valid word before the first, a middle and the last payload word and
            # the CRC word (thorough: also before DW3 and behind the packet, both flavours everywhere); the other long lengths and
            # some short ones as context traffic
            ws = packet_words(L, 0, "ok")
            crcword = next(i for i, w in enumerate(ws) if w[2] and "crc" in w[2])
            pos = sorted({6, 6 + (L // 4) // 2, 5 + (L + 3) // 4, crcword} | ({4, n} if tier != "quick" else set()))
            single = [(p, 1, f) for p in pos for f in ("zs" if (tier != "quick" or p == crcword) else "z")]
            corrupts = ("ok", "crc32", "kl", "hcrc16")
            context = [l for l in (LONG if tier != "quick" else (1023, 1020, 512)) if l != L] + [0, 1, 4]
        else:
            single = [(p, g, f) for p in range(1, n + 1) for g in (1, 2) for f in "zs"]
            corrupts = CORRUPTS
            context = [l for l in range(10) if l != L]
        gapsets = [()] + [(g,) for g in single]
        if k >= 2:
            second = [(p, 1, "z") for p in range(1, n + 1)]
            gapsets += [(a, b) for a in single for b in second if b[0] > a[0]]
        acts = []
        for var in range(nv):
            for c in corrupts:
                if L == 0 and c in ("data", "k0", "kl"): continue
                if L == 1 and c == "kl": continue
                for gs in gapsets:
                    for t in tails:
                        acts.append(("pkt", L, var, c, gs, t))
        for L2 in context:                                           # context traffic of the other lengths
            for c in ("ok", "crc32"):
                for t in (0, 5):
                    acts.append(("pkt", L2, 0, c, (), t))
        for t in (0, 5):
            acts += [("hdr", TYPE_DATA, t), ("hdr", TYPE_TP, t), ("dpp", t)]
        self._acts = acts
        self._acts_nodpp = [a for a in acts if a[0] != "dpp"]
        self._scripts = {}

    def build(self):
        from luna.gateware.usb.usb3.link.data import DataPacketReceiver
        d = DataPacketReceiver()
        ins = dict(valid=d.sink.valid, data=d.sink.data, ctrl=d.sink.ctrl)
        obs = dict(good=d.packet_good, bad=d.packet_bad, svalid=d.source.valid, sdata=d.source.data)
        return Design(d, ins, obs)

    def env0(self):
        return (None, 0, 0)         # (slot still waiting for its verdict window to close, cycles left, bare DATA header just ended)

    def actions(self, env):
        return self._acts_nodpp if env[2] else self._acts

    def assumptions(self):
        return ["header packets and data packet payloads start word aligned (the receiver matches whole framing words); "
                "the payload, CRC-32 and END framing are byte packed and followed by logical idle",
                "a data packet payload follows its header directly (only not-valid words in between)",
                "a not-valid word carries zeroes or a stale copy of the previous word",
                "a header with a wrong CRC-16/CRC-5 may be answered by packet_bad or by silence (statement open); never by packet_good",
                f"a verdict is accepted from the DW3 word of the header until {VERDICT_SLACK} cycles behind the packet's last word",
                "payload 0-9 bytes with the full menu, and 256/511-513/1020-1024 bytes with a reduced menu; one corruption per "
                "packet, at most k runs of 1-2 not-valid words per packet"]

    def goals(self):
        return ["pkt:good-expected", "pkt:bad-expected", "pkt:bad-header", "gap", "gap:before-crc-word", "back-to-back", "verdict:seen"]

    # -- the monitor ------------------------------------------------------------------------------------------
    def _close(self, slot, why):
        expect, reason, pay, L, phase, verdict, got = slot[:7]
        if verdict is None and expect in ("good", "bad"):
            # a packet directly behind a DATA header that had no payload (e.g. a deferred DPH) gets its own signature
            raise Violation("verdict:missing" + (":directly-behind-header-without-payload" if slot[7] else ""),
                            dict(expected=expect, corruption=reason, data_length=L, closed_by=why))
        if len(got) > L:
            raise Violation("payload:more-than-data-length", dict(data_length=L, bytes_seen=got.hex()))

    def _cycle(self, cur, st, vec, tag, newslot=None):
        """drive one word (input vector), update the monitor state st = (prev, ttl, cur_slot)"""
        prev, ttl, cs = st
        o = cur.step_vec(vec)
        if tag is None and not (o.svalid or o.good or o.bad):          # fast path: nothing to account for
            if prev is not None:
                ttl -= 1
                if ttl <= 0:
                    self._close(prev, "window end"); prev = None; ttl = 0
            return (prev, ttl, cs)
        if tag is None and not (o.good or o.bad) and cs is not None and cs[4] >= 1:      # fast path: plain payload word
            bs = o.sdata.to_bytes(4, "little") if o.svalid == 15 else bytes((o.sdata >> (8 * i)) & 0xFF for i in range(4) if (o.svalid >> i) & 1)
            got = cs[6] + bs
            if len(got) > cs[3]:
                raise Violation("payload:more-than-data-length", dict(data_length=cs[3], bytes_seen=got.hex()))
            cs = cs[:6] + (got,) + cs[7:]
            if prev is not None:
                ttl -= 1
                if ttl <= 0:
                    self._close(prev, "window end"); prev = None; ttl = 0
            return (prev, ttl, cs)
        if tag and "hp" in tag: cs = newslot
        if tag and "open" in tag and cs is not None:
            if prev is not None:
                self._close(prev, "next packet"); prev = None
            cs = cs[:4] + (1,) + cs[5:]
        if tag and "crc" in tag and cs is not None and cs[4] == 1:
            cs = cs[:4] + (2,) + cs[5:]
        # payload bytes
        if o.svalid:
            bs = bytes((o.sdata >> (8 * i)) & 0xFF for i in range(4) if (o.svalid >> i) & 1)
            if cs is not None and cs[4] >= 1:
                cs = cs[:6] + (cs[6] + bs,) + cs[7:]
                if len(cs[6]) > cs[3]:
                    raise Violation("payload:more-than-data-length", dict(data_length=cs[3], bytes_seen=cs[6].hex()))
            else:
                raise Violation("payload:outside-packet", dict(source_valid=o.svalid, source_data=hex(o.sdata)))
        # verdicts
        if o.good and o.bad:
            raise Violation("verdict:good-and-bad-together", None)
        if o.good or o.bad:
            self.cover["verdict:seen"] += 1
            which = "good" if o.good else "bad"
            if cs is not None and cs[4] >= 1: tgt, is_cur = cs, True
            elif prev is not None: tgt, is_cur = prev, False
            else:
                raise Violation("verdict:outside-packet", dict(verdict=which))
            expect, reason, pay, L, phase, verdict, got = tgt[:7]
            if verdict is not None:
                raise Violation(f"verdict:second-report:{verdict}-then-{which}", dict(expected=expect, data_length=L, corruption=reason))
            if which == "good":
                if expect != "good":
                    raise Violation("verdict:good-on-bad-packet:" + reason, dict(data_length=L))
                if is_cur and phase < 2:
                    raise Violation("verdict:good-before-crc", dict(data_length=L))
                if got != pay:
                    raise Violation("payload:not-the-data-length-bytes", dict(data_length=L, expected=pay.hex(), got=got.hex()))
            elif expect == "good":
                raise Violation("verdict:bad-on-good-packet", dict(data_length=L, payload_seen=got.hex()))
            tgt = tgt[:5] + (which,) + tgt[6:]
            if is_cur: cs = tgt
            else: prev = tgt
        if tag and "last" in tag and cs is not None:
            if prev is not None: self._close(prev, "next packet")
            prev, ttl, cs = cs, VERDICT_SLACK + 1, None
        if prev is not None:
            ttl -= 1
            if ttl <= 0:
                self._close(prev, "window end"); prev = None; ttl = 0
        return (prev, ttl, cs)

    def _script(self, model, a):
        """the bus event as a list of (input vector, tag) - a pure function of the action (memoised)"""
        sc = self._scripts.get(a)
        if sc is not None: return sc
        vec = lambda v, d, c: model.vec(valid=v, data=d, ctrl=c)
        words, cov, slot = [], [], None
        kind = a[0]
        if kind == "pkt":
            _, L, var, corrupt, gaps, tail = a
            ws = packet_words(L, var, corrupt)
            expect = expectation(L, corrupt)
            slot = (expect, corrupt, payload_bytes(L, var), L, 0, None, b"")
            cov.append("pkt:good-expected" if expect == "good" else ("pkt:bad-expected" if expect == "bad" else "pkt:bad-header"))
            gapmap = {p: (g, f) for p, g, f in gaps}
            crcword = next(i for i, w in enumerate(ws) if w[2] and "crc" in w[2])
            last = (0, 0)
            for i in range(len(ws) + 1):
                if i in gapmap:
                    g, f = gapmap[i]
                    cov.append("gap")
                    if i == crcword: cov.append("gap:before-crc-word")
                    for _ in range(g):
                        words.append((vec(0, *(last if f == "s" else (0, 0))), None))
                if i == len(ws): break
                d, c, tag = ws[i]
                words.append((vec(1, d, c), tag))
                last = (d, c)
        elif kind == "hdr":
            _, ptype, tail = a
            words.append((vec(1, *HPSTART), None))
            for w in header_words(ptype, 4, 0, "ok"): words.append((vec(1, w, 0), None))
        else:
            _, tail = a
            words.append((vec(1, *DPPSTART), None))
            for d, c in dpp_words(3, 0, "ok")[0]: words.append((vec(1, d, c), None))
        for _ in range(tail): words.append((vec(1, 0, 0), None))
        sc = self._scripts[a] = (words, cov, slot, int(kind == "hdr" and a[1] == TYPE_DATA and tail == 0))
        return sc

    def apply(self, cur, env, a):
        words, cov, slot, bare = self._script(cur.model, a)
        for c in cov: self.cover[c] += 1
        if slot is not None:
            slot = slot + (env[2],)
            if env[0] is not None: self.cover["back-to-back"] += 1
        st = (env[0], env[1], None)
        cyc = self._cycle
        for v, tag in words:
            st = cyc(cur, st, v, tag, slot)
        return (st[0], st[1], bare)


def make(cfg, tier):
    return DataRxSpec(cfg, tier)
