# C38 - link re-entry always re-advertises sequence number and credits (HeaderPacketReceiver).
#
# DUT: luna.gateware.usb.usb3.link.receiver.HeaderPacketReceiver(buffer_count) - the same class as C37.
#
# Fault enumeration inside a BFS.  The *nominal* part of the graph is a per-cycle exploration (one action = one clock
# cycle) of a budgeted environment: the partner sends up to H header packets (good / bad CRC-16, one word per cycle,
# never back to back), LRTY after an LBAD, the protocol layer consumes, source.ready stalls (at most S cycles),
# one keepalive request and one LRTY request - this drives the receiver into every command-sending state (LGOOD, LCRD,
# LBAD, LRTY, LUP) and every phase of the link command generator, including the initial advertisement.
# From **every** nominal state (= at every cycle of every nominal history) each *crash* is injected:
#   ("down", k, rdy)      enable low for k = 1..3 cycles; source.ready = rdy and sink.valid = rdy meanwhile
#   ("reset", "strobe")   usb_reset for one cycle, enable stays high
#   ("reset", "down")     enable low for 2 cycles, usb_reset in the first of them
#   ("reset", "late")     enable low for 3 cycles, usb_reset in the second of them
# (crash points 1..3 cycles after the last word of a header: only ("down", 3, rdy), so that the receive pipeline drains
#  while the link is down; crash points inside a header packet: ("flush", 6, rdy) = enable low for 6 cycles in which
#  the PHY keeps delivering valid non-packet words - a real Recovery lasts thousands of cycles)
# then enable is raised again, the DUT runs until its source has been quiet for 6 cycles, and the crash transition ends
# with a freshness probe (one good header with the expected sequence number, consumed by the protocol layer).
#
# Oracle for the cycles after re-enable (statement of C38):
#   * the link commands *started* after the crash are exactly LGOOD_n, LCRD_A, LCRD_B, ... (one per buffer) and nothing
#     else, with n = sequence number of the last header received (reference expected number minus one), n = 7 after a
#     USB reset.  One command that was already on its way when the crash hit (LCSTART presented no later than one
#     cycle after the crash began) may still be completed first: it is tolerated and not counted.
#   * no header is on offer to the protocol layer once the re-advertisement is over (buffers cleared).
#   * the receive state is fresh: the probe header is accepted, offered unchanged, acknowledged by LGOOD with its
#     number, its buffer is re-advertised as LCRD_A after consumption, and nothing else (no stale LBAD / LRTY / LUP)
#     is sent (rules prefixed "fresh:", the oracle is the C37 reference model started in its post-advertisement state).
# Crashes injected while a header packet is still arriving (its remaining words are never delivered: the partner left
# U0 as well) are explored in separate configurations and carry the rule prefix "midpacket:".
from rtlmc.model import Violation
from rtlmc.explore import Spec
from harness import _usb3hp as L

PROPERTY = "C38"
LEVEL_NOTE = ("Every crash kind injected at every cycle of every nominal history of a budgeted per-cycle environment "
              "(closure of the nominal graph within the event budgets); crash transitions are run to quiescence and end "
              "with a freshness probe.")

CRASHES = [("down", 1, 1), ("down", 1, 0), ("down", 2, 1), ("down", 2, 0), ("down", 3, 1), ("down", 3, 0),
           ("reset", "strobe"), ("reset", "down"), ("reset", "late")]
# a header's last word arrived 1..3 cycles before the crash: the link stays down until the receive pipeline has drained
CRASHES_LATE = [("down", 3, 1), ("down", 3, 0)]
# the crash cuts a header packet off: the link stays down for 6 cycles in which the PHY delivers valid non-packet words
CRASHES_MID = [("flush", 6, 1), ("flush", 6, 0)]
QUIET = 6


def configs(tier):
    if tier == "quick":
        return [dict(buffers=2, headers=2, stalls=1, mid=0, name="b2"),
                dict(buffers=4, headers=2, stalls=0, mid=0, name="b4"),
                dict(buffers=2, headers=1, stalls=1, mid=1, name="b2-midpacket")]
    return [dict(buffers=2, headers=3, stalls=2, mid=0, name="b2"),
            dict(buffers=4, headers=3, stalls=1, mid=0, name="b4"),
            dict(buffers=4, headers=5, stalls=0, mid=0, name="b4-fill"),
            dict(buffers=2, headers=2, stalls=1, mid=1, name="b2-midpacket"),
            dict(buffers=4, headers=2, stalls=1, mid=1, name="b4-midpacket")]


class Mon(L.HprMonitor):
    """C37 monitor + in C38 every command on the source must be explained (used by the freshness probe)"""
    strict = False

    def other_command(self, r, cmd, sub):
        if self.strict:
            raise Violation("stale-command", dict(command=L.LC_NAMES.get(cmd, cmd), subtype=sub))


class ReadvSpec(Spec):

    def __init__(self, cfg, tier):
        super().__init__(cfg, tier)
        self.n_validate = 2 if tier == "quick" else 4      # each amaranth.sim replay costs seconds to set up
        self.n = cfg["buffers"]
        self.mon = Mon(self, self.n)
        self.time_budget = 400 if tier == "quick" else 840
        self.max_states = 3_000_000

    def build(self):
        return L.build_hpr(self.n)

    # env = (reference tuple, in-flight header (next word index, seq, content, corrupt) or (), budgets, done)
    # budgets = (headers sent, bad headers sent, keepalives, lrty requests, stall cycles)
    def env0(self):
        return (L.RxRef(self.n).freeze(), (), (0, 0, 0, 0, 0), 0)

    def actions(self, env):
        rt, fl, bud, done = env
        if done: return []
        r = L.RxRef(self.n, rt)
        cfg = self.cfg
        acts = []
        if fl:
            acts.append(("w", 1))
            if bud[4] < cfg["stalls"]: acts.append(("w", 0))
        else:
            acts.append(("t", 1))
            if bud[4] < cfg["stalls"]: acts.append(("t", 0))
            if not (r.extra and r.extra[0] == 0) and r.adv > 0 and bud[0] < cfg["headers"]:
                acts.append(("hp", 0))
                if bud[1] < 1: acts.append(("hp", 2))
            if r.fifo: acts.append(("c",))
            if bud[2] < 1: acts.append(("ka",))
            if bud[3] < 1: acts.append(("rreq",))
            if r.wait_retry: acts.append(("lrty",))
        if fl:
            if cfg["mid"]: acts += CRASHES_MID
        elif r.extra and r.extra[0] <= 2:
            acts += CRASHES_LATE
        else:
            acts += CRASHES
        return acts

    def assumptions(self):
        return ["while the link is down the partner sends no packets (sink idle or not valid) and the words of a header packet "
                "cut off by the crash are never delivered",
                "usb_reset is a one-cycle strobe; enable is low for 1..3 cycles; after re-enable source.ready is held high and no "
                "partner traffic arrives until the source has been quiet for 6 cycles",
                "a link command whose LCSTART word was already presented one cycle after the crash began may be completed "
                "after re-enable (tolerated, not counted)",
                "'last received sequence number' = number of the last header for which CRCs and sequence number were good and "
                "whose last word arrived before the crash (reference expected number - 1); 7 after usb_reset",
                "nominal histories: budgets of the configuration (header packets, one bad CRC-16 header, one keepalive and one "
                "LRTY request, source.ready stall cycles); headers are separated by at least one idle word",
                "a good header whose last word arrived 1..3 cycles before the link went down may count as received or not "
                "(either number may be advertised; the freshness probe continues from the advertised one); at those crash "
                "points the link stays down for 3 cycles (receive pipeline drains while down) and usb_reset is not injected",
                "when the crash cuts a header packet off, the link stays down for 6 cycles during which the sink carries valid "
                "non-packet words (training sets / idle), as in a real Recovery",
                "the partner respects credits and answers LBAD with LRTY as in C37"]

    # ---------------------------------------------------------------------------------------------------------
    def apply(self, cur, env, a):
        rt, fl, bud, done = env
        r = L.RxRef(self.n, rt)
        m = self.mon
        m.strict = False
        k = a[0]
        bud = list(bud)
        if k in ("down", "reset", "flush"):
            mid = bool(fl)
            late = bool(r.extra) and r.extra[0] <= 2      # a header's last word arrived 1..3 cycles before the crash
            self.cover["crash:midpacket" if mid else "crash:late-header" if late else "crash:" + k] += 1
            try:
                self.crash(cur, r, a, late and r.extra[1])
            except Violation as v:
                if mid: raise Violation("midpacket:" + v.rule, v.detail)
                if late: raise Violation("late-header:" + v.rule, v.detail)
                raise
            return ((), (), (), 1)
        if k in ("w", "hp"):
            if k == "hp":
                fl = (0, r.exp_seq, bud[0] & 1, a[1])
                bud[0] += 1
                if a[1]: bud[1] += 1
                ready = 1
            else:
                ready = a[1]
                if not ready: bud[4] += 1
            i, seq, content, corrupt = fl
            c = L.CONTENTS[content]
            w = L.header_words(c[0], c[1], c[2], seq, hub_depth=c[3], delayed=c[4], deferred=c[5], bad_crc16=(corrupt == 2))[i]
            m.cyc(cur, r, sink=w, ready=ready)
            if i == 4:
                res = m.header_arrived(r, seq, content, corrupt == 0)
                r.extra = (0, res == "accept")
                self.cover["hp:" + res] += 1
                fl = ()
            else:
                fl = (i + 1, seq, content, corrupt)
        elif k == "t":
            m.cyc(cur, r, ready=a[1])
            if not a[1]: bud[4] += 1
        elif k == "c":
            m.cyc(cur, r, q_ready=1)
        elif k == "ka":
            m.cyc(cur, r, keepalive_required=1); bud[2] += 1
        elif k == "rreq":
            m.cyc(cur, r, retry_required=1); bud[3] += 1
        elif k == "lrty":
            m.send_lrty(cur, r)
        return (r.freeze(), fl, tuple(bud), 0)

    # ---------------------------------------------------------------------------------------------------------
    def crash(self, cur, r, a, pipeline_header):
        n = self.n
        if a[0] in ("down", "flush"):
            _, kdown, rdy = a
            plan = [dict(enable=0, src_ready=rdy, sink_valid=(1 if a[0] == "flush" else rdy)) for _ in range(kdown)]
            is_reset = False
        else:
            is_reset = True
            if a[1] == "strobe": plan = [dict(usb_reset=1)]
            elif a[1] == "down": plan = [dict(enable=0, usb_reset=1, src_ready=0), dict(enable=0, src_ready=0)]
            else: plan = [dict(enable=0, src_ready=1), dict(enable=0, usb_reset=1, src_ready=1), dict(enable=0, src_ready=1)]
        adv = 7 if is_reset else (r.exp_seq - 1) & 7
        # a good header whose last word arrived 1..3 cycles before the crash may or may not count as received
        alts = [adv] + ([(adv - 1) & 7] if pipeline_header else [])
        state_names = dict(lc_in_flight=r.lc_hdr, acks_owed=list(r.acks), credits_owed=r.freeun, lbad_owed=r.lbad_owed)
        # -- run: t = cycles since the crash began
        lc_hdr = r.lc_hdr
        presented_at = -1 if lc_hdr else None      # when the LCSTART of the command being sent was first presented
        cmds = []                                   # (name, subtype) of commands started after the crash (not tolerated)
        tolerated = []
        t = 0
        quiet = 0
        k_down = len(plan)
        offered = 0
        limit = k_down + 16 + 6 * (n + 4)
        while t < limit:
            kw = plan[t] if t < k_down else {}
            if t == 0 and r.rr: kw = dict(kw, retry_received=1)
            ready = kw.get("src_ready", 1)
            o = cur.step(**kw)
            if o.src_valid:
                w = (o.src_data, o.src_ctrl)
                if not lc_hdr:
                    if presented_at is None: presented_at = t
                    if w != L.LCSTART:
                        raise Violation("source:not-a-link-command", dict(word=hex(w[0]), ctrl=w[1], t=t))
                    if ready: lc_hdr = 1
                elif ready:
                    lc_hdr = 0
                    lc = L.parse_link_command(*w)
                    if lc is None:
                        raise Violation("source:malformed-link-command", dict(word=hex(w[0]), ctrl=w[1], t=t))
                    item = (L.LC_NAMES.get(lc[0], str(lc[0])), lc[1])
                    if presented_at <= 1:
                        tolerated.append(item)               # was already on its way when the crash hit
                    elif t < k_down:
                        pass                                    # sent while the link was down: nobody listens
                    else:
                        cmds.append(item)
                    presented_at = None
            if t >= k_down:
                offered = o.q_valid
                quiet = 0 if (o.src_valid or lc_hdr) else quiet + 1
                if quiet >= QUIET: break
            t += 1
        if tolerated: self.cover["crash:command-in-flight-completed"] += 1
        detail = dict(crash=list(a), before=state_names, commands_after_reenable=[f"{c}_{s}" for c, s in cmds],
                      tolerated_in_flight=[f"{c}_{s}" for c, s in tolerated],
                      expected=["LGOOD_" + "/".join(map(str, alts))] + [f"LCRD_{i}" for i in range(n)])
        if not cmds or cmds[0][0] != "LGOOD":
            raise Violation("readvertise:no-lgood-first", detail)
        if cmds[0][1] not in alts:
            raise Violation("readvertise:wrong-sequence-number", detail)
        adv = cmds[0][1]
        for i in range(n):
            if len(cmds) <= 1 + i:
                raise Violation("readvertise:credits-incomplete", detail)
            if cmds[1 + i][0] != "LCRD":
                raise Violation("readvertise:stale-command", dict(detail, extra=["%s_%d" % cmds[1 + i]]))
            if cmds[1 + i][1] != i:
                raise Violation("readvertise:credits-out-of-order", detail)
        if len(cmds) > 1 + n:
            raise Violation("readvertise:stale-command", dict(detail, extra=[f"{c}_{s}" for c, s in cmds[1 + n:]]))
        if offered:
            raise Violation("fresh:stale-buffered-header", dict(detail, note="queue.valid still high when the re-advertisement is over"))
        self.cover["readvertised"] += 1
        if is_reset: self.cover["readvertised-after-reset"] += 1
        # -- freshness probe under the C37 reference in its post-advertisement state
        f = L.RxRef(n)
        f.exp_seq = (adv + 1) & 7
        f.acks = (); f.adv = n; f.freeun = 0; f.lcrd_next = 0
        m = self.mon
        m.strict = True
        try:
            res = m.send_header(cur, f, f.exp_seq, 1, 0, 1, None)
            assert res == "accept"
            m.drain(cur, f)
            o = m.cyc(cur, f, q_ready=1)
            m.drain(cur, f)
            if f.fifo or f.adv != n:
                raise Violation("probe-header-not-consumed", dict(fifo=list(f.fifo), adv=f.adv))
        except Violation as v:
            raise Violation("fresh:" + v.rule, dict(detail, probe=v.detail))
        finally:
            m.strict = False
        self.cover["fresh-probe-passed"] += 1

    def goals(self):
        g = ["hp:accept", "hp:bad", "LGOOD", "LCRD", "LBAD", "LUP", "LRTY", "crash:command-in-flight-completed"]
        g += ["crash:midpacket"] if self.cfg["mid"] else []
        g += ["crash:down", "crash:reset", "crash:late-header", "readvertised", "fresh-probe-passed"]
        return g


def make(cfg, tier):
    L.calibrate()
    return ReadvSpec(cfg, tier)
