# C06 - SETUP requests are decoded exactly and survive earlier corrupted packets.
# DUT: USBDevice on a UTMI bus + USBControlEndpoint + a non-claiming probe request handler (so the decoded SetupPacket
# is observed exactly where every request handler sees it).  Macro-step mode: one action = one host packet.
from rtlmc.model import Design, Violation
from rtlmc.explore import Spec
from rtlmc import usbref as U
from rtlmc.env.usb2_host import Host, PruneCollision, utmi_design_ports, UTMI_DEFAULTS
from rtlmc.env.probes import ProbeRequestHandler

PROPERTY = "C06"
LEVEL_TEXT = ("Every sequence of host packets (tokens, data packets incl. corrupted/aborted/odd-length ones, handshakes, SOFs) up to the depth "
              "bound is enumerated against the real USBDevice+USBControlEndpoint netlist; in every reached state a clean SETUP transaction is "
              "additionally probed (lookahead) and must be accepted and ACKed.")

S1 = U.setup_bytes(0x80, 0x06, 0x0100, 0x0000, 0x0012)      # distinct bytes in every field
S2 = U.setup_bytes(0x21, 0x22, 0x5AA5, 0x1234, 0xFEDC)
S3 = (0x01, 0x02, 0x04, 0x08, 0x10, 0x20, 0x40, 0x80)
PAYLOADS = {"S1": S1, "S2": S2, "S3": S3, "len7": S1[:7], "len9": S1 + (0x55,), "len0": (),
            # CRC-valid payloads whose length is 8 modulo 16 (a position counter that wraps would take them for 8 bytes)
            "len24": S2 + S1 + S3, "len40": S3 + S1 + S2 + S1 + S3}


def configs(tier):
    cs = [dict(gap=1, pace=1), dict(gap=4, pace=1), dict(gap=2, pace=8)]
    if tier == "thorough":
        cs += [dict(gap=1, pace=2), dict(gap=7, pace=1), dict(gap=3, pace=8, ready=8)]
    for c in cs: c["depth"] = 4 if tier == "quick" else 5
    return cs


class SetupSpec(Spec):
    n_validate = 5

    def __init__(self, cfg, tier):
        super().__init__(cfg, tier)
        self.max_depth = cfg["depth"]
        self.time_budget = 600 if tier == "quick" else 1500   # safety net only: the depth bound is the real bound
        self.host = Host(gap=cfg["gap"], pace=cfg["pace"], ready_period=cfg.get("ready", 1), extra=dict(connect=1))
        toks = [("tok", U.SETUP, 0, 0), ("tok", U.SETUP, 0, 1), ("tok", U.SETUP, 5, 0), ("tok", U.IN, 0, 0), ("tok", U.OUT, 0, 0),
                ("sof", 0x2A5), ("hs", U.ACK),
                ("tokcut", U.SETUP, 0, 0, 2), ("tokcut", U.OUT, 0, 0, 1), ("toklong", U.SETUP, 0, 0)]
        data = [("data", U.DATA0, p, "ok") for p in ("S1", "S2", "S3", "len7", "len9", "len0", "len24", "len40")]
        data += [("data", U.DATA0, "S1", "badcrc"), ("data", U.DATA0, "S2", "abort4"), ("data", U.DATA0, "S1", "abort0"),
                 ("data", U.DATA1, "S3", "ok"),
                 # an over-long packet whose first ten bytes are a valid setup payload + its CRC16, followed by more bytes
                 ("data", U.DATA0, "S3", "tail2"), ("data", U.DATA0, "S2", "tail3")]
        self._acts = toks + data

    def build(self):
        from luna.gateware.usb.usb2.device import USBDevice
        from luna.gateware.interface.utmi import UTMIInterface
        utmi = UTMIInterface()
        dev = USBDevice(bus=utmi)
        ep = dev.add_control_endpoint()
        probe = ProbeRequestHandler()
        ep.add_request_handler(probe)
        ins, obs = utmi_design_ports(utmi)
        ins["connect"] = dev.connect
        s = probe.interface.setup
        obs.update(received=s.received, is_in=s.is_in_request, type=s.type, recipient=s.recipient, request=s.request,
                   value=s.value, index=s.index, length=s.length)
        return Design(dev, ins, obs, dict(UTMI_DEFAULTS, connect=1))

    def assumptions(self):
        return self.host.assumptions() + ["device address stays 0 (no handler claims SET_ADDRESS in this DUT)",
                                          "SETUP data stages use DATA0 as the specification requires; DATA1 packets are sent but their acceptance is not judged"]

    # env = (armed, stale): armed = 1 iff the previous packet was a SETUP token addressed to (address 0, endpoint 0);
    # stale = 1 iff such a token was followed by one or more packets other than a token addressed to this device
    # (SOF, handshake, token for another address, a data packet) -- only used to give the situation "data packet
    # accepted as SETUP data although the SETUP token was not the immediately preceding packet" its own signature.
    def env0(self): return (0, 0)
    def actions(self, env): return self._acts
    def goals(self): return ["accepted", "rejected-corrupt", "rejected-length", "rejected-unarmed", "lookahead-accepted"]

    def _packet(self, a):
        if a[0] == "tok": return U.token(a[1], a[2], a[3]), None
        if a[0] == "tokcut": return U.token(a[1], a[2], a[3]), a[4]          # PHY drops rx_active after a[4] bytes of the token
        if a[0] == "toklong": return U.token(a[1], a[2], a[3]) + (0x00,), None   # a fourth byte: not a token
        if a[0] == "sof": return U.sof(a[1]), None
        if a[0] == "hs": return U.handshake(a[1]), None
        _, pid, pl, var = a
        payload = PAYLOADS[pl]
        pkt = U.data_packet(pid, payload, corrupt=(var == "badcrc"))
        if var == "tail2": pkt = pkt + (0x5A, 0xC3)
        if var == "tail3": pkt = pkt + (0x00, 0xFF, 0x81)
        abort = None
        if var == "abort4": abort = 5          # PID + 4 payload bytes, then the PHY drops rx_active
        if var == "abort0": abort = 1
        return pkt, abort

    def _send(self, cur, a, armed):
        """returns (response, strobes) where strobes = list of decoded setups seen during the event"""
        seen = []
        def watch(o):
            if o.received:
                seen.append((o.is_in, o.type, o.recipient, o.request, o.value, o.index, o.length))
        self.host.on_cycle = watch
        pkt, abort = self._packet(a)
        expect = a[0] == "data" or (a[0] == "tok" and a[1] == U.IN)
        try:
            resp = self.host.send(cur, pkt, expect, abort_after=abort)
        finally:
            self.host.on_cycle = None
        return resp, seen

    def _judge(self, a, armed, resp, seen, where, stale=0):
        is_setup_data = a[0] == "data" and armed
        good = is_setup_data and a[1] == U.DATA0 and a[3] == "ok" and len(PAYLOADS[a[2]]) == 8
        if a[0] == "data" and a[1] != U.DATA0:
            return      # not judged (see assumptions)
        if good:
            b = PAYLOADS[a[2]]
            exp = (b[0] >> 7, (b[0] >> 5) & 3, b[0] & 0x1F, b[1], b[2] | b[3] << 8, b[4] | b[5] << 8, b[6] | b[7] << 8)
            if len(seen) == 0: raise Violation(where + "setup-missed", dict(action=a, response=resp))
            if len(seen) > 1: raise Violation(where + "setup-reported-twice", dict(action=a))
            if seen[0] != exp: raise Violation(where + "setup-fields-wrong", dict(expected=exp, got=seen[0]))
            if resp is None: raise Violation(where + "setup-not-acked", dict(action=a))
            if U.classify_device_packet(resp) != ("hs", U.ACK): raise Violation(where + "setup-wrong-handshake", dict(resp=resp))
            self.cover["accepted"] += 1
        else:
            if seen:
                if a[0] == "data" and not armed and stale and a[3] == "ok" and len(PAYLOADS[a[2]]) == 8:
                    raise Violation(where + "spurious-setup-report:data-after-intervening-packet", dict(action=a, got=seen[0]))
                raise Violation(where + "spurious-setup-report", dict(action=a, armed=armed, got=seen[0]))
            if is_setup_data and resp is not None:
                raise Violation(where + "invalid-setup-data-answered", dict(action=a, resp=resp))
            if a[0] == "data":
                if not armed: self.cover["rejected-unarmed"] += 1
                elif a[3] != "ok": self.cover["rejected-corrupt"] += 1
                else: self.cover["rejected-length"] += 1

    def apply(self, cur, env, a):
        armed, stale = env
        try:
            resp, seen = self._send(cur, a, armed)
        except PruneCollision:
            return None
        self._judge(a, armed, resp, seen, "", stale)
        armed2 = 1 if (a[0] == "tok" and a[1] == U.SETUP and a[2] == 0 and a[3] == 0) else 0
        tok_to_us = a[0] == "tok" and a[2] == 0
        stale2 = 1 if ((armed or stale) and not tok_to_us) else 0
        self.outcomes.add((a[0], resp, tuple(seen)))
        # lookahead: a clean SETUP transaction from this state must be accepted
        f = cur.fork()
        try:
            r1, s1 = self._send(f, ("tok", U.SETUP, 0, 0), 0)
            if s1: raise Violation("lookahead:spurious-setup-report", dict(after=a))
            la = ("data", U.DATA0, "S2", "ok")
            r2, s2 = self._send(f, la, 1)
            self._judge(la, 1, r2, s2, "lookahead:")
            self.cover["lookahead-accepted"] += 1
        except PruneCollision:
            pass
        return (armed2, stale2)


def make(cfg, tier):
    return SetupSpec(cfg, tier)
