# C27 - ConstantStreamGenerator / StreamSerializer emit exactly the requested slice.   Per-cycle BFS.
#
# Environment: while the generator is idle, every (start, start_position, max_length[, data set]) combination is
# applied in every cycle (so runs are chained after every possible predecessor run and idle history); from the start
# strobe to `done` the control inputs are held and `stream.ready` is free in every cycle (all stall patterns,
# including stalls on the first and on the last word).
#
# Oracle (from the statement, no latency demanded): the words presented must be, in order, the rows
# start_position, start_position+1, ... of the data, cut after min(max_length, bytes remaining) bytes;
# `first` exactly on the first word, `last` exactly on the final word; every non-final word has all byte-valid bits
# set and the final word exactly as many as it carries bytes; `done` pulses once after (or with) the hand-over of
# the final word and not before; nothing is presented for max_length == 0, nor after the final word.
# A word is identified in the cycles it is presented (valid != 0); it must stay put until ready (it is compared
# against the same expected word every cycle).  Up to SLACK bubble cycles are tolerated before a word / before done.
#
# Byte lanes of 32-bit words: little endian -> lane j carries byte j.  For big endian the statement leaves the
# placement of a *partial* word open, so two conventions are admitted (consistently for the whole exploration):
#   'packed' - the n bytes sit in the n low lanes, first byte in the highest of them (= int.from_bytes(part, "big"));
#   'fixed'  - byte j always sits in lane 3-j, the valid bits cover the n top lanes.
from rtlmc.model import Design, Violation
from rtlmc.explore import Spec

PROPERTY = "C27"
TECHNIQUE = "per-cycle BFS; idle inputs free, control inputs held during a run, ready free"
SLACK = 8          # generous bubble window (cycles); the statement fixes no latency


def _const(L, width, endian="little", mlw=4):
    return dict(kind="const", length=L, width=width, endian=endian, mlw=mlw)


def _ser(L, mlw):
    return dict(kind="ser", length=L, mlw=mlw)


def configs(tier):
    if tier == "quick":                                   # 16 configurations = one wave on 16 cores
        c = [_const(L, 8) for L in (1, 5, 8)]
        c += [_const(4, 8, mlw=None), _const(6, 8, mlw=16)]
        c += [_const(L, 32) for L in (3, 5, 8, 9)]
        c += [_const(7, 32, mlw=None), _const(6, 32, mlw=16)]
        c += [_const(L, 32, "big") for L in (5, 8)]
        c += [_ser(2, 2), _ser(3, None), _ser(4, 3)]
        # data longer than the max_length counter can count: max_length near the top of its range makes
        # bytes_sent + bytes_per_word exceed 2**max_length_width (the sum must widen, not wrap)
        c += [_const(20, 32, mlw=4)]
        return c
    c = []
    for L in range(1, 10):
        for mlw in (None, 4, 16):
            c.append(_const(L, 8, mlw=mlw))
    for L in list(range(1, 10)) + [12, 13]:
        for mlw in (None, 5, 16):
            c.append(_const(L, 32, mlw=mlw))
            c.append(_const(L, 32, "big", mlw=mlw))
    for L in range(1, 7):
        for mlw in (None, 1, 3, 16):
            c.append(_ser(L, mlw))
    # data longer than the max_length counter range (see quick tier)
    c += [_const(18, 8, mlw=4), _const(20, 32, mlw=4), _const(24, 32, mlw=4), _const(22, 32, "big", mlw=4),
          _const(40, 32, mlw=5), _ser(10, 3)]
    return c


class GeneratorSpec(Spec):
    n_validate = 6

    def __init__(self, cfg, tier):
        super().__init__(cfg, tier)
        self.time_budget = 150 if tier == "quick" else 800     # a cap, not a target: a config explores in < 2 s
        self.kind = cfg["kind"]
        self.L = L = cfg["length"]
        self.mlw = cfg["mlw"]
        self.B = B = 4 if cfg.get("width") == 32 else 1
        self.endian = cfg.get("endian", "little")
        self.rows = (L + B - 1) // B
        # data sets (the serializer's runtime array gets two; the constant generator has one)
        self.datasets = [bytes((0xA1 + 0x11 * i) & 0xFF for i in range(L))]
        if self.kind == "ser":
            self.datasets.append(bytes((0x5E - 0x07 * i) & 0xFF for i in range(L)))
        # max_length alphabet
        if self.mlw:
            top = (1 << self.mlw) - 1
            mls = set(range(0, min(L + 2, top) + 1)) | {top}
            if self.mlw >= 10: mls |= {1000}
            self.mls = sorted(mls)
        else:
            self.mls = [L]                         # no max_length port: the limit is the data length
        self.interps = ("little",) if self.endian == "little" else ("packed", "fixed")
        idle = []
        for st in (0, 1):
            for sp in range(self.rows):
                for ml in self.mls:
                    for ds in range(len(self.datasets)):
                        idle.append(("i", st, sp, ml, ds))
        self._idle_acts = idle
        self._run_acts = [("r", 0), ("r", 1)]
        self._wcache = {}

    # ---- DUT
    def build(self):
        from luna.gateware.stream.generator import ConstantStreamGenerator, StreamSerializer
        from luna.gateware.stream import StreamInterface
        cfg = self.cfg
        ins, obs = {}, {}
        if self.kind == "const":
            kw = dict(max_length_width=self.mlw)
            if self.B == 4:
                from luna.gateware.usb.stream import SuperSpeedStreamInterface
                kw.update(stream_type=SuperSpeedStreamInterface, data_endianness=self.endian)
            d = ConstantStreamGenerator(self.datasets[0], **kw)
            if self.mlw:
                obs["output_length"] = d.output_length
        else:
            d = StreamSerializer(self.L, max_length_width=self.mlw)
            for i in range(self.L): ins[f"d{i}"] = d.data[i]
        ins["start"] = d.start
        if len(d.start_position): ins["start_position"] = d.start_position
        if self.mlw: ins["max_length"] = d.max_length
        ins["ready"] = d.stream.ready
        obs.update(valid=d.stream.valid, payload=d.stream.payload, first=d.stream.first, last=d.stream.last, done=d.done)
        self._has_sp = "start_position" in ins
        self._has_ol = "output_length" in obs
        return Design(d, ins, obs)

    # ---- reference
    def words(self, sp, ml, ds, interp):
        """list of (valid mask, payload restricted to the valid lanes, lane bit mask) for a run"""
        key = (sp, ml, ds, interp)
        r = self._wcache.get(key)
        if r is not None: return r
        B, L = self.B, self.L
        data = self.datasets[ds]
        nbytes = min(ml, L - sp * B)
        out = []
        pos = sp * B
        left = nbytes
        while left > 0:
            cnt = min(B, left)
            part = data[pos:pos + cnt]
            if B == 1:
                mask, val = 1, part[0]
                lanes = 0xFF
            else:
                if interp == "little":
                    lane_of = {j: part[j] for j in range(cnt)}
                elif interp == "packed" or cnt == B:
                    lane_of = {cnt - 1 - j: part[j] for j in range(cnt)}
                else:                       # fixed big-endian lanes
                    lane_of = {B - 1 - j: part[j] for j in range(cnt)}
                mask = val = lanes = 0
                for lane, byte in lane_of.items():
                    mask |= 1 << lane; val |= byte << (8 * lane); lanes |= 0xFF << (8 * lane)
            out.append((mask, val, lanes))
            pos += cnt; left -= cnt
        self._wcache[key] = out
        return out

    # env: ("idle", ztol, ran, interps) | ("run", sp, ml, ds, i, wait, interps) | ("fin", sp, ml, ds, wait, interps)
    def env0(self):
        return ("idle", 0, 0, self.interps)

    def actions(self, env):
        return self._idle_acts if env[0] == "idle" else self._run_acts

    def label(self, a):
        if a[0] == "i":
            return dict(start=a[1], start_position=a[2], max_length=a[3], dataset=a[4])
        return dict(ready=a[1])

    def assumptions(self):
        return ["start is strobed only while the generator is idle (not between a start and its done, nor in the done cycle)",
                "start_position, max_length and the serializer's data array are held from the start strobe until done",
                "start_position counts stream words and lies within the data (values beyond the last word are not applied)",
                f"up to {SLACK} bubble cycles are tolerated before each word and before done; no exact latency is demanded",
                "for big-endian 32-bit data either lane convention for a partial word is admitted (packed low lanes / fixed lanes)"]

    def goals(self):
        # every kind of run the alphabet of this configuration can produce must have been completed at least once
        g = {"stall-on-last-word", "stall-on-first-word", "chained-run"}
        if 0 in self.mls: g.add("zero-length-start")
        for sp in range(self.rows):
            for ml in self.mls:
                if ml > 0: g.update(self._run_features(sp, ml))
        return sorted(g)

    def _step0(self, cur, st, sp, ml, ds, ready):
        kw = dict(start=st, ready=ready)
        if self._has_sp: kw["start_position"] = sp
        if self.mlw: kw["max_length"] = ml
        if self.kind == "ser":
            data = self.datasets[ds]
            for i in range(self.L): kw[f"d{i}"] = data[i]
        return cur.step(**kw)

    def _step(self, cur, st, sp, ml, ds, ready):
        o = self._step0(cur, st, sp, ml, ds, ready)
        self.outcomes.add((o.valid, o.first, o.last, o.done))
        return o

    def _check_word(self, o, sp, ml, ds, i, interps):
        """the stream presents a word (valid != 0) that must be word i of the run; returns the surviving conventions"""
        ctx = dict(start_position=sp, max_length=ml, word_index=i)
        survivors = []
        whys = []
        for ip in interps:
            ws = self.words(sp, ml, ds, ip)
            if i >= len(ws):
                raise Violation("extra-word-after-last", dict(ctx, words_expected=len(ws), valid=o.valid, payload=hex(o.payload)))
            mask, val, lanes = ws[i]
            if o.valid != mask:
                whys.append(("valid-mask", dict(expected=bin(mask), got=bin(o.valid), convention=ip))); continue
            if (o.payload & lanes) != val:
                whys.append(("payload", dict(expected=hex(val), got=hex(o.payload & lanes), convention=ip))); continue
            survivors.append(ip)
        if not survivors:
            # what kind of word is it?  (part of the rule: a full word going wrong is a different defect from a cut one)
            avail = self.L - sp * self.B
            nbytes = min(ml, avail)
            if (i + 1) * self.B <= nbytes: kind = "full-word"
            elif ml < avail: kind = "word-cut-by-max-length"
            else: kind = "word-short-by-data-length"
            # name it after the convention that got furthest (payload mismatch = the valid mask was accepted)
            best = next((w for w in whys if w[0] == "payload"), whys[0])
            rule = f"{best[0]}:{kind}" + (":big-endian" if self.endian == "big" else "")
            raise Violation(rule, dict(ctx, **best[1], per_convention=[w[1] for w in whys]))
        n = len(self.words(sp, ml, ds, survivors[0]))
        if o.first != (1 if i == 0 else 0):
            raise Violation("first-flag", dict(ctx, expected=int(i == 0), got=o.first))
        if o.last != (1 if i == n - 1 else 0):
            raise Violation("last-flag", dict(ctx, expected=int(i == n - 1), got=o.last, words_expected=n))
        if self._has_ol and sp == 0 and o.output_length != min(ml, self.L):
            # the class documents output_length = min(data length, max_length); with start_position 0 that is also the
            # number of bytes actually sent, so both readings agree
            raise Violation("output-length", dict(ctx, expected=min(ml, self.L), got=o.output_length))
        return tuple(survivors), n

    def _run_cycle(self, o, ready, sp, ml, ds, i, wait, interps):
        """one cycle between start and done.  returns the next env"""
        ctx = dict(start_position=sp, max_length=ml, word_index=i)
        if o.valid:
            interps, n = self._check_word(o, sp, ml, ds, i, interps)
            final = (i == n - 1)
            if o.done and not (final and ready):
                raise Violation("early-done", ctx)
            if not ready:
                self.cover["stall-on-last-word" if final else "stall"] += 1
                if i == 0: self.cover["stall-on-first-word"] += 1
                return ("run", sp, ml, ds, i, 0, interps)
            if not final:
                return ("run", sp, ml, ds, i + 1, 0, interps)
            self._cover_run(sp, ml, ds, n, interps)
            if o.done:                                   # done together with the final hand-over: admitted
                return ("idle", 0, 1, interps)
            return ("fin", sp, ml, ds, 0, interps)
        if o.done:
            raise Violation("early-done", ctx)
        if wait >= SLACK:
            raise Violation("no-word-offered", ctx)
        return ("run", sp, ml, ds, i, wait + 1, interps)

    def _run_features(self, sp, ml):
        """cover-goal names a completed run (start_position sp, max_length ml > 0) stands for"""
        f = ["run-completed"]
        avail = self.L - sp * self.B
        n = len(self.words(sp, ml, 0, self.interps[0]))
        if sp: f.append("start-position-nonzero")
        if n > 1: f.append("multi-word-run")
        if self.mlw:
            if ml < avail: f.append("cut-by-max-length")
            if ml > self.L: f.append("max-length-beyond-data")
            if self.B == 4 and ml < avail and ml % 4: f.append("partial-word-by-max-length")
        if self.B == 4 and ml >= avail and avail % 4: f.append("partial-word-by-data-length")
        return f

    def _cover_run(self, sp, ml, ds, n, interps):
        for f in self._run_features(sp, ml): self.cover[f] += 1

    def apply(self, cur, env, a):
        ph = env[0]
        if ph == "idle":
            _, ztol, ran, interps = env
            _, st, sp, ml, ds = a
            o = self._step(cur, st, sp, ml, ds, 0)
            if st and ml > 0:
                if ran: self.cover["chained-run"] += 1
                if o.done: raise Violation("spurious-done", dict(when="start cycle"))
                if o.valid:      # combinational start -> valid would be admissible; treat it as the first run cycle
                    return self._run_cycle(o, 0, sp, ml, ds, 0, 0, interps)
                return ("run", sp, ml, ds, 0, 0, interps)
            if o.valid:
                raise Violation("emits-on-zero-length" if (ztol or (st and ml == 0)) else "valid-while-idle",
                                dict(valid=o.valid, payload=hex(o.payload)))
            if st and ml == 0:
                self.cover["zero-length-start"] += 1
                return ("idle", 1, ran, interps)
            if o.done and not ztol:
                raise Violation("spurious-done", dict(when="idle"))
            return ("idle", ztol, ran, interps)
        if ph == "run":
            _, sp, ml, ds, i, wait, interps = env
            o = self._step(cur, 0, sp, ml, ds, a[1])
            return self._run_cycle(o, a[1], sp, ml, ds, i, wait, interps)
        # fin: final word handed over, waiting for done
        _, sp, ml, ds, wait, interps = env
        o = self._step(cur, 0, sp, ml, ds, a[1])
        if o.valid:
            raise Violation("extra-word-after-last", dict(start_position=sp, max_length=ml, valid=o.valid, payload=hex(o.payload)))
        if o.done:
            return ("idle", 0, 1, interps)
        if wait >= SLACK:
            raise Violation("done-missing", dict(start_position=sp, max_length=ml))
        return ("fin", sp, ml, ds, wait + 1, interps)


def make(cfg, tier):
    return GeneratorSpec(cfg, tier)


# ---- a configuration of the statement's space whose DUT cannot even be elaborated is a finding, not a machinery error
def _elaboration_failure(cfg, tier):
    from amaranth.hdl import Fragment
    spec = make(cfg, tier)
    try:
        Fragment.get(spec.build().dut, None)
    except Exception as e:                      # noqa: any exception raised by the class' own elaborate()
        import traceback
        tb = traceback.extract_tb(e.__traceback__)
        where = next((f"{f.filename}:{f.lineno}" for f in reversed(tb) if "/luna/" in f.filename), "?")
        return spec, dict(error=f"{type(e).__name__}: {e}", where=where)
    return spec, None


def _elab_rule(cfg):
    return "elaboration-fails:without-max-length-width" if cfg.get("mlw") is None else "elaboration-fails"


def run_config(cfg, tier, seed):
    from rtlmc import explore
    spec, fail = _elaboration_failure(cfg, tier)
    if fail:
        return dict(config=cfg, states=0, transitions=0, depth=0, exhaustive=False,
                    caps=["the class does not elaborate in this configuration; nothing explored"],
                    violations=[dict(rule=_elab_rule(cfg), detail=fail, path=[], count=1)],
                    traces_validated=0, cycles_validated=0, samples=[], cover={}, unmet_goals=[], outcomes=0,
                    assumptions=spec.assumptions())
    return explore.run_spec(make(cfg, tier), seed)


def replay(cfg, tier, payload):
    """returns (ok, msg); ok == True means the recorded violation did NOT reproduce"""
    from rtlmc import explore, pysim
    from rtlmc.model import Model
    spec, fail = _elaboration_failure(cfg, tier)
    if fail:
        return False, f"rule={_elab_rule(cfg)} detail={fail}"
    if payload["rule"].startswith("elaboration-fails"):
        return True, "the class elaborates in this configuration"

    def tup(x):
        return tuple(tup(y) for y in x) if isinstance(x, list) else x
    spec = make(cfg, tier)
    model = Model(spec.build)
    log = []
    try:
        explore.run_path(model, spec, tup(payload["path"]), log)
        ok, msg = True, "path executed without violating the oracle"
    except Violation as e:
        ok, msg = False, f"rule={e.rule} detail={e.detail}"
    n = pysim.replay(model, log, None)
    return ok, msg + f" [trace of {n} cycles reproduced identically in amaranth.sim]"
