# C28 - USBOutStreamBoundaryDetector marks first/last bytes and delays completion.   Per-cycle closure.
#
# Environment (per cycle): unprocessed_stream (valid, next, payload) following the USBOutStream/UTMI rule, x complete_in x
# invalid_in in any cycle.  Packet lengths are unbounded (closure), including packets without any byte.
#
# Oracle (reference written from the statement; byte transfer on either stream = valid & next):
#   bytes      every byte received is output exactly once, in order, unchanged; nothing else is output;
#   first/last `first` is high exactly on a packet's first byte and `last` exactly on its final byte (flags are only
#              looked at on output transfers);
#   delivery   (bounded liveness, no exact latency demanded) a byte whose successor / packet end is known is output
#              within K_BYTE cycles;
#   strobes    complete_out / invalid_out are one-cycle reports: allowed only in a cycle strictly after the one in which
#              the packet's last byte was output, at most once per packet, and only if the corresponding input strobe was
#              seen; a strobe seen inside the packet (after the cycle of its first byte, up to and including the first
#              cycle with valid low -- which is where LUNA's USBDataPacketReceiver raises packet_complete/crc_mismatch)
#              MUST be reported, within K_REP cycles of the last byte's output and before the next packet has ended.
#   Input strobes at other times (before/at the first byte, in byte-less packets, between packets) are not covered by
#   the statement: reporting them after the current/previous packet's last byte is tolerated, not required.
from rtlmc.model import Design, Violation
from rtlmc.explore import Spec

PROPERTY = "C28"

K_BYTE = 4
K_REP = 3


# Configurations with domain="other", clk=[divider of "other", divider of "usb"]: the detector is built with the
# non-default constructor parameter domain="other" inside a wrapper that also contains an unrelated "usb" domain ticking
# at a different (phase-locked) rate.  One action = one tick of the detector's own domain; everything is judged in
# those ticks, and the outputs must not move between them.
def configs(tier):
    if tier == "quick":
        return [dict(min_gap=2, payloads=[0x00, 0xA5], garbage=False),
                dict(min_gap=3, payloads=[0x5A, 0xFF], garbage=True),
                dict(min_gap=2, payloads=[0x00, 0xA5], garbage=False, domain="other", clk=[2, 1])]
    return [dict(min_gap=2, payloads=[0x00, 0xA5], garbage=False),
            dict(min_gap=2, payloads=[0x00, 0x01, 0x80, 0xFF], garbage=True),
            dict(min_gap=3, payloads=[0x5A, 0xFF, 0x00], garbage=True),
            dict(min_gap=6, payloads=[0x11, 0xEE], garbage=True),
            dict(min_gap=2, payloads=[0x00, 0xA5], garbage=False, domain="other", clk=[2, 1]),
            dict(min_gap=2, payloads=[0x3C, 0xC3], garbage=True, domain="other", clk=[1, 3]),
            dict(min_gap=3, payloads=[0x00, 0xFF], garbage=False, domain="other", clk=[3, 1]),
            dict(min_gap=2, payloads=[0x00, 0xA5], garbage=False, domain="other", clk=[1, 2])]


class BoundarySpec(Spec):
    n_validate = 8

    def __init__(self, cfg, tier):
        super().__init__(cfg, tier)
        self.time_budget = 150 if tier == "quick" else 800
        self.G = cfg["min_gap"]
        pv = cfg["payloads"]
        gv = [pv[0], pv[-1]] if cfg["garbage"] else [0]
        strobes = [(c, i) for c in (0, 1) for i in (0, 1)]
        self.a_low_only = [("lo", g, c, i) for g in gv for c, i in strobes]
        self.a_all = self.a_low_only + [("hi", g, c, i) for g in gv for c, i in strobes] + \
                     [("byte", v, c, i) for v in pv for c, i in strobes]

    def build(self):
        from luna.gateware.usb.stream import USBOutStreamBoundaryDetector
        clk = self.cfg.get("clk")
        if not clk:
            d = top = USBOutStreamBoundaryDetector()
            clocks = None
        else:
            from amaranth import Module, Signal, Elaboratable
            d = USBOutStreamBoundaryDetector(domain=self.cfg["domain"])

            class Wrapper(Elaboratable):
                def elaborate(self, platform):
                    m = Module()
                    m.submodules.detector = d
                    # the unrelated second domain, present and ticking at its own rate; and an anchor that keeps the
                    # detector's own domain in the netlist whatever the detector does with its `domain` parameter
                    m.d.usb += Signal(name="harness_usb_anchor").eq(1)
                    m.d[self_cfg_domain] += Signal(name="harness_own_anchor").eq(1)
                    return m
            self_cfg_domain = self.cfg["domain"]
            top = Wrapper()
            # own domain ticks on the LAST engine step of each of its periods: all steps of a period see the same state
            clocks = {self.cfg["domain"]: (clk[0], clk[0] - 1), "usb": (clk[1], 0)}
        u, p = d.unprocessed_stream, d.processed_stream
        return Design(top, dict(valid=u.valid, next=u.next, payload=u.payload, complete_in=d.complete_in, invalid_in=d.invalid_in),
                      dict(o_valid=p.valid, o_next=p.next, o_payload=p.payload, first=d.first, last=d.last,
                           complete_out=d.complete_out, invalid_out=d.invalid_out), clocks=clocks)

    def _own_tick(self, cur, phase, **kw):
        """advance the detector's own domain by one tick; returns (observation, new engine-step phase)"""
        clk = self.cfg.get("clk")
        if not clk:
            return cur.step(**kw), 0
        m = cur.model
        v = m.vec(**kw)
        lcm = max(clk)
        first = None
        for _ in range(clk[0]):
            o = cur.step_vec(v, m._masks[phase])
            phase = (phase + 1) % lcm
            if first is None: first = o
            elif o != first:
                raise Violation("output-changed-between-own-clock-ticks", dict(clk=clk, before=list(first), after=list(o)))
        return first, phase

    def assumptions(self):
        return ["multi-clock configurations: inputs change only at ticks of the detector's own domain; the second domain is phase-locked with an integer divider",
                "USBOutStream/UTMI rule: `next` is only asserted while `valid` is high; a packet is one contiguous `valid` period",
                f"`valid` stays low for at least min_gap (>= 2) cycles between packets (UTMI: RXActive is low for the EOP + inter-packet delay, several 60 MHz cycles)",
                "a byte is transferred on a stream in a cycle with valid & next; first/last are only meaningful on such cycles",
                "input strobes outside the window (first-byte cycle, first valid-low cycle] of a packet with bytes may be reported or dropped",
                f"bounded liveness: bytes are delivered within {K_BYTE} cycles of being decidable, reports within {K_REP} cycles of the last byte"]

    # env = (phase, low, queue, head_age, early, acc, rep, ck)      ck = engine step index mod lcm (multi-clock configs)
    #   phase  'gap' | 'pre' (valid high, no byte yet) | 'in' (valid high, >= 1 byte)
    #   low    cycles valid has been low (saturating at G); start allowed when low >= G
    #   queue  tuple of (payload, first, last) not yet output; last None = not yet decidable (newest byte of an open packet)
    #   early  None | claimed `last` of a byte that was output before its status was decidable
    #   acc    (must_c, may_c, must_i, may_i) input strobes collected for the packet in progress
    #   rep    None | (must_c, may_c, must_i, may_i, stage, age, done_c, done_i); stage 0 = last byte not yet output
    def env0(self):
        return ("gap", self.G, (), 0, None, (0, 0, 0, 0), None, 0)

    def actions(self, env):
        phase, low = env[0], env[1]
        if phase == "gap" and low < self.G: return self.a_low_only
        return self.a_all

    def label(self, a):
        return dict(stream=a[0], payload=a[1], complete_in=a[2], invalid_in=a[3])

    def apply(self, cur, env, a):
        phase, low, queue, head_age, early, acc, rep, ck = env
        op, val, cin, iin = a
        o, ck = self._own_tick(cur, ck, valid=int(op != "lo"), next=int(op == "byte"), payload=val, complete_in=cin, invalid_in=iin)
        queue = list(queue)
        info = dict(action=self.label(a), phase=phase, queue=[list(q) for q in queue], acc=list(acc), rep=list(rep) if rep else None,
                    out=dict(valid=o.o_valid, next=o.o_next, payload=o.o_payload, first=o.first, last=o.last,
                             complete_out=o.complete_out, invalid_out=o.invalid_out))

        # ---------------- 1. input side: update the reference with what the environment did in this cycle
        ended = False            # a packet with bytes ends in this cycle
        in_must_window = False
        if op == "byte":
            if phase == "in":
                if queue and queue[-1][2] is None: queue[-1] = (queue[-1][0], queue[-1][1], 0)
                if early is not None:
                    if early != 0: raise Violation("last-flag-wrong", dict(info, why="byte flagged last, but the packet went on"))
                    early = None
                queue.append((val, 0, None))
                in_must_window = True
                self.cover["packet_ge2_bytes"] += 1
                if len(queue) == 1: self.cover["byte_after_pause"] += 1
            else:
                queue.append((val, 1, None))
                if phase == "gap": self.cover["byte_in_first_valid_cycle"] += 1
            phase, low = "in", 0
        elif op == "hi":
            if phase == "in": in_must_window = True; self.cover["pause_between_bytes"] += 1
            elif phase == "gap": phase = "pre"
            low = 0
        else:  # lo
            if phase == "in":
                ended = True; in_must_window = True
                if queue and queue[-1][2] is None: queue[-1] = (queue[-1][0], queue[-1][1], 1)
                if early is not None:
                    if early != 1: raise Violation("last-flag-wrong", dict(info, why="final byte of the packet was output without `last`"))
                    early = None
                if queue and queue[-1][1] == 1 and queue[-1][2] == 1: self.cover["one_byte_packet"] += 1
            elif phase == "pre":
                self.cover["byte_less_packet"] += 1
            low = min(low + 1, self.G) if phase == "gap" else 1
            phase = "gap"
        # input strobes
        mc, yc, mi, yi = acc
        if in_must_window:
            mc |= cin; mi |= iin
        else:
            yc |= cin; yi |= iin
        acc = (mc, yc, mi, yi)
        if in_must_window and (cin or iin): self.cover["strobe_inside_packet"] += 1
        if ended and (cin or iin): self.cover["strobe_in_end_cycle"] += 1

        # ---------------- 2. output side
        # 2a. report strobes (checked before this cycle's byte output is accounted: a report must come strictly later)
        for name, got, im, iy, idone in (("complete_out", o.complete_out, 0, 1, 6), ("invalid_out", o.invalid_out, 2, 3, 7)):
            if not got: continue
            if rep is not None and rep[4] == 1 and (rep[im] or rep[iy]) and not rep[idone]:
                r = list(rep); r[idone] = 1; rep = tuple(r)
                self.cover[name + "_reported"] += 1
                continue
            if (rep is not None and rep[4] == 0 and (rep[im] or rep[iy])) or ((acc[im] or acc[iy]) and (phase != "gap" or ended)):
                raise Violation(name + "-before-last-byte", info)
            if rep is not None and rep[idone]:
                raise Violation(name + "-duplicate", info)
            raise Violation(name + "-spurious", info)

        # 2b. a packet with bytes has ended: its collected strobes become the report that is owed
        if ended:
            if rep is not None:
                for name, im, idone in (("complete_out", 0, 6), ("invalid_out", 2, 7)):
                    if rep[im] and not rep[idone]: raise Violation(name + "-missing", dict(info, why="next packet ended first"))
            stage = 0 if queue else 1
            rep = acc + (stage, 0, 0, 0)
            acc = (0, 0, 0, 0)
        elif op == "lo" and phase == "gap" and (acc != (0, 0, 0, 0)):
            # strobes outside any packet with bytes (byte-less packet / idle bus): tolerated allowance only
            if rep is not None:
                r = list(rep); r[1] |= acc[0] | acc[1]; r[3] |= acc[2] | acc[3]; rep = tuple(r)
            else:
                rep = (0, acc[0] | acc[1], 0, acc[2] | acc[3], 1, 0, 0, 0)
            acc = (0, 0, 0, 0)

        # 2c. byte output
        if o.o_valid and o.o_next:
            if not queue:
                raise Violation("output-without-input", info)
            pay, fst, lst = queue.pop(0)
            if o.o_payload != pay:
                raise Violation("payload-mismatch", dict(info, expected=pay))
            if o.first != fst:
                raise Violation("first-flag-wrong", dict(info, expected=fst))
            if lst is None:
                early = o.last
            elif o.last != lst:
                raise Violation("last-flag-wrong", dict(info, expected=lst))
            head_age = 0
            if fst: self.cover["first_byte_out"] += 1
            if lst == 1:
                self.cover["last_byte_out"] += 1
                if rep is not None and rep[4] == 0:
                    r = list(rep); r[4] = 1; r[5] = 0; rep = tuple(r)
                    # (the age of the report clock starts in the next cycle)
                    return self._ret(phase, low, queue, head_age, early, acc, rep, ck, aged=False)
        elif o.o_next and not o.o_valid:
            raise Violation("next-without-valid-on-output", info)
        elif queue and queue[0][2] is not None:
            head_age += 1
            if head_age > K_BYTE:
                raise Violation("byte-not-delivered", dict(info, waited=head_age))
        return self._ret(phase, low, queue, head_age, early, acc, rep, ck, aged=True)

    def _ret(self, phase, low, queue, head_age, early, acc, rep, ck, aged):
        if rep is not None and rep[4] == 1 and aged:
            r = list(rep); r[5] += 1
            if r[5] > K_REP:
                if r[0] and not r[6]: raise Violation("complete_out-missing", dict(rep=r))
                if r[2] and not r[7]: raise Violation("invalid_out-missing", dict(rep=r))
                rep = None
            else:
                rep = tuple(r)
        if len(queue) > 6:
            raise Violation("byte-not-delivered", dict(queue=queue))
        return (phase, low, tuple(queue), head_age, early, acc, rep, ck)

    def goals(self):
        return ["first_byte_out", "last_byte_out", "one_byte_packet", "packet_ge2_bytes", "pause_between_bytes", "byte_less_packet",
                "complete_out_reported", "invalid_out_reported", "strobe_in_end_cycle", "strobe_inside_packet", "byte_in_first_valid_cycle"]


def make(cfg, tier):
    return BoundarySpec(cfg, tier)
