# C55 - stretch_strobe_signal holds its output for exactly the requested time.   Per-cycle closure over strobe in {0,1}.
#
# DUT: a two-line wrapper Module around the real helper luna.gateware.utils.cdc.stretch_strobe_signal.
# Oracle (from the statement): with N = to_cycles, the output in cycle t is high iff a strobe was sampled in one of the
# cycles t-N+1 .. t (no delay), or -- when delay is *allowed* -- alternatively in one of t-N .. t-1.  "allow_delay"
# permits but does not require the one-cycle shift, so for allow_delay=True both alignments are admitted as a
# candidate set that is pruned by the observations and never refilled (the alignment must be one and the same for the
# whole run).
from rtlmc.model import Design, Violation
from rtlmc.explore import Spec

PROPERTY = "C55"
TECHNIQUE = "explicit-state model checking (BFS closure over all strobe patterns) of the elaborated helper; traces replayed in amaranth.sim"


def configs(tier):
    ns = range(1, 7) if tier == "quick" else range(1, 15)
    out = []
    for n in ns:
        for delay in (False, True):
            out.append(dict(to_cycles=n, allow_delay=delay, domain="sync", given_output=False))
    # the optional arguments: caller-provided output signal, explicit domain object
    for n in ((2, 5) if tier == "quick" else (2, 3, 5, 8)):
        for delay in (False, True):
            out.append(dict(to_cycles=n, allow_delay=delay, domain="usb", given_output=True))
    # non-default domain on a clock of its own: the helper is built for domain "other" while an unrelated "sync" domain
    # is present in the wrapper and ticks at a different rate.  clk = [divider of "other", divider of "sync"] (one of
    # them 1).  One action = one tick of the helper's own domain; outputs are judged in those ticks.
    multi = [(3, True, [2, 1])] if tier == "quick" else \
            [(3, True, [2, 1]), (3, False, [2, 1]), (2, True, [1, 3]), (4, True, [1, 2]), (4, False, [1, 3]), (5, True, [3, 1]), (1, True, [2, 1])]
    for n, delay, clk in multi:
        out.append(dict(to_cycles=n, allow_delay=delay, domain="other", given_output=False, clk=clk))
    return out


def _build(cfg):
    from amaranth import Module, Signal, Elaboratable
    from luna.gateware.utils.cdc import stretch_strobe_signal

    class Wrapper(Elaboratable):
        def __init__(self):
            self.strobe = Signal()
            self.output = Signal() if cfg["given_output"] else None
            self.returned = None

        def elaborate(self, platform):
            m = Module()
            kw = {}
            if cfg["domain"] != "sync": kw["domain"] = m.d[cfg["domain"]]
            if cfg["given_output"]: kw["output"] = self.output
            self.returned = stretch_strobe_signal(m, self.strobe, to_cycles=cfg["to_cycles"], allow_delay=cfg["allow_delay"], **kw)
            if cfg["to_cycles"] == 1:
                # to_cycles=1 is purely combinational; the engine's amaranth.sim replay needs a clock domain to
                # exist, so give the wrapper one unrelated register (it feeds nothing).
                m.d[cfg["domain"]] += Signal(name="harness_clock_anchor").eq(1)
            if cfg.get("clk"):
                # the unrelated second domain: present, ticking at its own rate, feeding nothing
                m.d.sync += Signal(name="harness_sync_anchor").eq(1)
                # (and make sure the helper's own domain exists in the netlist whatever the helper does with it:
                # the engine's amaranth.sim replay ignores the dividers when only one domain is left)
                m.d.other += Signal(name="harness_other_anchor").eq(1)
            return m

    # the helper creates its output signal at elaboration time when none is given: elaborate the wrapper once by hand
    # so that the returned Signal can be observed (Fragment.get() of the prepared Module is what the engine compiles).
    w = Wrapper()
    m = w.elaborate(None)
    if cfg["given_output"] and w.returned is not w.output:
        raise AssertionError("helper did not return the output signal it was given")
    return m, w.strobe, w.returned


class StretchSpec(Spec):
    n_validate = 3

    def __init__(self, cfg, tier):
        super().__init__(cfg, tier)
        self.n = cfg["to_cycles"]
        self.time_budget = 150 if tier == "quick" else 800

    def build(self):
        m, strobe, output = _build(self.cfg)
        clk = self.cfg.get("clk")
        if not clk:
            return Design(m, dict(strobe=strobe), dict(output=output))
        # the helper's own domain ticks on the LAST engine step of each of its periods, so that all steps of one
        # period see the same register state and the same inputs
        return Design(m, dict(strobe=strobe), dict(output=output),
                      clocks={"other": (clk[0], clk[0] - 1), "sync": (clk[1], 0)})

    def env0(self):
        # (strobe history, most recent last, N samples: cycles t-N .. t-1) , admitted alignments, engine step index mod lcm
        return ((0,) * self.n, (0, 1) if self.cfg["allow_delay"] else (0,), 0)

    def _own_tick(self, cur, phase, s):
        """advance the helper's own domain by one tick; returns (observation, new phase)"""
        clk = self.cfg.get("clk")
        if not clk:
            return cur.step(strobe=s), 0
        m = cur.model
        v = m.vec(strobe=s)
        lcm = max(clk)
        first = None
        for _ in range(clk[0]):
            o = cur.step_vec(v, m._masks[phase])
            phase = (phase + 1) % lcm
            if first is None: first = o
            elif o != first:
                raise Violation("stretch-output-changed-between-own-clock-ticks",
                                dict(to_cycles=self.n, allow_delay=self.cfg["allow_delay"], clk=clk, before=first.output, after=o.output))
        return first, phase

    def actions(self, env):
        return (0, 1)

    def assumptions(self):
        return ["the register chain starts empty (no strobe before reset release)",
                "multi-clock configurations: the strobe input changes only at ticks of the helper's own domain; the second domain is phase-locked with an integer divider",
                "allow_delay=True permits but does not require the one-cycle shift: either alignment is accepted, but the same one for the whole run"]

    def apply(self, cur, env, s):
        hist, cands, phase = env
        o, phase = self._own_tick(cur, phase, s)
        n = self.n
        full = hist + (s,)                       # samples of cycles t-N .. t
        exp = {0: int(any(full[1:])),            # window t-N+1 .. t
               1: int(any(full[:n]))}            # window t-N   .. t-1
        left = tuple(d for d in cands if exp[d] == o.output)
        if not left:
            want = exp[cands[0]]
            rule = "stretch-output-dropped-early" if want else "stretch-output-high-outside-window"
            raise Violation(rule, dict(to_cycles=n, allow_delay=self.cfg["allow_delay"], strobes_oldest_first=list(full),
                                       expected={("delay%d" % d): exp[d] for d in cands}, got=o.output))
        if o.output: self.cover["output_high"] += 1
        else: self.cover["output_low"] += 1
        if n > 1 and o.output and not s and full[1] and not any(full[2:]): self.cover["last_cycle_of_window"] += 1
        if o.output and not s: self.cover["held_without_strobe"] += 1
        self.outcomes.add((o.output, left))
        return (full[1:], left, phase)

    def goals(self):
        g = ["output_high", "output_low"]
        if self.n > 1: g.append("held_without_strobe")
        return g


def make(cfg, tier):
    return StretchSpec(cfg, tier)
