# C15 - USBIsochronousStreamInEndpoint sends exactly the requested bytes per frame.
# DUT: USBDevice on a UTMI bus (full speed) + USBIsochronousStreamInEndpoint(ep 1, mps) [+ a bulk IN endpoint 2 as a
# source of unrelated traffic].  Macro-step mode: one action = one host bus event (SOF, IN transaction, unrelated traffic).
#
# Oracle (reference written from the statement): at every SOF the harness presents n = bytes_in_frame (any other time a
# *different* decoy value is on that input); the frame then needs P = max(1, ceil(n / mps)) packets.  The k-th IN token
# of the frame must be answered with a CRC-correct data packet carrying bytes [k*mps, min(n, (k+1)*mps)) of the frame,
# PID DATA(P-1-k); every byte is the next untaken stream item if the producer offers one in that byte slot, else 0x00;
# the producer must see exactly the offered items of transmitted slots taken.  IN tokens after the frame's bytes are out
# (or in a frame with n = 0, or before the first SOF) must be answered with a zero-length data packet (DATA0 is
# required only for the packet of an n = 0 frame; the PID of surplus ZLPs is left open by the statement and not judged).
from rtlmc.model import Violation
from rtlmc.explore import Spec
from rtlmc import usbref as U
from rtlmc.env.usb2_host import Host, PruneCollision, J, K
from harness._usb2dev import build_device

PROPERTY = "C15"
LEVEL_TEXT = ("All sequences of SOFs (every bytes_in_frame value 0..3*mps), IN tokens (any number per frame, also none), per-byte stream "
              "valid patterns and unrelated bus traffic are enumerated to a fixed point on the real USBDevice + "
              "USBIsochronousStreamInEndpoint netlist, driven packet by packet on the UTMI wire; every device packet is compared with a "
              "reference frame splitter (length, DATA2/1/0 PID, stream order, zero fill, ZLP).")
TECHNIQUE = "explicit-state BFS (macro-step = one bus event) over the compiled netlist; packet-level USB host environment; reference model oracle"

TAGS = (0x11, 0x22, 0x33)        # stream items, in order, modulo 3; never 0x00 (zero fill) and never the decoy
DECOY = 0xEE                     # payload shown while the producer's valid is low
PIDSEQ = (U.DATA0, U.DATA1, U.DATA2)
FOREIGN = 5                      # another device's address


def configs(tier):
    if tier == "quick":
        return [dict(mps=2, gap=1, ready=1),
                dict(mps=3, gap=2, ready=2, depth=8),
                dict(mps=4, gap=1, ready=1, masks="sparse", depth=7),
                dict(mps=1, gap=3, ready=3),
                dict(mps=2, gap=2, ready=1, distract=1, masks="sparse", depth=5)]
    return [dict(mps=2, gap=1, ready=1),
            dict(mps=3, gap=2, ready=2),
            dict(mps=4, gap=1, ready=1),
            dict(mps=1, gap=3, ready=3),
            dict(mps=2, gap=2, ready=1, distract=1, depth=8),
            dict(mps=3, gap=1, ready=1, distract=1, masks="sparse", depth=7),
            dict(mps=3, gap=5, ready=4, pace=2, frames=2),
            dict(mps=2, gap=1, ready=5, pace=3, idle=1),
            dict(mps=5, gap=1, ready=1, masks="sparse")]


class IsoInSpec(Spec):
    n_validate = 5
    validate_max_cycles = 4000

    def __init__(self, cfg, tier):
        super().__init__(cfg, tier)
        self.mps = cfg["mps"]
        self.nmax = 3 * self.mps
        self.distract = bool(cfg.get("distract"))
        self.time_budget = 240 if tier == "quick" else 700      # wall-clock safety net only; bounds are set by depth / fixed point
        if cfg.get("depth"): self.max_depth = cfg["depth"]
        self.host = Host(gap=cfg["gap"], pace=cfg.get("pace", 1), ready_period=cfg["ready"])
        self.frames = (0x2A5, 0x15A)[:cfg.get("frames", 1)]
        self.sparse = cfg.get("masks") == "sparse"
        self._maskcache = {}

    def build(self):
        from luna.gateware.usb.usb2.endpoints.isochronous_stream_in import USBIsochronousStreamInEndpoint
        eps = [lambda: USBIsochronousStreamInEndpoint(endpoint_number=1, max_packet_size=self.mps)]
        if self.distract:
            from luna.gateware.usb.usb2.endpoints.stream import USBStreamInEndpoint
            eps.append(lambda: USBStreamInEndpoint(endpoint_number=2, max_packet_size=2))
        design, h = build_device(control=None, endpoints=eps, probe=False)
        ep = h["endpoints"][0]
        design.inputs.update(bytes_in_frame=ep.bytes_in_frame, s_valid=ep.stream.valid, s_payload=ep.stream.payload)
        design.observes.update(s_ready=ep.stream.ready)
        if self.distract:
            b = h["endpoints"][1]
            design.inputs.update(b_valid=b.stream.valid, b_payload=b.stream.payload)
            design.defaults.update(b_valid=1, b_payload=0x5C)
        return design

    def assumptions(self):
        return self.host.assumptions() + [
            "bytes_in_frame <= 3 * max_packet_size (documented limit); it is only guaranteed to hold the frame's value while the SOF packet is received and processed",
            "the producer obeys the stream rules: valid, once raised, stays up with a stable payload until the item is taken; it may change its mind only in the cycle after a byte slot",
            "every SOF reaches the device intact; the host never sends while the device transmits; device address stays 0",
            "the PID of zero-length packets sent after the frame's bytes are out is not judged (the statement leaves it open)"]

    # env = (total, left, sent, k, v)
    #   total: bytes requested for the current frame (None before the first SOF), left: bytes not yet sent,
    #   sent: packets with payload already sent this frame, k: index (mod 3) of the next stream item, v: producer's valid now
    def env0(self): return (None, 0, 0, 0, 0)

    def _masks(self, nslots, v):
        key = (nslots, v)
        r = self._maskcache.get(key)
        if r is None:
            n = nslots + 1              # one bit per byte slot + the producer's state after the last slot
            allm = [tuple((m >> i) & 1 for i in range(n)) for m in range(1 << n)]
            if self.sparse and n > 3:
                keep = set()
                for m in allm:
                    ones = sum(m)
                    if ones in (0, 1, n - 1, n) or m == tuple(i & 1 for i in range(n)) or m == tuple(1 - (i & 1) for i in range(n)):
                        keep.add(m)
                allm = [m for m in allm if m in keep]
            r = [m for m in allm if m[0] >= v]
            self._maskcache[key] = r
        return r

    def actions(self, env):
        total, left, sent, k, v = env
        acts = []
        for f in range(len(self.frames)):
            for n in range(self.nmax + 1):
                acts.append(("sof", n, f))
        for m in self._masks(min(self.mps, left), v):
            acts.append(("in", m))
        if self.distract:
            acts += [("in2", 1), ("in2", 0), ("in-foreign",), ("out1",), ("in3",)]
        if self.cfg.get("idle"):
            acts.append(("idle", 9))
        return acts

    def goals(self):
        g = ["frame:1-packet", "frame:2-packets", "frame:3-packets", "frame:empty", "zlp:empty-frame", "zlp:after-data", "zlp:before-first-sof",
             "slot:zero-fill", "slot:data", "frame:abandoned", "frame:complete", "packet:full"]
        if self.mps > 1: g.append("packet:short")
        if self.distract: g += ["distract:bulk-ack", "distract:foreign", "distract:out"]
        return g

    def _decoy_n(self, total):
        return (self.mps + 1) if total is None else (total + self.mps + 1) % (self.nmax + 1)

    def apply(self, cur, env, a):
        total, left, sent, k, v = env
        host = self.host
        prod = [k, v, 0, None]           # item index (unbounded during the action), valid, slot counter, mask
        extra = dict(connect=1, bytes_in_frame=self._decoy_n(total), s_valid=v, s_payload=TAGS[k % 3] if v else DECOY)
        host.extra = extra
        taken = [0]

        def on_cycle(o):
            if o.s_ready:
                if prod[1]:
                    prod[0] += 1; taken[0] += 1
                prod[2] += 1
                m = prod[3]
                if m is not None:
                    prod[1] = m[prod[2]] if prod[2] < len(m) else m[-1]
                extra["s_valid"] = prod[1]
                extra["s_payload"] = TAGS[prod[0] % 3] if prod[1] else DECOY
        host.on_cycle = on_cycle
        try:
            try:
                return self._do(cur, env, a, prod, extra, taken)
            except PruneCollision:
                return None
        finally:
            host.on_cycle = None
            host.extra = {}

    def _silent(self, resp, what):
        if resp is not None:
            raise Violation("answers-unrelated-traffic:" + what, dict(resp=resp))

    def _do(self, cur, env, a, prod, extra, taken):
        total, left, sent, k, v = env
        host, mps = self.host, self.mps
        if a[0] == "sof":
            _, n, f = a
            if total is not None:
                self.cover["frame:complete" if left == 0 else "frame:abandoned"] += 1
            extra["bytes_in_frame"] = n
            host.send(cur, U.sof(self.frames[f]), False)
            if taken[0]: raise Violation("stream:item-taken-outside-a-transmission", dict(action=a))
            npk = max(1, -(-n // mps))
            self.cover["frame:empty" if n == 0 else "frame:%d-packet%s" % (npk, "" if npk == 1 else "s")] += 1
            return (n, n, 0, k, v)
        if a[0] == "idle":
            host.idle(cur, a[1]); host._cyc(cur, line_state=K); host.idle(cur, host.gap)
            if taken[0]: raise Violation("stream:item-taken-outside-a-transmission", dict(action=a))
            return env
        if a[0] != "in":
            if a[0] == "in2":
                resp = host.send(cur, U.token(U.IN, 0, 2), True)
                kind = U.classify_device_packet(resp) if resp is not None else None
                if kind is not None and kind[0] == "data" and a[1]:
                    host.send(cur, U.handshake(U.ACK), False)
                    self.cover["distract:bulk-ack"] += 1
            elif a[0] == "in3":
                self._silent(host.send(cur, U.token(U.IN, 0, 3), True), "in-to-absent-endpoint")
            elif a[0] == "in-foreign":
                self._silent(host.send(cur, U.token(U.IN, FOREIGN, 1), True), "in-to-other-address")
                host.send(cur, U.handshake(U.ACK), False)
                self.cover["distract:foreign"] += 1
            elif a[0] == "out1":
                host.send(cur, U.token(U.OUT, 0, 1), False)
                self._silent(host.send(cur, U.data_packet(U.DATA0, (0x77, 0x88)), True), "out-to-in-endpoint")
                self.cover["distract:out"] += 1
            if taken[0]: raise Violation("stream:item-taken-outside-a-transmission", dict(action=a))
            return env
        # ---- IN token to the isochronous endpoint
        mask = a[1]
        prod[3] = mask
        prod[1] = mask[0]
        extra["s_valid"] = mask[0]
        extra["s_payload"] = TAGS[k % 3] if mask[0] else DECOY
        resp = host.send(cur, U.token(U.IN, 0, 1), True)
        ctx = dict(frame_bytes=total, bytes_left=left, packets_sent=sent, mask=mask, resp=resp)
        if resp is None:
            raise Violation("in:no-response", ctx)
        kind = U.classify_device_packet(resp)
        if kind[0] != "data":
            raise Violation("in:response-is-not-a-valid-data-packet", dict(ctx, kind=kind))
        _, pid, payload = kind
        want_len = min(mps, left)
        if len(payload) > mps:
            raise Violation("packet:exceeds-max-packet-size", dict(ctx, length=len(payload)))
        if want_len == 0:
            if payload:
                raise Violation("zlp-expected:data-sent-beyond-requested-bytes", dict(ctx, payload=payload))
            if taken[0]: raise Violation("stream:item-taken-but-not-sent", ctx)
            if total == 0 and pid != U.DATA0:
                raise Violation("zlp:wrong-pid-in-empty-frame", dict(ctx, pid=U.PIDNAME[pid]))
            self.cover["zlp:before-first-sof" if total is None else ("zlp:empty-frame" if total == 0 else "zlp:after-data")] += 1
            self.outcomes.add(("zlp", total is None, total == 0, U.PIDNAME[pid]))
            return (total, left, sent, k, mask[0])
        if len(payload) != want_len:
            raise Violation("packet:wrong-length", dict(ctx, expected=want_len, got=len(payload)))
        npk = -(-total // mps)
        want_pid = PIDSEQ[npk - 1 - sent]
        if pid != want_pid:
            raise Violation("packet:wrong-data-pid", dict(ctx, expected=U.PIDNAME[want_pid], got=U.PIDNAME[pid]))
        kk = k
        exp = []
        for j in range(want_len):
            if mask[j]:
                exp.append(TAGS[kk % 3]); kk += 1
                self.cover["slot:data"] += 1
            else:
                exp.append(0)
                self.cover["slot:zero-fill"] += 1
        if tuple(exp) != payload:
            zf = any(e == 0 and g != 0 for e, g in zip(exp, payload))
            raise Violation("payload:not-zero-filled" if zf else "payload:stream-order", dict(ctx, expected=exp, got=payload, next_item=k))
        if taken[0] != kk - k:
            raise Violation("stream:items-taken-differ-from-items-sent", dict(ctx, taken=taken[0], sent=kk - k))
        self.cover["packet:full" if want_len == mps else "packet:short"] += 1
        self.outcomes.add(("data", U.PIDNAME[pid], want_len, npk, sent))
        return (total, left - want_len, sent + 1, kk % 3, mask[want_len])


def make(cfg, tier):
    return IsoInSpec(cfg, tier)
