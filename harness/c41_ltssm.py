# C41 - LTSSMController (usb3/link/ltssm.py): link_ready only through training; resets and timeouts honoured;
#        scrambling in U0.  Closure BFS over the real netlist at ss_clock_frequency = 10 kHz
#        (12 ms = 120, 2 ms = 20, 360 ms = 3600 cycles -- the scaling the statement allows).
#
# One action = one clock cycle carrying one input event (optionally with in_usb_reset asserted in the same cycle), or a
# "wait" that holds the inputs quiet (cur.hold) until two cycles before the time-out of the current timed substate; the
# cycles around every time-out are then stepped one by one with the full alphabet, so events colliding with the
# time-out cycle are explored.
#
# Oracle = a monitor over the *event history*, written from the statement; substates are identified only through the
# public outputs (send_lfps_polling / send_ts1_burst / send_ts2_burst / perform_idle_handshake / electrical-idle quiet):
#   chain A, cleared by every cycle with in_usb_reset (warm / power-on reset, as the class documents that input):
#       partner detected (link_partner_detected while perform_rx_detection)
#       -> polling LFPS exchanged (we sent >= 1 LFPS cycle and saw polling LFPS -- or TS1 when loosened -- while send_lfps_polling)
#       -> TS1/TS2 exchange (a TS1 burst completed and TS1/TS2/inverted TS1 seen while send_ts1_burst; TS2 seen; then a TS2
#          burst completed while send_ts2_burst)
#   chain B, cleared on every entry to polling (send_lfps_polling), recovery (link_ready falls) and hot reset
#       (request_hot_reset rises):  TS2 seen + TS2 burst completed while send_ts2_burst  -> idle handshake completed while
#       perform_idle_handshake.
#   link_ready is legal only with A and B complete, and never in the cycle after a cycle with in_usb_reset.
#   time-outs: a run of one substate signature may not exceed its documented time-out (+SLACK cycles); a TS2 run is exempt
#       once the TS2 exchange of chain B is complete (the class' synthetic "send 16 more TS2" exit substate has no
#       documented time-out and ends with our own generator's next burst).
#   scrambling: in U0 enable_scrambling is on unless disable_scrambling (our side) or no_scrambling_requested (partner)
#       was asserted since the last entry to polling / recovery; and off if our side asks constantly or the partner asked
#       while we were sending TS1/TS2 in this training.
# Wherever the class is stricter than this monitor (e.g. it wants TS2 seen *before* the completed burst) the monitor
# accepts both; a partner detection strobed in the very cycle of a reset is counted as made since that reset.
#
# The exploration is a closure (frontier runs empty) within these bounds: alphabet profile of the configuration
# (train / reset / modes sliced alphabets for the quick tier, `full` = everything everywhere in the thorough tier),
# `stay`+1 single-stepped cycles at the start of each substate visit, the cycles T-2..T+4 around its time-out T, and
# one quiet wait in between.
import os
from rtlmc.model import Design, Violation
from rtlmc.explore import Spec

PROPERTY = "C41"
TECHNIQUE = "closure BFS, one input event per cycle + C-side waits up to each time-out; history monitor"

FREQ = 10e3
T12, T2, T360 = 120, 20, 3600
SLACK = 2                     # cycles of tolerance on "no later than the time-out" (0.2 ms at the scaled clock)
TIMEOUT = {"lfps": T360, "ts1": T12, "ts2": T12, "idle": T2, "quiet": T12}

EV = {
    "none":     {},
    "partner":  dict(link_partner_detected=1),
    "nopartner": dict(no_link_partner_detected=1),
    "lfps":     dict(lfps_polling_detected=1),
    "ts1":      dict(ts1_detected=1),
    "its1":     dict(inverted_ts1_detected=1),
    "ts2":      dict(ts2_detected=1),
    "ts2hot":   dict(ts2_detected=1, hot_reset_requested=1),
    "ts2nosc":  dict(ts2_detected=1, no_scrambling_requested=1),
    "ts2loop":  dict(ts2_detected=1, loopback_requested=1),
    "hot":      dict(hot_reset_requested=1),
    "bc":       dict(ts_burst_complete=1),
    "bcts1":    dict(ts_burst_complete=1, ts1_detected=1),
    "bcts2":    dict(ts_burst_complete=1, ts2_detected=1),
    "bcts2hot": dict(ts_burst_complete=1, ts2_detected=1, hot_reset_requested=1),
    "idlec":    dict(idle_handshake_complete=1),
    "idlets1":  dict(idle_handshake_complete=1, ts1_detected=1),
    "rec":      dict(trigger_link_recovery=1),
    "phy0":     dict(phy_ready=0),
}

# A flags
A_PARTNER, A_P, A_S, A_T1TX, A_T1RX, A_T2RX, A_T2TX = 1, 2, 4, 8, 16, 32, 64
A_LFPS = A_P | A_S
A_ALL = 127
# B flags
B_T2RX, B_T2TX, B_IDLE = 1, 2, 4
# scrambling window flags
S_PARTNER, S_PARTNER_TS = 1, 2


def sigof(o):
    if o.link_ready: return "u0"
    if o.send_lfps_polling: return "lfps"
    if o.send_ts1_burst: return "ts1"
    if o.send_ts2_burst: return "ts2"
    if o.perform_idle_handshake: return "idle"
    if o.send_tseq_burst: return "tseq"
    if o.act_as_loopback: return "loop"
    if o.perform_rx_detection: return "detect"
    if o.tx_electrical_idle: return "quiet" if o.engage_terminations else "reset"
    return "other"


# Alphabet profiles: which detector events are offered (besides the per-substate essentials), whether in_usb_reset may
# accompany an event, whether quiet waits are offered, and the lfps_cycles_sent menu.
PROFILES = {
    # training chain and time-outs, no resets
    "train": dict(ts=["ts1", "ts2", "lfps"], bc=["bc", "bcts2"], reset=False, wait=True, everywhere=False,
                  sent=(0, 12, 13, 16, 20, 40000)),
    # resets in every substate and cycle position
    "reset": dict(ts=["ts1", "ts2"], bc=["bc"], reset=True, wait=True, everywhere=False, sent=(0, 16, 20, 40000)),
    # hot reset, loopback, scrambling requests, polarity
    "modes": dict(ts=["ts1", "its1", "ts2", "ts2hot", "ts2nosc", "ts2loop", "hot"], bc=["bc", "bcts2", "bcts2hot"],
                  reset=False, wait=True, everywhere=False, sent=(0, 16, 20, 40000)),
    "full":  dict(ts=["ts1", "its1", "ts2", "ts2hot", "ts2nosc", "ts2loop", "hot", "lfps"],
                  bc=["bc", "bcts1", "bcts2", "bcts2hot"], reset=True, wait=True, everywhere=True,
                  sent=(0, 12, 13, 16, 17, 20, 24, 40000)),
}


def configs(tier):
    out = []
    if tier == "quick":
        for loosen in (True, False):
            out.append(dict(profile="train", loosen=loosen, dis=0, stay=2))
            out.append(dict(profile="reset", loosen=loosen, dis=0, stay=1))
        out.append(dict(profile="modes", loosen=True, dis=0, stay=1))
        out.append(dict(profile="modes", loosen=True, dis=1, stay=1))
        out.append(dict(profile="modes", loosen=False, dis=0, stay=1))
    else:
        out.append(dict(profile="full", loosen=True, dis=0, stay=2))
        out.append(dict(profile="full", loosen=True, dis=1, stay=1))
        out.append(dict(profile="full", loosen=False, dis=0, stay=1))
        out.append(dict(profile="full", loosen=False, dis=1, stay=1))
        for loosen in (True, False):
            out.append(dict(profile="train", loosen=loosen, dis=0, stay=6))
            for dis in (0, 1):
                out.append(dict(profile="reset", loosen=loosen, dis=dis, stay=4))
        for loosen, dis in ((True, 0), (True, 1), (False, 0)):
            out.append(dict(profile="modes", loosen=loosen, dis=dis, stay=3))
    return out


class LtssmSpec(Spec):
    n_validate = 5
    validate_max_cycles = 9000

    def __init__(self, cfg, tier):
        super().__init__(cfg, tier)
        self.loosen = bool(cfg["loosen"])
        self.dis = int(cfg["dis"])
        self.stay = int(cfg["stay"])
        self.time_budget = 300 if tier == "quick" else 3000
        self.max_states = 3_000_000
        prof = PROFILES[cfg["profile"]]
        self.prof = prof
        self.sent_menu = prof["sent"]
        ts, bc = prof["ts"], prof["bc"]
        ev = ts if prof["everywhere"] else []
        per = {
            "reset":  ["none", "phy0"] + ev,
            "detect": ["none", "partner", "nopartner"] + ev,
            "quiet":  ["none"] + ev,
            "lfps":   ["none", "lfps", "ts1"] + (["ts2"] if prof["everywhere"] else []),
            "tseq":   ["none"] + ts + ["bc"],
            "ts1":    ["none"] + ts + bc,
            "ts2":    ["none"] + ts + bc,
            "idle":   ["none"] + ts + ["idlec"] + (["idlets1"] if prof["everywhere"] else []),
            "u0":     ["none"] + ts + ["rec"] + (["bc", "idlec"] if prof["everywhere"] else []),
            "loop":   ["none"] + ev,
            "other":  ["none"],
        }
        self._menu = {}
        for mode, evs in per.items():
            acts = []
            for e in evs:
                for r in ((0, 1) if prof["reset"] else (0,)):
                    acts.append((e, r))
            self._menu[mode] = acts

    def build(self):
        os.environ.pop("LUNA_COMPLIANCE", None)
        from luna.gateware.usb.usb3.link.ltssm import LTSSMController
        d = LTSSMController(ss_clock_frequency=FREQ, loosen_requirements=self.loosen)
        ins = {n: getattr(d, n) for n in (
            "in_usb_reset", "trigger_link_recovery", "phy_ready", "disable_scrambling", "link_partner_detected",
            "no_link_partner_detected", "lfps_polling_detected", "lfps_cycles_sent", "ts1_detected",
            "inverted_ts1_detected", "ts2_detected", "hot_reset_requested", "loopback_requested",
            "no_scrambling_requested", "ts_burst_complete", "idle_handshake_complete")}
        obs = {n: getattr(d, n) for n in (
            "link_ready", "entering_u0", "enable_scrambling", "tx_electrical_idle", "engage_terminations",
            "perform_rx_detection", "send_lfps_polling", "send_tseq_burst", "send_ts1_burst", "send_ts2_burst",
            "request_hot_reset", "request_no_scrambling", "perform_idle_handshake", "invert_rx_polarity",
            "train_equalizer", "act_as_loopback")}
        return Design(d, ins, obs, defaults=dict(phy_ready=1, disable_scrambling=self.dis))

    def assumptions(self):
        return [
            "clock scaled to 10 kHz so that 12 ms / 2 ms / 360 ms are 120 / 20 / 3600 cycles; time-outs are checked with a tolerance of %d cycles" % SLACK,
            "warm and power-on reset are both presented through in_usb_reset, as the class documents; the power_on_reset attribute is not connected to anything inside the class",
            "link_partner_detected / no_link_partner_detected are only strobed while perform_rx_detection is asserted; ts_burst_complete only while a TSEQ/TS1/TS2 burst is requested (profile full: also in U0); idle_handshake_complete only while perform_idle_handshake (profile full: also in U0)",
            "lfps_cycles_sent is 0 unless send_lfps_polling, and non-decreasing over a menu of values around the thresholds 12/16/+4 while it is",
            "a partner detection strobed in the same cycle as in_usb_reset is accepted as a detection since that reset",
            "disable_scrambling is constant per configuration; LUNA_COMPLIANCE is unset",
            "at most one detector event per cycle apart from the listed same-cycle combinations; in_usb_reset may accompany any event (profiles reset/full)",
            "bound: each visit of a substate is explored for its first `stay`+1 cycles and (timed substates) from two cycles before its time-out on, the span in between being crossed by a quiet wait",
        ]

    # env = (monitor, sent_index, next_sig)
    # monitor = (rstp, a, b, bx, scr, sigp, kp, readyp, hotp)
    #   rstp  in_usb_reset in the previous cycle        a  chain-A flags (since reset)       b  chain-B flags (since entry)
    #   bx    like b but not cleared by resets (only used to exempt the TS2 exit burst from the time-out rule)
    #   scr   scrambling requests since the last entry to polling / recovery
    #   sigp, kp  substate signature of the previous cycle and its index within the run of equal signatures
    def env0(self):
        return ((0, 0, 0, 0, 0, None, 0, 0, 0), 0, "reset")

    def prologue(self, cur):
        env = self.env0()
        start = self.cfg.get("start")
        if not start:
            return env
        si = self.sent_menu.index
        script = [("none", 0), ("partner", 0), ("lfps", 0, si(16)), ("none", 0, si(20)), ("bc", 0), ("bc", 0), ("ts1", 0),
                  ("ts2", 0), ("bc", 0), ("bc", 0)]
        if start == "u0":
            script.append(("idlec", 0))
        for a in script:
            env = self.apply(cur, env, a)
        assert env[2] == ("u0" if start == "u0" else "idle"), env
        return env

    def actions(self, env):
        mon, sent, nxt = env
        k = mon[6] + 1 if nxt == mon[5] else 0          # index of the coming cycle within its run
        T = TIMEOUT.get(nxt)
        acts = []
        near = T is not None and T - 2 <= k <= T + SLACK + 1     # (an exempt TS2 exit burst is not followed further)
        if k <= self.stay or near:
            if nxt == "lfps":
                for e, r in self._menu["lfps"]:
                    for si in (range(sent, len(self.sent_menu)) if not r else (sent,)):
                        acts.append((e, r, si))
            else:
                acts.extend(self._menu[nxt])
        if self.prof["wait"] and T is not None and k < T - 2:
            acts.append(("wait",))
        return acts

    def label(self, a):
        if a[0] == "wait": return "wait-to-2-before-timeout"
        s = a[0] + ("+reset" if a[1] else "")
        if len(a) > 2: s += "/sent=%d" % self.sent_menu[a[2]]
        return s

    @staticmethod
    def _timeout_check(sig, k, bx):
        T = TIMEOUT.get(sig)
        if T is not None and k > T + SLACK and not (sig == "ts2" and (bx & 3) == 3):
            raise Violation("timeout-exceeded:" + sig, dict(signature=sig, cycles_in_substate=k + 1, timeout_cycles=T,
                                                            tolerance=SLACK))

    # ---- the monitor: one observed cycle
    def cycle(self, mon, ins, o, sentval, rst):
        rstp, a, b, bx, scr, sigp, kp, readyp, hotp = mon
        sig = sigof(o)
        k = kp + 1 if sig == sigp else 0
        # entries to polling / recovery / hot reset (public outputs only)
        if o.send_lfps_polling:
            b = bx = 0; scr = 0
        if readyp and not o.link_ready:
            b = bx = 0; scr = 0
            self.cover["left_u0"] += 1
        if o.request_hot_reset and not hotp:
            b = bx = 0
            self.cover["hot_reset_entered"] += 1
        # -- link_ready legality (history up to the previous cycle)
        if o.link_ready:
            info = dict(a_flags=a, b_flags=b, cycle_in_run=k)
            if rstp:
                raise Violation("ready-during-reset", dict(info, note="link_ready in the cycle after a cycle with in_usb_reset"))
            if a != A_ALL:
                miss = "partner-detect" if not a & A_PARTNER else ("lfps-exchange" if (a & A_LFPS) != A_LFPS else "ts1-ts2-exchange")
                raise Violation("ready-without-%s-since-reset" % miss, info)
            if b != 7:
                miss = "ts2-exchange" if (b & 3) != 3 else "idle-handshake"
                raise Violation("ready-without-%s-since-entry" % miss, info)
            if not o.enable_scrambling and not self.dis and not (scr & S_PARTNER):
                raise Violation("scrambling-off-unrequested", info)
            if o.enable_scrambling and (self.dis or (scr & S_PARTNER_TS)):
                raise Violation("scrambling-on-despite-request", dict(info, ours=self.dis, partner=bool(scr & S_PARTNER_TS)))
            if not readyp:
                self.cover["u0_entered"] += 1
                if not o.enable_scrambling: self.cover["u0_unscrambled"] += 1
                if o.invert_rx_polarity: self.cover["u0_inverted_polarity"] += 1
        # -- time-outs
        self._timeout_check(sig, k, bx)
        if sigp in TIMEOUT and sig != sigp and kp >= TIMEOUT[sigp] - 1:
            self.cover["timeout:" + sigp] += 1
        if sig == "loop" and sigp != "loop": self.cover["loopback"] += 1
        if sig == "quiet" and sigp in ("ts1", "ts2", "idle"): self.cover["ss_inactive"] += 1
        # -- this cycle's events
        g = ins.get
        if rst:
            a = 0; b = 0; scr = 0
            self.cover["reset_in:" + sig] += 1
            if o.perform_rx_detection and g("link_partner_detected", 0):
                a |= A_PARTNER
        else:
            ts1 = g("ts1_detected", 0); ts2 = g("ts2_detected", 0); its1 = g("inverted_ts1_detected", 0)
            bc = g("ts_burst_complete", 0)
            if o.perform_rx_detection and g("link_partner_detected", 0):
                a |= A_PARTNER
            if a & A_PARTNER and o.send_lfps_polling:
                if g("lfps_polling_detected", 0) or (self.loosen and ts1): a |= A_P
                if sentval >= 1: a |= A_S
            if (a & A_LFPS) == A_LFPS:
                if o.send_ts1_burst:
                    if bc: a |= A_T1TX
                    if ts1 or ts2 or its1: a |= A_T1RX
                if ts2: a |= A_T2RX
                if o.send_ts2_burst and bc and (a & (A_T1TX | A_T1RX)) == (A_T1TX | A_T1RX): a |= A_T2TX
            if o.perform_idle_handshake and g("idle_handshake_complete", 0) and (b & 3) == 3: b |= B_IDLE
            if ts2: b |= B_T2RX
            if o.send_ts2_burst and bc: b |= B_T2TX
            if g("no_scrambling_requested", 0):
                scr |= S_PARTNER
                if o.send_ts1_burst or o.send_ts2_burst: scr |= S_PARTNER_TS
        if ins.get("ts2_detected"): bx |= B_T2RX
        if o.send_ts2_burst and ins.get("ts_burst_complete"): bx |= B_T2TX
        return (rst, a, b, bx, scr, sig, k, o.link_ready, o.request_hot_reset)

    def apply(self, cur, env, act):
        mon, sent, nxt = env
        if act[0] == "wait":
            k = mon[6] + 1 if nxt == mon[5] else 0
            n = TIMEOUT[nxt] - 2 - k
            if n <= 0: return None
            if nxt == "lfps": sent = len(self.sent_menu) - 1
            sv = self.sent_menu[sent] if nxt == "lfps" else 0
            c, first, last = cur.hold(n, lfps_cycles_sent=sv)
            mon = self.cycle(mon, {}, first, sv, 0)
            if c >= 2:
                same = tuple(last) == tuple(first)
                extra = c - 1 if same else c - 2
                if extra:
                    mon = mon[:6] + (mon[6] + extra,) + mon[7:]
                    self._timeout_check(mon[5], mon[6], mon[3])
                if not same:
                    mon = self.cycle(mon, {}, last, sv, 0)
            self.cover["wait"] += 1
        else:
            ins = EV[act[0]]
            rst = act[1]
            if len(act) > 2: sent = act[2]
            sv = self.sent_menu[sent] if nxt == "lfps" else 0
            o = cur.step(in_usb_reset=rst, lfps_cycles_sent=sv, **ins)
            mon = self.cycle(mon, ins, o, sv, rst)
            self.outcomes.add((mon[5], act[0], rst))
        nx = sigof(cur.peek())
        if nx != "lfps": sent = 0
        return (mon, sent, nx)

    def goals(self):
        p = self.cfg["profile"]
        start = self.cfg.get("start")
        g = ["u0_entered", "left_u0", "wait"]
        if p in ("train", "full") and not start:
            g += ["timeout:lfps", "timeout:ts1", "timeout:ts2", "timeout:idle", "timeout:quiet", "ss_inactive"]
        if p in ("reset", "full"):
            g += ["reset_in:u0", "reset_in:idle", "reset_in:ts2"] + (["reset_in:lfps", "reset_in:detect"] if not start else [])
        if p in ("modes", "full"):
            g += ["hot_reset_entered", "u0_unscrambled", "loopback"]
        return g


def make(cfg, tier):
    return LtssmSpec(cfg, tier)
