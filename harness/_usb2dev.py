# Shared builders for device-level USB2 harnesses (USBDevice on a UTMIInterface, full speed).
from rtlmc.model import Design
from rtlmc.env.usb2_host import utmi_design_ports, UTMI_DEFAULTS
from rtlmc.env.probes import ProbeEndpoint, ProbeRequestHandler


def small_descriptors(ep0_mps=8, bulk_mps=4, strings=True, extra_config_bytes=0):
    from usb_protocol.emitters import DeviceDescriptorCollection
    d = DeviceDescriptorCollection()
    with d.DeviceDescriptor() as x:
        x.idVendor = 0x16d0; x.idProduct = 0xf3b; x.bMaxPacketSize0 = ep0_mps
        if strings:
            x.iManufacturer = "LUNA"; x.iProduct = "mc"; x.iSerialNumber = "1"
        x.bNumConfigurations = 1
    with d.ConfigurationDescriptor() as c:
        with c.InterfaceDescriptor() as i:
            i.bInterfaceNumber = 0
            with i.EndpointDescriptor() as e:
                e.bEndpointAddress = 0x81; e.wMaxPacketSize = bulk_mps
            with i.EndpointDescriptor() as e:
                e.bEndpointAddress = 0x01; e.wMaxPacketSize = bulk_mps
    return d


def descriptor_bytes(d, type_number, index=0):
    for t, i, raw in d:
        if t == type_number and i == index: return bytes(raw)
    return None


def build_device(*, control="standard", ep0_mps=8, descriptors=None, endpoints=(), probe=True, handlers=(), avoid_blockram=None):
    """endpoints: list of callables(dev) -> endpoint object (already constructed).  Returns (Design, handles dict)."""
    from luna.gateware.usb.usb2.device import USBDevice
    from luna.gateware.usb.usb2.control import USBControlEndpoint
    from luna.gateware.interface.utmi import UTMIInterface
    utmi = UTMIInterface()
    dev = USBDevice(bus=utmi)
    h = dict(utmi=utmi, dev=dev)
    if control:
        cep = USBControlEndpoint(utmi=utmi, max_packet_size=ep0_mps)
        if control == "standard":
            h["descriptors"] = descriptors or small_descriptors(ep0_mps)
            kw = {} if avoid_blockram is None else dict(avoid_blockram=avoid_blockram)
            cep.add_standard_request_handlers(h["descriptors"], **kw)
        for mk in handlers:
            cep.add_request_handler(mk())
        if probe:
            h["rprobe"] = ProbeRequestHandler()
            cep.add_request_handler(h["rprobe"])
        dev.add_endpoint(cep)
        h["control"] = cep
    eps = []
    for mk in endpoints:
        e = mk()
        dev.add_endpoint(e); eps.append(e)
    h["endpoints"] = eps
    ins, obs = utmi_design_ports(utmi)
    ins["connect"] = dev.connect
    if probe:
        pe = ProbeEndpoint()
        dev.add_endpoint(pe)
        h["eprobe"] = pe
        obs.update(active_address=pe.interface.active_address, active_config=pe.interface.active_config)
    obs.update(reset_detected=dev.reset_detected, suspended=dev.suspended, speed=dev.speed)
    return Design(dev, ins, obs, dict(UTMI_DEFAULTS, connect=1)), h
