# C04 - USB2 handshakes are generated and detected exactly.   Two DUTs, both explored per cycle to closure.
#
# generator (USBHandshakeGenerator): alphabet {no request, ack, nak, stall} x tx.ready in {0,1} every cycle.
#   Oracle = a small reference transmitter written from the statement:
#     * a request sampled while nothing is pending or being transmitted ("idle") makes tx.valid rise within LAT_G
#       cycles (the statement fixes no latency; 0..LAT_G admitted) with tx.data = PID | (~PID << 4),
#     * valid and data are then held unchanged until the first cycle in which tx.ready is high (the PHY accepts),
#     * in the cycle after acceptance valid is low again (exactly ONE byte per packet),
#     * valid never rises without a request.
#   Requests sampled while busy are outside the statement: they may be ignored (what LUNA does) or may produce one
#   later packet of their own started from idle.
#
# detector (USBHandshakeDetector): UTMI receive alphabet: packets of 0, 1, 2, 3.. bytes; all 256 values for the first
#   byte (it reaches control), a few for later bytes; arbitrary gaps before/after/between bytes; arbitrary rx_data while
#   rx_valid is low; minimal inter-packet gap of one cycle.
#   Oracle: when a packet of exactly one byte ends (rx_active falls) and the byte is ACK/NAK/STALL/NYET with a correct
#   check nibble, exactly that strobe -- alone, one cycle long, once -- appears within WIN cycles of the end of the
#   packet; any other strobe is a violation (zero-length, longer, malformed, non-handshake packets; no packet at all).
from rtlmc.model import Design, Violation
from rtlmc.explore import Spec

PROPERTY = "C04"

LAT_G = 2     # admitted request -> tx.valid latency (cycles)
WIN = 2       # a detection strobe must appear 0..WIN cycles after the first cycle with rx_active low

PIDS = {"ack": 0b0010, "nak": 0b1010, "stall": 0b1110, "nyet": 0b0110}      # USB 2.0 table 8-1


def pid_byte(kind):
    p = PIDS[kind]
    return p | ((~p & 0xF) << 4)


def classify(byte):
    """what a one-byte packet with this byte is, per the USB 2.0 PID rules"""
    if (byte & 0xF) != (~(byte >> 4) & 0xF): return "malformed"
    for k, p in PIDS.items():
        if (byte & 0xF) == p: return k
    return "nonhandshake"


def configs(tier):
    return [dict(dut="generator"), dict(dut="detector")]


# ---------------------------------------------------------------------------------------------------- generator
class GeneratorSpec(Spec):
    n_validate = 8

    def __init__(self, cfg, tier):
        super().__init__(cfg, tier)
        self.time_budget = 150 if tier == "quick" else 800
        self._acts = [(r, rdy) for r in (None, "ack", "nak", "stall") for rdy in (0, 1)]

    def build(self):
        from luna.gateware.usb.usb2.packet import USBHandshakeGenerator
        d = USBHandshakeGenerator()
        return Design(d, dict(issue_ack=d.issue_ack, issue_nak=d.issue_nak, issue_stall=d.issue_stall, ready=d.tx.ready),
                      dict(valid=d.tx.valid, data=d.tx.data))

    def assumptions(self):
        return ["at most one of issue_ack/issue_nak/issue_stall is strobed per cycle (simultaneous requests are unspecified)",
                f"request-to-valid latency is not fixed by the statement: 0..{LAT_G} cycles are accepted",
                "a request sampled while a packet is pending or being transmitted may be ignored or may yield one later packet of its own",
                "tx.ready may take any value in any cycle"]

    # env = (mode, byte, age, extra, xage)
    #   mode  'idle' | 'cool' (cycle right after an acceptance) | 'wait' (request taken, valid not yet seen) | 'tx'
    #   extra sorted tuple of bytes requested while busy (tolerated spontaneous packets), dropped once idle > LAT_G+1 cycles
    def env0(self):
        return ("idle", 0, 0, (), 0)

    def actions(self, env):
        return self._acts

    def apply(self, cur, env, a):
        mode, byte, age, extra, xage = env
        req, rdy = a
        o = cur.step(issue_ack=int(req == "ack"), issue_nak=int(req == "nak"), issue_stall=int(req == "stall"), ready=rdy)
        v, data = o.valid, o.data
        info = dict(mode=mode, expected_byte=byte, request=req, ready=rdy, valid=v, data=data)
        reqb = pid_byte(req) if req else None
        self.outcomes.add((mode, v, data if v else None))

        def busy_request():
            nonlocal extra, xage
            if reqb is not None:
                self.cover["request_while_busy"] += 1
                extra = tuple(sorted(set(extra) | {reqb})); xage = 0

        if mode in ("idle", "cool"):
            if v:
                if mode == "cool":
                    raise Violation("generator-more-than-one-byte", info)
                if reqb is not None and data == reqb:
                    mode, byte = "tx", reqb              # zero-latency start
                elif data in extra:
                    mode, byte = "tx", data
                    extra = tuple(x for x in extra if x != data)
                    busy_request()
                else:
                    raise Violation("generator-tx-without-request", info)
            else:
                if reqb is not None:
                    if mode == "cool": self.cover["request_right_after_accept"] += 1
                    return ("wait", reqb, 1, extra, 0)
                if extra:
                    xage += 1
                    if xage > LAT_G + 1: extra, xage = (), 0
                return ("idle", 0, 0, extra, xage)
        elif mode == "wait":
            if not v:
                if age >= LAT_G:
                    raise Violation("generator-request-lost", dict(info, cycles_since_request=age))
                busy_request()
                return ("wait", byte, age + 1, extra, xage)
            if data != byte:
                raise Violation("generator-wrong-pid", info)
            busy_request()
            mode = "tx"
        else:   # tx
            if not v:
                raise Violation("generator-valid-dropped-before-accept", info)
            if data != byte:
                raise Violation("generator-data-changed-before-accept", info)
            busy_request()
        # here: mode == 'tx', valid high with the right byte in this cycle
        if rdy:
            self.cover["accepted:%02x" % byte] += 1
            if age == -1: self.cover["accepted_after_backpressure"] += 1
            return ("cool", 0, 0, extra, 0)
        return ("tx", byte, -1, extra, xage)          # age -1 marks "has been stalled at least one cycle"

    def goals(self):
        return ["accepted:d2", "accepted:5a", "accepted:1e", "accepted_after_backpressure", "request_while_busy", "request_right_after_accept"]


# ----------------------------------------------------------------------------------------------------- detector
GARBAGE = (0x00, 0xD2)          # rx_data values driven while rx_valid is low (must not matter)


class DetectorSpec(Spec):
    n_validate = 10

    def __init__(self, cfg, tier):
        super().__init__(cfg, tier)
        self.time_budget = 150 if tier == "quick" else 800
        later = (0x00, 0xD2, 0x2D) if tier == "quick" else (0x00, 0xD2, 0x2D, 0x5A, 0x1E, 0x96, 0xFF)
        self.a_idle = [("idle", g) for g in GARBAGE] + [("start", g) for g in GARBAGE]
        rest = [("end", g) for g in GARBAGE] + [("wait", g) for g in GARBAGE]
        self.a_first = rest + [("byte", b) for b in range(256)]
        self.a_later = rest + [("byte", b) for b in later]

    def build(self):
        from luna.gateware.usb.usb2.packet import USBHandshakeDetector
        from luna.gateware.interface.utmi import UTMIInterface
        u = UTMIInterface()
        d = USBHandshakeDetector(utmi=u)
        return Design(d, dict(rx_active=u.rx_active, rx_valid=u.rx_valid, rx_data=u.rx_data),
                      dict(ack=d.detected.ack, nak=d.detected.nak, stall=d.detected.stall, nyet=d.detected.nyet))

    def assumptions(self):
        return ["UTMI: rx_valid is only asserted while rx_active is high, and not in the first cycle of rx_active (the PHY needs at least one clock between RXActive and the first RXValid)",
                "a packet is one contiguous rx_active period; its bytes are the cycles with rx_valid high; rx_active is low for at least one cycle between packets",
                f"detection latency is not fixed by the statement: the strobe may appear 0..{WIN} cycles after the first cycle with rx_active low",
                "rx_error is not modelled (the detector does not look at it)"]

    # env = (phase, cls, pend, last)
    #   phase 'idle' | 'act' (active, no byte yet) | 'one' (exactly one byte so far, cls = classify(byte)) | 'many'
    #   pend  None | (kind, age): a strobe of `kind` is owed
    #   last  class of the most recently finished packet (only used to name a spurious strobe)
    def env0(self):
        return ("idle", None, None, "none")

    def actions(self, env):
        ph = env[0]
        if ph == "idle": return self.a_idle
        if ph == "act": return self.a_first
        return self.a_later

    def apply(self, cur, env, a):
        ph, cls, pend, last = env
        op, val = a
        if op in ("idle", "end"): o = cur.step(rx_active=0, rx_valid=0, rx_data=val)
        elif op in ("start", "wait"): o = cur.step(rx_active=1, rx_valid=0, rx_data=val)
        else: o = cur.step(rx_active=1, rx_valid=1, rx_data=val)
        # --- environment bookkeeping
        if op == "start": ph, cls = "act", None
        elif op == "byte":
            if ph == "act": ph, cls = "one", classify(val)
            else: ph, cls = "many", None
        elif op == "end":
            if ph == "one":
                last = cls
                if cls in PIDS:
                    pend = (cls, 0)
                    self.cover["handshake_packet:" + cls] += 1
                else:
                    self.cover["one_byte_" + cls] += 1
            elif ph == "many":
                last = "long"; self.cover["long_packet"] += 1
            else:
                last = "zero-length"; self.cover["zero_length_packet"] += 1
            ph, cls = "idle", None
        # --- oracle
        seen = [k for k in ("ack", "nak", "stall", "nyet") if getattr(o, k)]
        info = dict(strobes=seen, owed=pend, last_packet=last, phase=ph, action=list(a))
        if len(seen) > 1:
            raise Violation("detector-several-strobes-at-once", info)
        if seen:
            if pend is None:
                raise Violation("detector-spurious-strobe:after-" + last, info)
            if seen[0] != pend[0]:
                raise Violation("detector-wrong-kind", info)
            self.cover["detected:" + seen[0]] += 1
            pend = None
            last = last + "-already-reported"
        elif pend is not None:
            if pend[1] >= WIN:
                raise Violation("detector-missed:" + pend[0], info)
            pend = (pend[0], pend[1] + 1)
        self.outcomes.add((tuple(seen), ph))
        return (ph, cls, pend, last)

    def goals(self):
        return ["detected:" + k for k in PIDS] + ["long_packet", "zero_length_packet", "one_byte_malformed", "one_byte_nonhandshake"]


def make(cfg, tier):
    return GeneratorSpec(cfg, tier) if cfg["dut"] == "generator" else DetectorSpec(cfg, tier)
