# C54 - PHYResetController (architecture/car.py) produces the configured pulses and always finishes.
#        Per-cycle closure over `trigger` in {0,1}.
#
# Oracle (a monitor written from the statement, driven by the observed phy_reset / phy_stop):
#   * a phy_reset pulse (maximal run of 1s) lasts exactly R = dut.reset_length_cycles cycles,
#   * phy_stop is high in every cycle of the pulse and in exactly S = dut.stop_length_cycles cycles after it,
#   * then both are low for at least one cycle (idle); a trigger sampled while idle (and, with power_on_reset, the
#     power-on itself) starts a pulse within LAT cycles -- the statement fixes no trigger latency, 0..LAT are admitted,
#   * no pulse and no STP without a cause.
# "Always finishes" is bounded liveness inside the same monitor: being in the stop phase one cycle longer than S is
# the violation `stop-too-long`, so a controller that hangs is caught at depth R+S+1.
# Triggers sampled while a sequence is running or already pending are outside the statement ("a trigger while idle"):
# they may be ignored, or may cause one more full sequence after the controller has been back to idle.
from rtlmc.model import Design, Violation
from rtlmc.explore import Spec

PROPERTY = "C54"
LAT = 2          # admitted trigger -> phy_reset latency in cycles (0..LAT)


def configs(tier):
    out = []
    rng = range(1, 5) if tier == "quick" else range(1, 10)
    for por in (True, False):
        for r in rng:
            for s in rng:
                out.append(dict(clock_frequency=1.0, reset_length=float(r), stop_length=float(s), power_on_reset=por))
    if tier == "quick":
        for r, s in ((1, 6), (2, 5), (5, 5), (6, 3), (4, 6), (5, 8)):
            out.append(dict(clock_frequency=1.0, reset_length=float(r), stop_length=float(s), power_on_reset=(r + s) % 2 == 0))
    # realistic frequencies / durations (cycle counts come out of the class' own ceil() computation)
    real = [(60e6, 2e-6, 2e-6), (60e6, 2e-6, 5e-6), (60e6, 1e-6, 2.2e-6), (12e6, 1e-6, 3e-6), (100e6, 0.33e-6, 0.5e-6)]
    if tier != "quick":
        real += [(60e6, 5e-6, 2e-6), (48e6, 2e-6, 2.7e-6), (60e6, 2e-6, 2.15e-6), (120e6, 1e-6, 10e-6), (60e6, 10e-6, 1e-6)]
    for f, rl, sl in real:
        for por in ((True,) if tier == "quick" else (True, False)):
            out.append(dict(clock_frequency=f, reset_length=rl, stop_length=sl, power_on_reset=por))
    return out


class ResetSpec(Spec):
    n_validate = 2

    def __init__(self, cfg, tier):
        super().__init__(cfg, tier)
        self.time_budget = 150 if tier == "quick" else 800
        self.R = self.S = None

    def build(self):
        from luna.gateware.architecture.car import PHYResetController
        c = self.cfg
        d = PHYResetController(clock_frequency=c["clock_frequency"], reset_length=c["reset_length"],
                               stop_length=c["stop_length"], power_on_reset=c["power_on_reset"])
        self.R, self.S = d.reset_length_cycles, d.stop_length_cycles
        assert self.R >= 1 and self.S >= 1
        return Design(d, dict(trigger=d.trigger), dict(phy_reset=d.phy_reset, phy_stop=d.phy_stop))

    # env = (phase, k, age, extra)
    #   phase 'I' idle / 'R' reset pulse running (k cycles seen) / 'S' stop phase (k cycles seen)
    #   age   in idle: None, or cycles since the cause (idle trigger / power-on) was sampled
    #   extra 0, or n>0: a trigger was sampled while busy; a sequence without a fresh cause is tolerated until the
    #         controller has been idle for more than LAT+1 cycles (n counts those idle cycles, starting at 1)
    def env0(self):
        return ("I", 0, 0 if self.cfg["power_on_reset"] else None, 0)

    def actions(self, env):
        return (0, 1)

    def assumptions(self):
        return ["reset and stop durations are positive (at least one cycle each)",
                f"trigger-to-reset latency is not fixed by the statement: 0..{LAT} cycles are accepted",
                "a trigger sampled while a sequence is running/pending may be ignored or may cause one further complete sequence",
                "the domain reset input is not exercised (power-on state = register init values)"]

    def apply(self, cur, env, trig):
        phase, k, age, extra = env
        o = cur.step(trigger=trig)
        rst, stp = o.phy_reset, o.phy_stop
        R, S = self.R, self.S
        info = dict(R=R, S=S, phase=phase, cycles_in_phase=k, phy_reset=rst, phy_stop=stp, trigger=trig)
        self.outcomes.add((phase, rst, stp))
        if phase == "S" and not rst and not stp:
            # the stop phase has ended: this cycle is an idle cycle (a trigger in it is an idle trigger)
            if k < S:
                raise Violation("stop-too-short", dict(info, stop_cycles_seen=k))
            self.cover["sequence_finished"] += 1
            if trig: self.cover["trigger_in_first_idle_cycle"] += 1
            phase, k, age = "I", 0, None
        if phase == "I":
            if rst:
                if age is None and not trig and not extra:
                    raise Violation("reset-without-trigger", info)
                if not stp:
                    raise Violation("stop-low-during-reset", info)
                if age is not None and age > 0: self.cover["latency_ge1"] += 1
                self.cover["pulse_started"] += 1
                if age is not None:
                    if trig:                         # a second trigger, sampled when the sequence is already under way
                        extra = 1; self.cover["trigger_while_busy"] += 1
                elif not trig:
                    extra = 0                        # no fresh cause: the tolerated extra sequence is being used up
                return ("R", 1, None, 1 if extra else 0)
            if stp:
                raise Violation("stop-outside-sequence", info)
            self.cover["idle"] += 1
            if age is not None:
                if age >= LAT:
                    raise Violation("trigger-ignored", dict(info, cycles_since_cause=age))
                age += 1
                if trig:
                    extra = 1; self.cover["trigger_while_pending"] += 1
            elif trig:
                age = 1                               # sampled in this cycle; next cycle is 1 cycle later
            elif extra:
                extra = extra + 1 if extra <= LAT + 1 else 0
            return ("I", 0, age, extra)
        if trig:
            extra = 1
            self.cover["trigger_while_busy"] += 1
        if phase == "R":
            if rst:
                if k + 1 > R:
                    raise Violation("reset-too-long", info)
                if not stp:
                    raise Violation("stop-low-during-reset", info)
                return ("R", k + 1, None, extra)
            if k < R:
                raise Violation("reset-too-short", info)
            if not stp:
                raise Violation("stop-too-short", dict(info, stop_cycles_seen=0))
            self.cover["reset_pulse_exact"] += 1
            return ("S", 1, None, extra)
        # phase S, and phy_reset or phy_stop is high
        if rst:
            raise Violation("reset-restarted-without-idle", info)
        if k + 1 > S:
            raise Violation("stop-too-long", info)
        return ("S", k + 1, None, extra)

    def goals(self):
        return ["pulse_started", "reset_pulse_exact", "sequence_finished", "idle", "trigger_while_busy", "latency_ge1"]


def make(cfg, tier):
    return ResetSpec(cfg, tier)
