# C34 - RxWordAligner / RxPacketAligner: after a marker sequence (word aligner: COM COM COM COM; packet aligner:
# SHP SHP SHP EPF or SLC SLC SLC EPF) has been received at any byte offset, the output presents that sequence as a
# whole word and all following data regrouped at the same offset - no symbol lost or duplicated while the offset
# is unchanged.
#
# Per-cycle closure.  The environment builds words out of two distinguishable filler words A / B (eight different
# symbols, some K some D) and, at any byte lane, a marker sequence, a truncated marker (3 symbols), or two kinds of
# decoy (marker bytes sent as data; marker with the K flag of its last symbol clear); sequences started in lanes
# 1..3 spill into the next valid word.  Words may be not-valid (then they carry garbage that looks like a marker).
#
# Oracle (position based, latency free): the reference keeps the last H received symbols and a set of candidate
# positions "next output word starts at stream position p".  Every valid output word must either
#   continue : equal the stream at p (then p += 4) - not allowed any more once a marker sequence with a different
#              offset lies entirely before p (the aligner has ignored it), or
#   re-align : equal a received marker sequence whose offset differs from p's (then p = its end).
# Before the first marker sequence the output is unconstrained (the aligner has nothing to align to); a marker
# sequence must have been presented before it is about H symbols old; once the output shows a received marker sequence the
# reference is aligned to it.  Words that fall behind by more than H symbols count as lost.
from rtlmc.model import Design, Violation
from rtlmc.explore import Spec

PROPERTY = "C34"
TECHNIQUE = ("explicit-state model checking (per-cycle BFS to closure) of the RxWordAligner / RxPacketAligner netlists "
             "against a position-tracking reference of the received symbol stream; traces replayed in amaranth.sim")

H = 24            # symbols of history kept by the reference (today's implementation needs 12; +4 per further output register)
U = -1            # candidate "not yet aligned to anything"

COM, SHP, SLC, EPF = (0xBC, 1), (0xFB, 1), (0xFE, 1), (0xF7, 1)
FILL_A = [(0xA0, 0), (0xA1, 1), (0xA2, 0), (0xA3, 0)]
FILL_B = [(0xB0, 1), (0xB1, 0), (0xB2, 0), (0xB3, 1)]


def configs(tier):
    if tier == "quick":
        return [dict(dut="word", lanes=[0, 1, 2, 3], extras="s"),
                dict(dut="word", lanes=[0, 1, 2, 3], extras="e"),
                dict(dut="word", lanes=[0, 1, 2, 3], extras="d"),
                dict(dut="packet", markers=["shp"], lanes=[0, 1, 2, 3], extras="s"),
                dict(dut="packet", markers=["slc"], lanes=[0, 1, 2, 3], extras="e"),
                dict(dut="packet", markers=["shp", "slc"], lanes=[0, 1, 2, 3], extras="")]
    return [dict(dut="word", lanes=[0, 1, 2, 3], extras="sde"),
            dict(dut="packet", markers=["shp"], lanes=[0, 1, 2, 3], extras="sde"),
            dict(dut="packet", markers=["slc"], lanes=[0, 1, 2, 3], extras="sde"),
            dict(dut="packet", markers=["shp", "slc"], lanes=[0, 1, 2, 3], extras="sde")]


class AlignerSpec(Spec):
    n_validate = 8

    def __init__(self, cfg, tier):
        super().__init__(cfg, tier)
        self.time_budget = 150 if tier == "quick" else 850       # generous: results must not depend on machine load
        if cfg["dut"] == "word":
            markers = [(COM, COM, COM, COM)]
        else:
            table = dict(shp=(SHP, SHP, SHP, EPF), slc=(SLC, SLC, SLC, EPF))
            markers = [table[m] for m in cfg["markers"]]
        self.markers = markers
        self.marker_set = set(markers)
        lanes = cfg["lanes"]
        kinds = "m" + cfg.get("extras", "")
        self._acts = {}
        for c in range(4):         # c = symbols spilled over from the previous word
            acts = [("A",), ("B",)]
            for k in kinds:
                for mi in range(len(markers)):
                    for j in (lanes if k == "m" else cfg.get("extra_lanes", lanes)):
                        if j >= c: acts.append((k, mi, j))
            acts += [("x", 0), ("x", 1)]
            self._acts[c] = acts

    def build(self):
        from luna.gateware.usb.usb3.physical.alignment import RxWordAligner, RxPacketAligner
        d = RxWordAligner() if self.cfg["dut"] == "word" else RxPacketAligner()
        ins = dict(valid=d.sink.valid, data=d.sink.data, ctrl=d.sink.ctrl)
        obs = dict(src_valid=d.source.valid, src_data=d.source.data, src_ctrl=d.source.ctrl,
                   alignment_offset=d.alignment_offset, sink_ready=d.sink.ready)
        return Design(d, ins, obs)

    def assumptions(self):
        return ["marker sequences do not overlap: two complete marker sequences start at least 4 symbols apart "
                "(so a run of five or more COM symbols is never received)",
                "words presented with sink.valid low carry no symbols; the upstream stage cannot be stalled",
                "symbol values other than the marker symbols are only moved, never interpreted (two filler words of "
                "eight distinct symbols, plus marker look-alikes, stand for arbitrary data)",
                f"a received marker sequence must be presented, and any received symbol must be output, before it is about {H - 4} symbols old "
                "(today's implementation: 12; the statement fixes no latency)",
                "the output is unconstrained until the first marker sequence has been received"]

    # env = (history: tuple of recent symbols (length a multiple of 4, <= H), carry: symbols spilling into the next word,
    #        cands: frozenset of U | (lag, last_off)) where lag = symbols received after the start of the next expected
    #        output word and last_off = offset of the latest marker sequence known to lie entirely before that word
    def env0(self):
        return ((), (), frozenset([U]))

    def actions(self, env):
        return self._acts[len(env[1])]

    def build_word(self, carry, a):
        """-> (valid, lanes[4], new carry)"""
        if a[0] == "x":
            g = list(self.markers[0]) if a[1] == 0 else [(0, 0)] * 4
            return 0, g, carry
        fill = FILL_B if a[0] == "B" else FILL_A
        lanes = list(fill)
        for i, s in enumerate(carry): lanes[i] = s
        newcarry = ()
        if a[0] in "msde":
            k, mi, j = a
            seq = list(self.markers[mi])
            if k == "s": seq = seq[:3]
            elif k == "d": seq = [(b, 0) for b, _ in seq]
            elif k == "e": seq = seq[:3] + [(seq[3][0], 0)]
            for n, s in enumerate(seq):
                if j + n < 4: lanes[j + n] = s
            newcarry = tuple(seq[4 - j:]) if j + len(seq) > 4 else ()
        return 1, lanes, newcarry

    def apply(self, cur, env, a):
        hist, carry, cands = env
        valid, lanes, carry2 = self.build_word(carry, a)
        data = ctrl = 0
        for i, (b, k) in enumerate(lanes):
            data |= b << (8 * i); ctrl |= k << i
        o = cur.step(valid=valid, data=data, ctrl=ctrl)
        if valid:
            hist = (hist + tuple(lanes))[-H:]
            cands = frozenset(c if c == U else (c[0] + 4, c[1]) for c in cands)
        else:
            self.cover["invalid_word"] += 1
        n = len(hist)
        matches = [i for i in range(n - 3) if hist[i:i + 4] in self.marker_set]
        for x, y in zip(matches, matches[1:]):
            if y - x < 4: return None                     # overlapping marker sequences: outside the assumptions
        if valid and a[0] in "sde": self.cover["lookalike_" + a[0]] += 1

        def offset_before(idx, last_off):
            """offset of the latest complete marker sequence lying entirely before position idx"""
            ms = [i for i in matches if i + 4 <= idx]
            return ms[-1] % 4 if ms else last_off

        overdue = any(n - i > H - 4 for i in matches)      # a marker sequence received long ago has still not been presented
        if o.src_valid:
            word = tuple((o.src_data >> (8 * i) & 0xFF, o.src_ctrl >> i & 1) for i in range(4))
            new = set()
            reasons = set()
            for c in cands:
                if c == U:
                    presented = False
                    for i in matches:
                        if word == hist[i:i + 4]:
                            presented = True
                            new.add((n - (i + 4), i % 4)); self.cover[f"first_alignment_lane{i % 4}"] += 1
                    if presented: pass                      # the output showed a received marker sequence: aligned from here on
                    elif overdue: reasons.add("marker-sequence-not-presented")
                    else: new.add(U)
                    continue
                lag, last_off = c
                idx = n - lag
                if idx < 0:
                    reasons.add("output-lost-symbols"); continue
                if idx + 4 > n:
                    reasons.add("output-ahead-of-input"); continue
                if word == hist[idx:idx + 4]:
                    off = offset_before(idx, last_off)
                    if off is not None and off != idx % 4:
                        reasons.add("marker-sequence-ignored")      # still regrouping at the offset of an older sequence
                    else:
                        new.add((lag - 4, offset_before(idx + 4, last_off)))
                        if word in self.marker_set: self.cover["marker_at_current_offset"] += 1
                        else: self.cover["continued"] += 1
                else:
                    reasons.add("aligned-output-mismatch")
                for i in matches:
                    if i % 4 != idx % 4 and i > idx - 4 and word == hist[i:i + 4]:
                        new.add((n - (i + 4), i % 4))
                        self.cover[f"realigned_to_lane{i % 4}"] += 1
            if not new:
                for r in ("marker-sequence-ignored", "marker-sequence-not-presented", "output-lost-symbols",
                          "output-ahead-of-input", "aligned-output-mismatch"):
                    if r in reasons:
                        exp = [("unaligned" if c == U else dict(lag=c[0], aligned_to_offset=c[1],
                                expected=(hist[n - c[0]:n - c[0] + 4] if 0 <= n - c[0] <= n - 4 else None))) for c in sorted(cands, key=str)]
                        raise Violation(r, dict(got=word, alignment_offset=o.alignment_offset, history=hist,
                                                marker_sequences_at=matches, candidates=exp))
            cands = frozenset(new)
        else:
            new = set()
            for c in cands:
                if c == U:
                    if not overdue: new.add(U)
                elif c[0] <= n: new.add(c)
            if not new:
                raise Violation("marker-sequence-not-presented" if U in cands else "output-lost-symbols",
                                dict(history=hist, marker_sequences_at=matches, candidates=sorted(cands, key=str)))
            cands = frozenset(new)
        self.outcomes.add((o.src_valid, o.alignment_offset))
        # forget history the reference can no longer refer to (everything more than 3 symbols before the oldest expected word)
        cut = min(max(0, (n - c[0] - 3) // 4 * 4) if c != U else
                  (matches[0] // 4 * 4 if matches else max(0, n - 4)) for c in cands)   # unaligned: keep the oldest unpresented marker
        if cut: hist = hist[cut:]
        return (hist, carry2, cands)

    def goals(self):
        g = ["invalid_word", "continued", "marker_at_current_offset"]
        g += [f"realigned_to_lane{j}" for j in range(4)]
        g += [f"first_alignment_lane{j}" for j in range(4)]
        g += ["lookalike_" + k for k in self.cfg.get("extras", "")]
        return g


def make(cfg, tier):
    return AlignerSpec(cfg, tier)
