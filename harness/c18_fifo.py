# C18 - TransactionalizedFIFO behaves as a commit/rollback queue.   Per-cycle closure over all input combinations.
#
# Oracle: a nondeterministic reference queue.  An abstract state is (held, r, wc): `held` = entries between the
# committed read position and the current write position, r = tentative reads, wc = committed writes.
# Where the statement leaves a convention open (does a commit strobed together with a write/read cover that
# same-cycle operation?) both answers are admitted: the reference is a *set* of candidate states, pruned by the
# outputs actually observed.  A violation is an observation no candidate explains.
from rtlmc.model import Design, Violation
from rtlmc.explore import Spec

PROPERTY = "C18"


def configs(tier):
    if tier == "quick":
        shapes = [(1, 1), (1, 2), (1, 3), (2, 2), (1, 4)]
    else:
        shapes = [(1, 1), (1, 2), (1, 3), (2, 2), (1, 4), (2, 3), (1, 5), (8, 2)]
    return [dict(width=w, depth=d) for w, d in shapes]


class FifoSpec(Spec):
    n_validate = 8

    def __init__(self, cfg, tier):
        super().__init__(cfg, tier)
        self.depth = cfg["depth"]
        w = cfg["width"]
        vals = [0, 1] if w == 1 else ([0, 1, 2, 3] if w == 2 else [0x00, 0xA5, 0xFF])
        acts = []
        for we in (0, 1):
            for wcm, wd in ((0, 0), (1, 0), (0, 1)):
                for re in (0, 1):
                    for rcm, rd in ((0, 0), (1, 0), (0, 1)):
                        for v in (vals if we else [0]):
                            acts.append((we, wcm, wd, re, rcm, rd, v))
        self._acts = acts
        self.time_budget = 600 if tier == "quick" else 1500   # safety net only

    def build(self):
        from luna.gateware.memory import TransactionalizedFIFO
        d = TransactionalizedFIFO(width=self.cfg["width"], depth=self.cfg["depth"])
        ins = dict(write_en=d.write_en, write_commit=d.write_commit, write_discard=d.write_discard, write_data=d.write_data,
                   read_en=d.read_en, read_commit=d.read_commit, read_discard=d.read_discard)
        obs = dict(read_data=d.read_data, empty=d.empty, full=d.full, space_available=d.space_available)
        return Design(d, ins, obs)

    def env0(self):
        return frozenset([((), 0, 0)])

    def actions(self, env):
        return self._acts

    def assumptions(self):
        return ["commit and discard of the same side are never strobed in the same cycle (unspecified combination)",
                "read_data is compared whenever 'empty' is low, as the class documents it valid then"]

    def apply(self, cur, env, a):
        we, wcm, wd, re, rcm, rd, v = a
        o = cur.step(write_en=we, write_commit=wcm, write_discard=wd, write_data=v, read_en=re, read_commit=rcm, read_discard=rd)
        depth = self.depth
        nxt = set()
        explained = False
        why = None; why_data = None
        for held, r, wc in env:
            empty = int(r == wc)
            full = int(len(held) == depth)
            space = depth - len(held)
            if (o.empty, o.full, o.space_available) != (empty, full, space):
                why = ("status", dict(expected=dict(empty=empty, full=full, space=space), got=dict(empty=o.empty, full=o.full, space=o.space_available)))
                continue
            if not empty and o.read_data != held[r]:
                why_data = ("read_data", dict(expected=held[r], got=o.read_data))
                continue
            explained = True
            do_w = we and not full
            do_r = re and not empty
            # write side (discard overrides a same-cycle write)
            h2s = []
            if wd:
                h2s.append((held[:wc], wc))
            else:
                h2 = held + (v,) if do_w else held
                if wcm:
                    h2s.append((h2, len(held)))
                    if do_w: h2s.append((h2, len(h2)))      # admitted alternative: commit covers the same-cycle write
                else:
                    h2s.append((h2, wc))
            # read side
            for h2, wc2 in h2s:
                if rd:
                    nxt.add((h2, 0, wc2))
                else:
                    r2 = r + 1 if do_r else r
                    if rcm:
                        nxt.add((h2[r:], r2 - r, wc2 - r))
                        if do_r: nxt.add((h2[r2:], 0, wc2 - r2))   # admitted alternative
                    else:
                        nxt.add((h2, r2, wc2))
        if not explained:
            why = why_data or why
            raise Violation("fifo-" + why[0], dict(why[1], candidates=sorted(env)))
        self.outcomes.add(tuple(o))
        if o.full: self.cover["full"] += 1
        if not o.empty: self.cover["nonempty"] += 1
        if rd: self.cover["read_discard"] += 1
        if wd: self.cover["write_discard"] += 1
        return frozenset(nxt)

    def goals(self):
        return ["full", "nonempty", "read_discard", "write_discard"]


def make(cfg, tier):
    return FifoSpec(cfg, tier)
