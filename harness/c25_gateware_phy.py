# C25 - GatewarePHY: full-speed line encoding / decoding, non-driving mode, pull-up / pull-down outputs.
#
# DUT: luna.gateware.interface.gateware_phy.GatewarePHY(io=Record(d_p, d_n, pullup, pulldown)); two clock domains,
# usb_io (48 MHz, one step) and usb (12 MHz, every 4th step); the four alignments of the 12 MHz edge against the PHY's
# free-running 48 MHz bit-strobe counter are four configurations (Design.clocks phase 0..3).
#
# Reference (written from USB 2.0 chapter 7, not from the implementation):
#   7.1.10  SYNC = KJKJKJKK (data 0000 0001 after NRZI from the idle J)
#   7.1.9   bit stuffing: a 0 is inserted after every six consecutive 1s of the data stream *before* NRZI; stuffing is
#           enabled beginning with the SYNC pattern, the 1 that ends SYNC counts as the first 1 of a run; a stuffed 0 is
#           inserted even when it is the last bit before EOP
#   7.1.8   NRZI: a 0 is a transition, a 1 is no transition
#   7.1.13  EOP: SE0 for two bit times, J for one bit time, then the driver releases the bus
#   bytes go LSB first (8.1).  Full speed: 12 Mb/s = exactly 4 ticks of the 48 MHz clock per bit on the transmit side.
#
# Modes (one per configuration):
#   static  per-usb-cycle closure over the control inputs (op_mode, tx_valid, tx_data, term_select, dp/dm_pulldown):
#           op_mode 1 (UTMI "non-driving") => neither d_p.oe nor d_n.oe on any 48 MHz tick; pullup.o == term_select;
#           pulldown.o follows the pull-down requests (equal requests -> that value; the PHY has one pin for the two
#           requests, so with unequal requests either value is admitted).
#   tx      one action = one UTMI transmission (tx_valid high, next byte after every tx_ready sampled at the 12 MHz edge,
#           tx_valid dropped after the last byte) followed by a gap; the monitor samples d_p/d_n/oe on every 48 MHz tick
#           and demands exactly one contiguous driven burst equal to encode(bytes) at 4 ticks per symbol.  Closure over
#           all byte sequences of the alphabet x gaps.  tx-pid: first byte a PID, tx_data = 0 while idle (how a USB
#           function uses the PHY); tx-raw: any first byte; tx-junk: tx_data = 0xFF whenever tx_valid is low.
#   rx      one action = one line packet played at 4 ticks per bit from any of the 4 sampling phases, followed by a gap
#           (2 bit times = minimum inter-packet delay, or longer).  The monitor is carried across actions (short gaps
#           overlap the previous packet's delivery) and demands: rx_active rises, exactly the packet's bytes on
#           rx_valid/rx_data at 12 MHz edges, rx_active falls, all within DL ticks after the EOP, no rx_error at a 12 MHz
#           edge while rx_active.  A packet with an omitted stuff bit (seven 1s) must show rx_error at a 12 MHz edge
#           while rx_active, before its EOP is over.
#           rx-seq / rx-seq-deep: all packet pairs / triples; rx-wrap: closure over a two-packet alphabet (all pointer
#           positions of the two clock-domain-crossing FIFOs); rx-allbytes: PID + every byte value; rx-slip+1/-1: one bit
#           cell of 5 / 3 ticks at every position (the image of +-0.25 % drift on short packets), also after a
#           back-to-back predecessor and with a back-to-back successor; rx-long-2slips (thorough): an 18-byte packet
#           with two slips of the same sign >= 100 bit cells apart (1 tick in 400 = 0.25 %).
#   mixed   tx and rx actions interleaved (bus turn-around both ways), bounded depth.
#
# Rule signatures: drives-in-nondriving-mode, pullup-not-term-select, pulldown-not-following-request;
#   tx-sync / tx-eop / tx-se1 / tx-bit-timing / tx-bus-released-inside-packet / tx-oe-differs-between-pins / tx-not-completed /
#   tx-stuffing / tx-stuffing:sync-one-not-counted / tx-spurious-bit-after-sync / tx-length / tx-bytes-corrupted /
#   tx-bytes-dropped-or-duplicated / tx-encoding;
#   rx-active-missing / rx-active-stuck / rx-spurious-active / rx-spurious-data / rx-valid-outside-active / rx-bytes-short /
#   rx-bytes-extra / rx-bytes-mismatch / rx-error-on-good-packet / rx-stuff-error:not-reported /
#   rx-stuff-error:pulse-missed-by-12mhz-clock.
import os
from rtlmc.model import Design, Violation
from rtlmc.explore import Spec

PROPERTY = "C25"
TECHNIQUE = ("explicit-state BFS of GatewarePHY (two clock domains, 4 phase alignments): per-cycle closure over the control "
             "inputs; packet-level closure with a tick-level line monitor (TX) / line driver with phases and slips (RX) "
             "against a USB 2.0 chapter 7 reference codec")

# ------------------------------------------------------------------------------------------------- reference codec
SYNC_BITS = (0, 0, 0, 0, 0, 0, 0, 1)
EOP = ("0", "0", "J")
SYNC_SYMS = tuple("KJKJKJKK")


def bits_of(bs):
    return [(b >> i) & 1 for b in bs for i in range(8)]


def stuff(bits, skip=None):
    """7.1.9 over SYNC+payload bits.  skip = index of a stuff bit the (faulty) sender omits."""
    out, ones, n = [], 0, 0
    for b in bits:
        out.append(b)
        if b:
            ones += 1
            if ones == 6:
                if n != skip: out.append(0)
                n += 1
                ones = 0
        else:
            ones = 0
    return out, n


def nrzi(bits, level="J"):
    out = []
    for b in bits:
        if not b: level = "K" if level == "J" else "J"
        out.append(level)
    return out


def encode(bs, skip=None):
    """bytes -> list of line symbols 'J'/'K'/'0' one per bit time, SYNC .. EOP."""
    st, _ = stuff(list(SYNC_BITS) + bits_of(bs), skip)
    return nrzi(st) + list(EOP)


def n_stuffed(bs):
    return stuff(list(SYNC_BITS) + bits_of(bs))[1]


def ends_with_stuff(bs):
    st, _ = stuff(list(SYNC_BITS) + bits_of(bs))
    return st[-1] == 0 and (bs[-1] >> 7) == 1          # the stream ends in a 0 that is not the last data bit


def line_bits(syms):
    """SYNC/EOP framing check + NRZI decoding of the symbols between them -> (bits or None, problem)."""
    syms = list(syms)
    if tuple(syms[:8]) != SYNC_SYMS: return None, "sync"
    if "1" in syms: return None, "se1"
    if tuple(syms[-3:]) != EOP or "0" in syms[:-3]: return None, "eop"
    bits, prev = [], "K"
    for s in syms[8:-3]:
        bits.append(1 if s == prev else 0)
        prev = s
    return bits, None


def unstuff(bits, ones):
    """remove stuffed zeros; `ones` = length of the run of 1s preceding bits[0].  -> (bytes or None, problem)"""
    out, i = [], 0
    while i < len(bits):
        b = bits[i]; i += 1
        out.append(b)
        if b:
            ones += 1
            if ones == 6:
                if i >= len(bits): return None, "stuffing"      # six 1s straight into EOP
                if bits[i] != 0: return None, "stuffing"        # seventh 1
                i += 1; ones = 0
        else:
            ones = 0
    if len(out) % 8: return None, "length"
    return tuple(sum(out[k + j] << j for j in range(8)) for k in range(0, len(out), 8)), None


def decode(syms, count_sync_one=True):
    """line symbols (one per bit time) -> (bytes or None, problem or None).  Inverse of encode, per chapter 7."""
    bits, why = line_bits(syms)
    if why: return None, why
    return unstuff(bits, 1 if count_sync_one else 0)


def _selftest():
    import itertools
    al = [0x00, 0xFF, 0x80, 0xFE, 0x7F, 0xAA, 0xFC, 0x3F, 0xC3, 0xE1]
    for n in (1, 2, 3):
        for bs in itertools.product(al, repeat=n):
            s = encode(bs)
            assert decode(s) == (bs, None), bs
            run = 0; prev = "J"
            for x in s[:-3]:
                run = run + 1 if x == prev else 1      # equal symbols in a row: run-1 ones after a transition
                assert run <= 7, bs                      # at most six 1s => at most 7 equal symbols
                prev = x
    assert "".join(encode([0xD2])) == "KJKJKJKK" + "JJKJJKKK" + "00J"
    assert "".join(encode([0xFF])) == "KJKJKJKK" + "KKKKKJJJJ" + "00J"       # SYNC's 1 + five 1s, stuffed 0, three 1s
    assert decode(encode([0xC3, 0xFF, 0x00], skip=0))[1] == "stuffing"


_selftest()

LV = {"J": (1, 0), "K": (0, 1), "0": (0, 0), "1": (1, 1)}
SYM = {(1, 0): "J", (0, 1): "K", (0, 0): "0", (1, 1): "1"}

# ------------------------------------------------------------------------------------------------- alphabets
PIDS = [0x4B, 0xC3, 0xE1]                # DATA1 (msb 0), DATA0 (ends 11), OUT (ends 111): all run lengths a PID can leave
STUFFY = [0x00, 0xFF, 0x80, 0xFE, 0x7F, 0xAA, 0xFC, 0x3F]
DL = 96                                   # ticks after the end of EOP by which a packet must be fully delivered (24 bit times)
LONG_GAP = 26                             # bit times of idle that let every pending delivery finish (> DL/4)
MIN_SLIP_DISTANCE = 100                   # bit cells between two slips of the same sign: 1 tick in 400 = 0.25 %


def _seqs(first, rest, maxlen):
    out = [(f,) for f in first]
    layer = list(out)
    for _ in range(maxlen - 1):
        layer = [s + (r,) for s in layer for r in rest]
        out += layer
    return out


def _stuff_at_every_bit_position():
    """PID-led sequences in which the sixth consecutive 1 (hence the stuffed 0 / the transmitter's stall) falls on every
    bit position k of a byte - in particular on the position where the shifter runs empty and reloads - with the run
    inside one byte (k >= 5) or straddling the byte boundary at every offset (k < 5), with the run ending there or
    continuing, right after the PID or one byte later, and with 0, 1 or 2 distinguishable bytes still to be handed over."""
    out = []
    for k in range(8):
        if k >= 5:
            pats = [((0x3F << (k - 5)) & 0xFF,), ((0xFF << (k - 5)) & 0xFF,)]
        else:
            prev = (0xFF << (3 + k)) & 0xFF                 # 5-k ones at the top of the preceding byte
            pats = [(prev, (1 << (k + 1)) - 1), (prev, 0xFF)]
        for pat in pats:
            for pre in ((0x4B,), (0x4B, 0x00)):
                for post in ((0x12, 0x34), (0x12,), ()):
                    out.append(pre + pat + post)
    return out


def configs(tier):
    q = tier == "quick"
    out = []
    # --- static
    out.append(dict(name="static-drive", mode="static", phase=3, what="drive"))
    out.append(dict(name="static-pull", mode="static", phase=3, what="pull"))
    if not q:
        for p in (0, 1, 2):
            out.append(dict(name=f"static-drive-p{p}", mode="static", phase=p, what="drive"))
    # --- transmit, packets that start with a PID (everything a USB function or host can legally send), tx_data = 0 when idle
    for p in range(4):
        out.append(dict(name=f"tx-pid-p{p}", mode="tx", phase=p, first="pid", maxlen=3 if q else 4,
                        gaps=[0, 1, 2, 3, 6], junk=[0x00]))
    # --- transmit, arbitrary first byte ("each byte sequence")
    for p in ([0] if q else range(4)):
        out.append(dict(name=f"tx-raw-p{p}", mode="tx", phase=p, first="raw", maxlen=2 if q else 3,
                        gaps=[0, 1, 2, 3, 6], junk=[0x00]))
    # --- transmit, PID first, tx_data carries all-ones whenever tx_valid is low (UTMI: DataIn is only meaningful under TXValid)
    for p in ([0] if q else range(4)):
        out.append(dict(name=f"tx-junk-p{p}", mode="tx", phase=p, first="pid", maxlen=2 if q else 3,
                        gaps=[0, 1, 2, 3, 6], junk=[0xFF]))
    # --- receive: sequences of packets (all 4 sampling phases, minimum and long gaps), bounded depth
    out.append(dict(name="rx-seq", mode="rx", phase=0, pkts="seq", plan="seq", gaps=[2, 4, LONG_GAP], depth=2))
    if not q:
        out.append(dict(name="rx-seq-deep", mode="rx", phase=0, pkts="seq6", plan="seq", gaps=[2, LONG_GAP], depth=3))
    # --- receive: closure (unbounded sequences) over a two-packet alphabet: every pointer position of the clock-domain-crossing FIFOs
    out.append(dict(name="rx-wrap", mode="rx", phase=0, pkts="wrap", plan="seq", gaps=[2, LONG_GAP], depth=None))
    # --- receive: every value of a data byte behind a PID (every run of 1s into the EOP, both line levels before the EOP)
    out.append(dict(name="rx-allbytes", mode="rx", phase=0, pkts="allbytes", plan="seq", gaps=[LONG_GAP], depth=1))
    # --- receive: one bit cell one tick long/short at every position of the packet (SYNC and EOP included)
    for sgn in (+1, -1):
        out.append(dict(name=f"rx-slip{sgn:+d}", mode="rx", phase=0, pkts="slip", plan="slip", sign=sgn, depth=None))
    if not q:
        for p in (1, 2, 3):
            out.append(dict(name=f"rx-seq-p{p}", mode="rx", phase=p, pkts="seq", plan="seq", gaps=[2, LONG_GAP], depth=2))
        for sgn in (+1, -1):
            out.append(dict(name=f"rx-long-2slips{sgn:+d}", mode="rx", phase=0, pkts="long", plan="long", sign=sgn, depth=1))
    # --- turn-around
    out.append(dict(name="mixed", mode="mixed", phase=0, depth=3 if q else 4))
    if not q:
        for p in (1, 2, 3):
            out.append(dict(name=f"mixed-p{p}", mode="mixed", phase=p, depth=3))
    return out


GOOD, BAD = "good", "bad"


def rx_packets(kind, tier):
    """list of (kind, bytes, skipped stuff bit)"""
    if kind in ("seq", "seq6"):
        ps = [(GOOD, (0xD2,), None), (GOOD, (0xC3, 0xFF, 0xFF), None), (GOOD, (0xE1, 0xFC), None),
              (GOOD, (0x4B, 0x80, 0xFE, 0x7F), None), (BAD, (0xC3, 0xFF, 0x00), 0), (GOOD, (0xC3, 0x00, 0x00), None)]
        if tier != "quick" and kind == "seq":
            ps += [(GOOD, (0xC3, 0xAA, 0x3F, 0xFF, 0x7F), None), (BAD, (0x4B, 0x7F, 0xFF, 0x01), 1),
                   (GOOD, (0xA5, 0xFF, 0xFF, 0xFF, 0xFF, 0xFF, 0xFF), None)]
        return ps
    if kind == "slip":
        ps = [(GOOD, (0xD2,), None), (GOOD, (0xC3, 0xFF, 0xFF), None), (GOOD, (0xE1, 0xFC), None),
              (GOOD, (0x4B, 0x80, 0xFE, 0x7F), None), (BAD, (0xC3, 0xFF, 0x00), 0)]
        if tier != "quick":
            ps += [(GOOD, (0xC3, 0x00, 0xFF, 0xAA), None), (GOOD, (0xE1, 0x7F, 0x3F), None)]
        return ps
    if kind == "allbytes":
        return [(GOOD, (pid, x), None) for pid in ((0xC3,) if tier == "quick" else (0xC3, 0x4B, 0xE1)) for x in range(256)]
    if kind == "wrap":
        # quick: all bytes equal, so the FIFO memories converge and only the pointer positions / alignments remain
        return [(GOOD, (0xD2,), None), (GOOD, (0xD2, 0xD2, 0xD2), None) if tier == "quick" else (GOOD, (0xC3, 0xFF, 0xFF), None)]
    if kind == "long":
        return [(GOOD, (0xC3, 0x00, 0xFF, 0xFF, 0xAA, 0x7F, 0xFE, 0x01, 0x80, 0xFF, 0xFC, 0x3F, 0x55, 0xFF, 0xFF, 0x00, 0x12, 0x34), None)]
    if kind == "mixed":
        return [(GOOD, (0xD2,), None), (GOOD, (0xC3, 0xFF, 0xFC), None)]
    raise KeyError(kind)


class PhySpec(Spec):
    n_validate = 6
    validate_max_cycles = 4000

    def __init__(self, cfg, tier):
        super().__init__(cfg, tier)
        self.mode = cfg["mode"]
        self.phase = cfg["phase"]
        self.time_budget = 3600        # every configuration is bounded structurally (closure or depth), never by the clock
        if cfg.get("depth"): self.max_depth = cfg["depth"]
        m = self.mode
        acts = []
        if m == "static":
            if cfg["what"] == "drive":
                for op in range(4):
                    for tv in (0, 1):
                        for td in (0x00, 0xFF):
                            acts.append(("s", op, tv, td, 0, 0, 0))
            else:
                for op in (0, 1):
                    for tv in (0, 1):
                        for ts in (0, 1):
                            for dp in (0, 1):
                                for dm in (0, 1):
                                    acts.append(("s", op, tv, 0xA5, ts, dp, dm))
        if m == "tx":
            first = PIDS + [0xD2] if cfg["first"] == "pid" else STUFFY
            seqs = _seqs(first, STUFFY, cfg["maxlen"])
            if cfg["first"] == "pid":
                seqs = [s for s in seqs if not (s[0] == 0xD2 and len(s) > 1)]
                # a stuffed 0 exactly on a byte boundary with more bytes to follow (the stall meets the byte hand-over)
                seqs += [x for x in [(0xC3, 0xFC, 0x00, 0xFF), (0xC3, 0xFC, 0xFF, 0x00), (0x4B, 0xFC, 0xAA, 0x80), (0xC3, 0xFF, 0xFF, 0x00),
                                     (0xE1, 0xFC, 0xFC, 0xAA, 0x7F)] if x not in seqs]
                seqs += [x for x in _stuff_at_every_bit_position() if x not in seqs]
            for s in seqs:
                for g in cfg["gaps"]:
                    for j in cfg["junk"]:
                        acts.append(("tx", s, g, j))
        if m == "rx":
            self.packets = rx_packets(cfg["pkts"], tier)
            plan = cfg["plan"]
            self._stage_acts = None
            if plan == "seq":
                for i in range(len(self.packets)):
                    for off in range(4):
                        for g in cfg["gaps"]:
                            acts.append(("rx", i, off, (), g, ""))
            elif plan == "slip":
                # stage 0 -pre-> 1;  0/1 -slip,long gap-> 3 (end);  0 -slip,min gap-> 2 -post-> 3
                sg = cfg["sign"]
                pre = [("rx", 0, off, (), 2, "pre") for off in range(4)]
                if tier != "quick": pre += [("rx", 1, off, (), g, "pre") for off in range(4) for g in (2, LONG_GAP)]
                post = [("rx", i, off, (), LONG_GAP, "post") for i in (0, 1) for off in range(4)]
                slipL, slip2 = [], []
                for i, (kind, bs, skip) in enumerate(self.packets):
                    for off in range(4):
                        for sl in [()] + [((pos, sg),) for pos in range(len(encode(bs, skip)))]:
                            slipL.append(("rx", i, off, sl, LONG_GAP, "slip"))
                            slip2.append(("rx", i, off, sl, 2, "slip2"))
                self._stage_acts = {0: pre + slipL + slip2, 1: slipL, 2: post, 3: []}
                acts = self._stage_acts[0]
            elif plan == "long":
                sg = cfg["sign"]
                n = len(encode(self.packets[0][1]))
                for off in range(4):
                    acts.append(("rx", 0, off, (), LONG_GAP, "slip"))
                    for i in range(n):
                        for j in range(i + MIN_SLIP_DISTANCE, n):
                            acts.append(("rx", 0, off, ((i, sg), (j, sg)), LONG_GAP, "slip"))
        if m == "mixed":
            self.packets = rx_packets("mixed", tier)
            for sq in [(0xD2,), (0xC3, 0xFF, 0xFC)]:
                for g in (2, 8):
                    acts.append(("tx", sq, g, 0x00))
            for i in range(len(self.packets)):
                for off in range(4):
                    for g in (2, LONG_GAP):
                        acts.append(("rx", i, off, (), g, ""))
        self._acts = acts

    # ------------------------------------------------------------------------------------------------ DUT
    def build(self):
        from amaranth.hdl.rec import Record
        from luna.gateware.interface.gateware_phy import GatewarePHY
        io = Record([("d_p", [("i", 1), ("o", 1), ("oe", 1)]), ("d_n", [("i", 1), ("o", 1), ("oe", 1)]),
                     ("pullup", [("o", 1)]), ("pulldown", [("o", 1)])])
        phy = GatewarePHY(io=io)
        ins = dict(dp_i=io.d_p.i, dn_i=io.d_n.i, tx_data=phy.tx_data, tx_valid=phy.tx_valid, op_mode=phy.op_mode,
                   term_select=phy.term_select, dm_pd=phy.dm_pulldown, dp_pd=phy.dp_pulldown)
        obs = dict(dp_o=io.d_p.o, dn_o=io.d_n.o, dp_oe=io.d_p.oe, dn_oe=io.d_n.oe, pullup=io.pullup.o,
                   pulldown=io.pulldown.o, tx_ready=phy.tx_ready, rx_data=phy.rx_data, rx_valid=phy.rx_valid,
                   rx_active=phy.rx_active, rx_error=phy.rx_error)
        return Design(phy, ins, obs, dict(dp_i=1, dn_i=0), clocks={"usb_io": (1, 0), "usb": (4, self.phase)})

    def assumptions(self):
        a = ["usb is usb_io divided by 4, phase locked (as the class requires); all four alignments of the 12 MHz edge "
             "against the PHY's internal 48 MHz bit-strobe counter are separate configurations",
             "UTMI-side inputs (tx_valid, tx_data, op_mode, term_select, pulldown requests) change right after a 12 MHz edge",
             "xcvr_select is held at 0 and io has no vbus_valid member (neither is part of the statement)"]
        if self.mode in ("tx", "mixed"):
            a += ["UTMI transmit protocol: tx_valid is raised with the first byte, the next byte is presented in the cycle "
                  "after each 12 MHz edge that samples tx_ready high, tx_valid falls in the cycle after the last byte's "
                  "tx_ready; tx_data carries a junk value whenever tx_valid is low; op_mode = 0",
                  "a new transmission starts no earlier than <gap> 12 MHz cycles after the PHY has released the bus",
                  "while the PHY transmits the line inputs show idle J (the receiver input is gated by the PHY's own oe, so "
                  "looping the outputs back would not change any state)",
                  "transmit timing: every line symbol must last exactly 4 ticks of the 48 MHz clock (12 Mb/s); the latency "
                  "from tx_valid to SYNC is not constrained (only bounded for termination)"]
        if self.mode in ("rx", "mixed"):
            a += ["received packets: D+ and D- change on the same 48 MHz tick (no differential skew), 4 ticks per bit, any "
                  "of the 4 sampling phases; drift is modelled as bit cells of 3 or 5 ticks: at most one per packet of <= 7 bytes, "
                  f"two of the same sign >= {MIN_SLIP_DISTANCE} bit cells apart in the 18-byte packet (1 tick in 400 = 0.25 %)",
                  "received packets start with a valid PID byte (USB 2.0 8.3.1), as every correctly formed packet does",
                  "inter-packet gap >= 2 bit times of idle J after the EOP's J bit",
                  f"delivery (rx_active rise, bytes, rx_active fall) must complete within {DL} ticks ({DL // 4} bit times) "
                  "after the end of the EOP; no other latency is demanded",
                  "rx_error is only looked at while rx_active is high and only at 12 MHz clock edges (the UTMI interface is "
                  "documented as belonging to the usb domain); a stuffing violation counts as reported when rx_error is seen "
                  "that way before the end of the packet's EOP",
                  "the stuffing violation is placed in the second byte or later"]
        if self.mode == "static":
            a += ["with unequal dp/dm pulldown requests either value of the single pulldown pin is admitted",
                  "nothing is demanded of op_mode 2 and 3"]
        return a

    def goals(self):
        m = self.mode
        if m == "static":
            return ["static:opmode1+tx_valid", "static:opmode0-driving"] if self.cfg["what"] == "drive" else \
                   ["static:term_select=1", "static:pulldown-req=1", "static:pulldown-req-mixed"]
        g = []
        if m in ("tx", "mixed"):
            seqs = [x[1] for x in self._acts if x[0] == "tx"]
            g += ["tx:packet-checked"]
            if any(n_stuffed(x) for x in seqs): g += ["tx:stuffed"]
            if any(n_stuffed(x) >= 2 for x in seqs): g += ["tx:two-stuff-bits"]
            if any(ends_with_stuff(x) for x in seqs): g += ["tx:stuff-bit-before-eop"]
        if m in ("rx", "mixed"):
            g += ["rx:good-delivered"]
            if any(k == GOOD and n_stuffed(bs) for k, bs, _ in self.packets): g += ["rx:stuffed-delivered"]
            if any(k == BAD for k, _, _ in self.packets): g += ["rx:stuff-error-packet-played"]
            if m == "rx" and self.cfg["plan"] in ("slip", "long"): g += ["rx:slip-delivered"]
            if m == "mixed" or self.cfg["plan"] == "slip" or 2 in self.cfg.get("gaps", []): g += ["rx:delivery-overlaps-next-packet"]
        return g

    # ------------------------------------------------------------------------------------------------ exploration
    def env0(self):
        if self.mode == "static": return (0, 0, 0, 0, 0, 0)
        if self.mode == "tx": return ()
        return (0, (), 0)         # (rx_active at the last 12 MHz edge, queue of packets not yet fully delivered, stage of the plan)

    def canon(self, env):
        if self.mode == "static" and self.phase == 3: return ()
        return env

    def actions(self, env):
        if self.mode == "mixed" and env[1]:
            # the function/host logic above the PHY answers a packet only after it has been delivered completely
            return [a for a in self._acts if a[0] == "rx"]
        if self.mode == "rx" and self._stage_acts: return self._stage_acts[env[2]]
        return self._acts

    def label(self, a):
        if a[0] == "tx": return ["tx", [f"{b:02x}" for b in a[1]], f"gap={a[2]}", f"junk={a[3]:02x}"]
        if a[0] == "rx":
            k, bs, skip = self.packets[a[1]]
            return ["rx" + ("-" + a[5] if a[5] else ""), k, [f"{b:02x}" for b in bs], f"phase={a[2]}",
                    " ".join(f"cell{pos}:{d:+d}tick" for pos, d in a[3]) or "noslip", f"gap={a[4]}bit"]
        return ["op_mode=%d tx_valid=%d tx_data=%02x term_select=%d dp_pd=%d dm_pd=%d" % a[1:]]

    def apply(self, cur, env, a):
        if a[0] == "s": return self._static(cur, env, a)
        if a[0] == "tx": return self._tx(cur, env, a)
        return self._rx(cur, env, a)

    _vecs = None
    _masks = None

    def _clock_masks(self, model):
        # clock-enable mask per step index, same rule as Design.clocks (the amaranth.sim replay re-checks every mask)
        if self._masks is None:
            self._masks = [sum(1 << bit for bit, dom in enumerate(model.clk_domains) if t % model.clocks[dom][0] == model.clocks[dom][1])
                           for t in range(4)]
            self._txvecs = {}
        return self._masks

    # ------------------------------------------------------------------------------------------------ static
    def _static(self, cur, old, a):
        new = a[1:]
        p = self.phase
        for t in range(4):
            op, tv, td, ts, dp, dm = new if (p == 3 or t > p) else old
            o = cur.step(op_mode=op, tx_valid=tv, tx_data=td, term_select=ts, dp_pd=dp, dm_pd=dm)
            if op == 1:
                if tv: self.cover["static:opmode1+tx_valid"] += 1
                if o.dp_oe or o.dn_oe:
                    raise Violation("drives-in-nondriving-mode",
                                    dict(op_mode=1, tx_valid=tv, tx_data=td, dp_oe=o.dp_oe, dn_oe=o.dn_oe, dp_o=o.dp_o, dn_o=o.dn_o, tick=t))
            if op == 0 and o.dp_oe: self.cover["static:opmode0-driving"] += 1
            if ts: self.cover["static:term_select=1"] += 1
            if dp and dm: self.cover["static:pulldown-req=1"] += 1
            if dp != dm: self.cover["static:pulldown-req-mixed"] += 1
            if o.pullup != ts:
                raise Violation("pullup-not-term-select", dict(term_select=ts, dp_pulldown=dp, dm_pulldown=dm, pullup_o=o.pullup, pulldown_o=o.pulldown))
            if dp == dm and o.pulldown != dp:
                raise Violation("pulldown-not-following-request", dict(term_select=ts, dp_pulldown=dp, dm_pulldown=dm, pullup_o=o.pullup, pulldown_o=o.pulldown))
        return new

    # ------------------------------------------------------------------------------------------------ transmit
    def _tx(self, cur, env, a):
        _, data, gap, junk = a
        p = self.phase
        exp_syms = encode(data)
        exp = "".join(s * 4 for s in exp_syms)
        limit = len(exp) + 4 * 48
        lead = (p + 1) % 4            # inputs change right after the 12 MHz edge
        valid = idx = 0
        wire = []
        accepted = []
        t = 0
        seen = False
        tail = None                   # remaining ticks once the bus has been released
        ract = env[0] if env else 0
        model = cur.model
        masks = self._clock_masks(model)
        vc = self._txvecs
        step = cur.step_vec
        while True:
            if t == lead and idx == 0 and not accepted: valid = 1
            key = (valid, data[idx] if valid else junk)
            v = vc.get(key)
            if v is None: v = vc[key] = model.vec(tx_valid=key[0], tx_data=key[1])
            o = step(v, masks[t & 3])
            if o.dp_oe != o.dn_oe:
                raise Violation("tx-oe-differs-between-pins", dict(tick=t, dp_oe=o.dp_oe, dn_oe=o.dn_oe))
            drv = o.dp_oe
            wire.append(SYM[(o.dp_o, o.dn_o)] if drv else ".")
            if t % 4 == p:
                ract = o.rx_active
                if valid and o.tx_ready:
                    accepted.append(t)
                    idx += 1
                    if idx == len(data): valid = 0
            t += 1
            if drv: seen = True
            if tail is None:
                if seen and not drv and not valid and accepted and idx == len(data) and t % 4 == 0:
                    tail = gap * 4
                elif t >= limit:
                    raise Violation("tx-not-completed", dict(bytes=_hx(data), accepted_at=accepted, wire=_rle(wire), ticks=t))
            if tail is not None:
                if tail == 0: break
                tail -= 1
        w = "".join(wire)
        burst = w.strip(".")
        if burst != exp:
            self._tx_classify(data, burst, exp, accepted, w)
        self.cover["tx:packet-checked"] += 1
        ns = n_stuffed(data)
        if ns: self.cover["tx:stuffed"] += 1
        if ns >= 2: self.cover["tx:two-stuff-bits"] += 1
        if ends_with_stuff(data): self.cover["tx:stuff-bit-before-eop"] += 1
        self.outcomes.add((len(w) - len(w.lstrip(".")), len(data)))
        if self.mode == "tx": return ()
        return (ract, env[1], env[2])

    def _tx_classify(self, data, burst, exp, accepted, w):
        det = dict(bytes=_hx(data), expected=_rle(exp), got=_rle(burst), tx_ready_sampled_at=accepted)
        if "." in burst:
            raise Violation("tx-bus-released-inside-packet", det)
        runs = _runs(burst)
        if any(n % 4 for _, n in runs):
            raise Violation("tx-bit-timing", det)
        syms = [s for s, n in runs for _ in range(n // 4)]
        bits, why = line_bits(syms)
        if why: raise Violation("tx-" + why, det)
        got, why = unstuff(bits, 1)
        det["decoded"] = _hx(got) if got is not None else why
        if got == tuple(data):
            raise Violation("tx-encoding", det)      # decodes fine but is not the canonical encoding (e.g. needless stuff bit)
        # known shapes of wrong stuffing, recognised so that they get a signature of their own
        if unstuff(bits, 0)[0] == tuple(data):
            det["note"] = ("decodes to the right bytes only if the 1 that ends SYNC is not counted towards the run of six "
                           "(USB 2.0 7.1.9 counts it): seven 1s in a row on the wire")
            raise Violation("tx-stuffing:sync-one-not-counted", det)
        if bits and bits[0] == 0 and tuple(data) in (unstuff(bits[1:], 0)[0], unstuff(bits[1:], 1)[0]):
            det["note"] = "an extra 0 bit (a transition) sits between SYNC and the first data bit; the rest decodes to the right bytes"
            raise Violation("tx-spurious-bit-after-sync", det)
        if why: raise Violation("tx-" + why, det)
        if len(got) == len(data): raise Violation("tx-bytes-corrupted", det)
        raise Violation("tx-bytes-dropped-or-duplicated", det)

    # ------------------------------------------------------------------------------------------------ receive
    _NEXT_STAGE = {"": 0, "pre": 1, "slip": 3, "slip2": 2, "post": 3}

    def _rx(self, cur, env, a):
        _, pi, off, slips, gapbits, role = a
        kind, data, skip = self.packets[pi]
        p = self.phase
        model = cur.model
        if self._vecs is None:
            self._vecs = {lv: model.vec(dp_i=lv[0], dn_i=lv[1]) for lv in LV.values()}
        vecs, masks = self._vecs, self._clock_masks(model)
        syms = encode(data, skip)
        sl = dict(slips)
        wave = []
        for k, s in enumerate(syms):
            wave += [vecs[LV[s]]] * (4 + sl.get(k, 0))
        idle = vecs[(1, 0)]
        end = off + len(wave)
        total = end + 4 * gapbits
        total += (-total) % 4
        prev, q, stage = env
        q = [list(e) for e in q]      # entry: [kind, bytes, idx (-1 = rx_active not yet risen), err@edge, err@any tick, age]
        step = cur.step_vec
        for t in range(total):
            if t == off: q.append([kind, data, -1, 0, 0, -1])
            if t == end: q[-1][5] = 0
            o = step(wave[t - off] if off <= t < end else idle, masks[t & 3])
            edge = ((t & 3) == p)
            if o.rx_error:
                # rx_error also pulses on an idle bus (every 7th idle bit: the class calls that normal); UTMI gives it a
                # meaning only while rx_active is high, and the 12 MHz side only sees it at its own clock edges.
                if o.rx_active and edge:
                    if q and q[0][2] >= 0 and q[0][0] == GOOD:
                        raise Violation("rx-error-on-good-packet", dict(packet=_hx(q[0][1]), tick=t, ticks_after_eop=q[0][5], action=self.label(a)))
                    if q and q[-1][0] == BAD and q[-1][5] < 0: q[-1][3] = 1      # reported while the packet is still on the wire
                elif o.rx_active:
                    self.cover["rx:error-pulse-between-12mhz-edges"] += 1
                if q and q[-1][0] == BAD and q[-1][5] < 0: q[-1][4] = 1
            if edge:
                act = o.rx_active
                if act and not prev:
                    if not q or q[0][2] != -1:
                        raise Violation("rx-spurious-active", dict(tick=t, pending=_q(q), action=self.label(a)))
                    q[0][2] = 0
                if o.rx_valid:
                    if not act:
                        raise Violation("rx-valid-outside-active", dict(tick=t, rx_data=o.rx_data))
                    if not q or q[0][2] < 0:
                        raise Violation("rx-spurious-data", dict(tick=t, rx_data=o.rx_data, pending=_q(q)))
                    e = q[0]
                    if e[0] == GOOD:
                        if e[2] >= len(e[1]):
                            raise Violation("rx-bytes-extra", dict(packet=_hx(e[1]), extra=f"{o.rx_data:02x}", action=self.label(a)))
                        if e[1][e[2]] != o.rx_data:
                            raise Violation("rx-bytes-mismatch", dict(packet=_hx(e[1]), index=e[2], got=f"{o.rx_data:02x}", action=self.label(a)))
                    e[2] += 1
                if prev and not act:
                    if not q or q[0][2] < 0:
                        raise Violation("rx-spurious-active", dict(tick=t, pending=_q(q), note="rx_active fell without a packet in delivery"))
                    e = q.pop(0)
                    if e[0] == GOOD:
                        if e[2] != len(e[1]):
                            raise Violation("rx-bytes-short", dict(packet=_hx(e[1]), delivered=e[2], action=self.label(a)))
                        self.cover["rx:good-delivered"] += 1
                        if n_stuffed(e[1]): self.cover["rx:stuffed-delivered"] += 1
                        if slips and not q: self.cover["rx:slip-delivered"] += 1
                        self.outcomes.add(("latency", e[5] // 4))
                    else:
                        if not e[3]:
                            if e[4]:
                                raise Violation("rx-stuff-error:pulse-missed-by-12mhz-clock",
                                                dict(packet=_hx(e[1]), note="rx_error pulsed only on 48 MHz ticks that are not a 12 MHz clock edge", action=self.label(a)))
                            raise Violation("rx-stuff-error:not-reported", dict(packet=_hx(e[1]), action=self.label(a)))
                        self.cover["rx:stuff-error-reported"] += 1
                prev = act
            for e in q:
                if e[5] >= 0:
                    e[5] += 1
                    if e[5] > DL:
                        rule = "rx-active-missing" if e[2] < 0 else ("rx-active-stuck" if (e[0] == BAD or e[2] >= len(e[1])) else "rx-bytes-short")
                        raise Violation(rule, dict(packet=_hx(e[1]), kind=e[0], delivered=max(e[2], 0), ticks_after_eop=e[5], action=self.label(a)))
        if kind == BAD: self.cover["rx:stuff-error-packet-played"] += 1
        if q: self.cover["rx:delivery-overlaps-next-packet"] += 1
        self.outcomes.add((kind, len(data), len(q)))
        return (prev, tuple(tuple(e) for e in q), self._NEXT_STAGE[role] if self.mode == "rx" else 0)


def _hx(bs):
    return " ".join(f"{b:02x}" for b in bs) if bs is not None else None


def _runs(s):
    out = []
    for c in s:
        if out and out[-1][0] == c: out[-1][1] += 1
        else: out.append([c, 1])
    return [(c, n) for c, n in out]


def _rle(s):
    return " ".join(f"{c}{n}" for c, n in _runs(s))


def _q(q):
    return [dict(kind=e[0], packet=_hx(e[1]), delivered=e[2], age=e[5]) for e in q]


def make(cfg, tier):
    return PhySpec(cfg, tier)
