# C47 - isochronous timestamp packets are decoded in full.
#
# DUT: luna.gateware.usb.usb3.protocol.timestamp.TimestampPacketReceiver (real class, elaborated).
# The decode is a one-step function of the presented header, so the property is decided by enumeration rather
# than BFS: every case presents one ITP header on header_sink (valid held until ready, as the HeaderQueue protocol
# says), then looks for the update strobe and compares the *reported* fields with the packet's fields
# (USB 3.2 8.7: DW0[4:0] type = 01100b, DW0[18:5] bus interval counter (14 bits), DW0[31:19] delta (13 bits)).
#
# Domain argument: the netlist cone of the two output registers is walked (harness/_gf2.affine_cone, wiring_only):
# it may contain only wiring of DW0[31:5] bits (possibly through pipeline registers) and selections steered by the
# remaining inputs (valid, type bits) or by state derived from those alone.
# A wiring-only function maps every output bit to one fixed input bit or a constant, so it is fully determined by
# the all-zero, all-one and single-bit packets; the enumeration covers those, adjacent pairs, all 2^14 counter values
# and all 2^13 delta values (each against both extreme values of the other field) and dense pseudo-random fields,
# each from two predecessor states (reset, and directly behind an all-ones ITP so every bit is seen to rise and fall).
# If the cone walk fails the check fails closed.
#
# Second DUT (configs dut=layer): the real USB3ProtocolLayer with free link-layer ports; every one of the 2^14 counter
# values (plus zero / ones / single bits against both delta extremes) must reach the layer's public bus_interval in full.
from rtlmc.model import Model, Design, Cursor, MachineryError
from rtlmc import pysim
from harness._gf2 import Regs, Run, ConeError, affine_cone, top_bits

PROPERTY = "C47"
TECHNIQUE = "enumeration of the one-step decode of the elaborated TimestampPacketReceiver under a wiring-only cone proof"

ITP_TYPE = 0b01100
FIELDS = ("dw1", "dw2", "crc16", "sequence_number", "dw3_reserved", "hub_depth", "delayed", "deferred", "crc5")


def build():
    from luna.gateware.usb.usb3.protocol.timestamp import TimestampPacketReceiver
    d = TimestampPacketReceiver()
    q = d.header_sink
    ins = dict(valid=q.valid, dw0=q.header.dw0)
    for f in FIELDS: ins[f] = getattr(q.header, f)
    obs = dict(update_received=d.update_received, bus_interval_counter=d.bus_interval_counter, delta=d.delta, ready=q.ready)
    return Design(d, ins, obs)


def widths():
    d = build().dut
    return len(d.bus_interval_counter), len(d.delta)


def junk_inputs(model, j):
    """the header fields that are not part of the timestamp carry junk pattern j (0: zeros, 1: ones, 2: mixed)"""
    kw = {}
    for f in FIELDS:
        w = model.in_widths[model.in_index[f]]
        kw[f] = 0 if j == 0 else ((1 << w) - 1 if j == 1 else (0xA5A5A5A5 >> 3) & ((1 << w) - 1))
    return kw


WAIT = 16          # generous bound on the decode latency (the statement fixes none)
TAIL = 4           # cycles watched after the strobe for a second one


def present(cur, model, counter, delta, junk):
    """one ITP through the HeaderQueue handshake, from a quiescent state.  The update strobe may come in the cycle the
    header is taken or up to WAIT cycles later; the reported values are read in the strobe cycle and, failing that,
    in the following one (strobe-first implementations).  Exactly one strobe.  Returns (failures, observation)."""
    dw0 = ITP_TYPE | (counter << 5) | (delta << 19)
    kw = dict(valid=1, dw0=dw0, **junk_inputs(model, junk))
    for _ in range(WAIT):                      # producer holds the header until it is taken
        o = cur.step(**kw)
        if o.ready: break
    else:
        return [("itp:not-accepted", dict(dw0=hex(dw0), note="ready never rose within 16 cycles of valid"))], None
    trace = [o]
    first = 0 if o.update_received else None
    while (first is None and len(trace) <= WAIT) or (first is not None and len(trace) <= first + TAIL):
        trace.append(cur.step())
        if first is None and trace[-1].update_received: first = len(trace) - 1
    if first is None:
        return [("itp:no-update-strobe", dict(dw0=hex(dw0), counter=counter, delta=delta, waited_cycles=WAIT))], None
    rises = sum(1 for i, t in enumerate(trace) if t.update_received and (i == 0 or not trace[i - 1].update_received))
    wc, wd = WIDTHS
    fails = []
    if rises != 1:
        fails.append(("itp:strobe-count", dict(dw0=hex(dw0), strobes=rises, update_received=[t.update_received for t in trace])))
    cands = [trace[first], trace[first + 1]]
    seen = next((t for t in cands if t.bus_interval_counter == counter and t.delta == delta), cands[0])
    if seen.bus_interval_counter != counter and all(t.bus_interval_counter != counter for t in cands):
        fails.append(("itp:bus_interval_counter", dict(dw0=hex(dw0), packet_counter=counter, reported=[t.bus_interval_counter for t in cands],
                                                       packet_delta=delta, output_width=wc, field_width=14, strobe_latency=first)))
    if seen.delta != delta and all(t.delta != delta for t in cands):
        fails.append(("itp:delta", dict(dw0=hex(dw0), packet_delta=delta, reported=[t.delta for t in cands], packet_counter=counter,
                                        output_width=wd, field_width=13, strobe_latency=first)))
    if not fails and (seen.bus_interval_counter != counter or seen.delta != delta):
        fails.append(("itp:fields-not-simultaneous", dict(dw0=hex(dw0), at_strobe=tuple(cands[0]), next_cycle=tuple(cands[1]))))
    return fails, seen


def stream_check(cur, model, pkts):
    """back-to-back ITPs (each offered the cycle after the previous one was taken): as many strobes as packets, and the
    n-th strobe reports the n-th packet (in its own cycle or the following one).  Returns a failure or None."""
    obs = []
    for i, (c, d) in enumerate(pkts):
        kw = dict(valid=1, dw0=ITP_TYPE | (c << 5) | (d << 19), **junk_inputs(model, i % 3))
        for _ in range(WAIT):
            o = cur.step(**kw); obs.append(o)
            if o.ready: break
        else:
            return ("itp:not-accepted", dict(packet_index=i, note="ready never rose within 16 cycles of valid"))
    for _ in range(WAIT + 2): obs.append(cur.step())
    strobes = [i for i, t in enumerate(obs) if t.update_received and (i == 0 or not obs[i - 1].update_received)]
    level = [i for i, t in enumerate(obs) if t.update_received]
    # back-to-back strobes may merge into one level: count strobe cycles when they are contiguous single-cycle pulses
    n = len(level) if len(level) == len(pkts) else len(strobes)
    idx = level if len(level) == len(pkts) else strobes
    if n != len(pkts):
        return ("itp:strobe-count", dict(packets=len(pkts), strobes=len(strobes), strobe_cycles=len(level)))
    for k, (i, (c, d)) in enumerate(zip(idx, pkts)):
        cands = obs[i:i + 2]
        if not any(t.bus_interval_counter == c and t.delta == d for t in cands):
            return ("itp:stream-order", dict(packet_index=k, packet=(c, d), reported=[(t.bus_interval_counter, t.delta) for t in cands]))
    return None


WIDTHS = (None, None)


def lcg(n, bits, x=0x1234567):
    for _ in range(n):
        x = (x * 6364136223846793005 + 1442695040888963407) & 0xFFFFFFFFFFFFFFFF
        yield (x >> 20) & ((1 << bits) - 1)


def points(tier):
    """(counter, delta) pairs"""
    full = (1 << 27) - 1
    pts = [0, full] + [1 << i for i in range(27)] + [full ^ (1 << i) for i in range(27)] + [3 << i for i in range(26)]
    out = [(p & 0x3FFF, p >> 14) for p in pts]
    for c in range(1 << 14): out += [(c, 0), (c, 0x1FFF)]
    for d in range(1 << 13): out += [(0, d), (0x3FFF, d)]
    out += [(p & 0x3FFF, p >> 14) for p in lcg(5000 if tier == "quick" else 200000, 27)]
    if tier != "quick":
        for c in range(1 << 14): out += [(c, 0x1555), (c, 0x0AAA)]
        for d in range(1 << 13): out += [(0x1555, d), (0x2AAA, d)]
    return out


def cone(model, run):
    d = model.design
    regs = Regs(model)
    data_bits = top_bits(model, d.inputs["dw0"], 5, 32)
    ffs = [regs.of_signal(d.observes[n]) for n in ("bus_interval_counter", "delta")]
    for n, ff in zip(("bus_interval_counter", "delta"), ffs):
        info = affine_cone(model, list(model.comp.cells[ff].data), data_bits, {ff}, wiring_only=True, through_registers=True)
        ctl_allowed = top_bits(model, d.inputs["valid"]) | top_bits(model, d.inputs["dw0"], 0, 5)
        # reset input of the domain also counts as control
        extra = {b for b in info["control_support"] if b not in ctl_allowed and not _is_reset_bit(model, b)}
        if extra:
            raise ConeError(f"{n}: capture is steered by inputs other than valid / packet type (top bits {sorted(extra)})")
    run.notes.append("netlist cone of bus_interval_counter and delta registers (through any pipeline registers): wiring of DW0[31:5] "
                     "only, captured under conditions on valid and DW0[4:0] (and state derived from them) only -> decided by "
                     "zero / ones / single-bit packets; no other header field is read")


def _is_reset_bit(model, bit):
    for name, (st, w) in model.comp.port_list:
        if st <= bit < st + w: return name.endswith("_rst") or name == "rst"
    return False


# ---- the protocol layer's public timestamp output (luna/gateware/usb/usb3/protocol/layer.py): the real
# USB3ProtocolLayer, elaborated with a link-layer-shaped bundle of free ports (same record types as USB3LinkLayer
# declares); only the header path link.header_source -> demultiplexer -> TimestampPacketReceiver -> bus_interval matters.
def build_layer():
    from amaranth import Signal
    from luna.gateware.usb.usb3.protocol.layer import USB3ProtocolLayer
    from luna.gateware.usb.usb3.link.header import HeaderQueue
    from luna.gateware.usb.usb3.link.data import DataHeaderPacket
    from luna.gateware.usb.stream import SuperSpeedStreamInterface

    class LinkPorts:
        """what USB3ProtocolLayer reads from / drives on its link layer, as unconnected ports"""
        def __init__(self):
            self.header_sink, self.header_source = HeaderQueue(), HeaderQueue()
            self.data_source, self.data_sink = SuperSpeedStreamInterface(), SuperSpeedStreamInterface()
            self.data_header_from_host = DataHeaderPacket()
            self.data_source_complete, self.data_source_invalid = Signal(), Signal()
            self.data_sink_send_zlp, self.data_sink_direction = Signal(), Signal()
            self.data_sink_sequence_number, self.data_sink_endpoint_number = Signal(5), Signal(4)
            self.data_sink_length = Signal(range(1024 + 1))
            self.ready, self.in_reset = Signal(), Signal()

    link = LinkPorts()
    d = USB3ProtocolLayer(link_layer=link)
    q = link.header_source
    ins = dict(valid=q.valid, dw0=q.header.dw0, link_ready=link.ready)
    for f in FIELDS: ins[f] = getattr(q.header, f)
    obs = dict(bus_interval=d.bus_interval, ready=q.ready)
    return Design(d, ins, obs, defaults=dict(link_ready=1))


def layer_present(cur, model, counter, delta, junk):
    """one ITP offered by the link layer from a quiescent state; the layer has no strobe, so bus_interval may settle
    any time within WAIT cycles after the header was taken and is read then.  Returns (failures, value read)."""
    dw0 = ITP_TYPE | (counter << 5) | (delta << 19)
    kw = dict(valid=1, dw0=dw0, **junk_inputs(model, junk))
    for _ in range(WAIT):
        if cur.step(**kw).ready: break
    else:
        return [("itp-layer:not-accepted", dict(dw0=hex(dw0), note="header_source.ready never rose within 16 cycles of valid"))], None
    left = WAIT
    while left > 0:                                      # (hold stops at each change; run out the bound)
        n, _first, _last = cur.hold(left)
        left -= max(n, 1)
    o = cur.step()
    if o.bus_interval != counter:
        return [("itp-layer:bus_interval", dict(dw0=hex(dw0), packet_counter=counter, bus_interval=o.bus_interval, packet_delta=delta,
                                                output_width=LAYER_WIDTH[0], field_width=14, read_after_cycles=WAIT))], o.bus_interval
    return [], o.bus_interval


LAYER_WIDTH = [None]


def layer_points(tier):
    full = 0x3FFF
    cs = [0, full] + [1 << i for i in range(14)] + [full ^ (1 << i) for i in range(14)]
    out = [(c, d) for c in cs for d in (0, 0x1FFF)]
    out += [(c, 0x1555) for c in range(1 << 14)]
    if tier != "quick": out += [(c, d) for c in range(1 << 14) for d in (0, 0x1FFF, 0x0AAA)]
    return out


def layer_prefix(cur, model, pre):
    cur.step()
    if pre == "after-all-ones":
        kw = dict(valid=1, dw0=ITP_TYPE | (0x3FFF << 5) | (0x1FFF << 19), **junk_inputs(model, 1))
        for _ in range(WAIT):
            if cur.step(**kw).ready: break
        for _ in range(WAIT + 2): cur.step()


def run_layer(cfg, tier, seed):
    model = Model(build_layer)
    LAYER_WIDTH[0] = len(model.design.dut.bus_interval)
    run = Run(cfg, model)
    base = Cursor(model)
    layer_prefix(base, model, cfg["pre"])
    pts = layer_points(tier)
    for k, (c, d) in enumerate(pts):
        cur = Cursor(model, base.state)
        fails, seen = layer_present(cur, model, c, d, k % 3)
        run.evals += 1
        run.states.add(cur.state)
        if seen is not None: run.outcomes.add(seen)
        for rule, det in fails:
            run.violation(rule, det, [dict(layer=1, pre=cfg["pre"], counter=c, delta=d, junk=k % 3)], key=(bin(c).count("1"), c, d))
        if not fails: run.cover["reported"] += 1
        if c >= 0x2000: run.cover["counter-msb"] += 1
    stream = [pts[(seed * 13 + i * 197) % len(pts)] for i in range(40)]
    log = []
    cur = Cursor(model, None, log)
    layer_prefix(cur, model, cfg["pre"])
    for i, (c, d) in enumerate(stream): layer_present(cur, model, c, d, i % 3)
    run.validate(model, log)
    run.samples.append([dict(counter=c, delta=d) for c, d in stream[:4]])
    for v in list(run.viol.values())[:3]:
        p = v["path"][0]
        log = []
        cur = Cursor(model, None, log)
        layer_prefix(cur, model, p["pre"])
        layer_present(cur, model, p["counter"], p["delta"], p["junk"])
        run.validate(model, log)
    return run.result(goals=["reported", "counter-msb"], depth=8,
                      assumptions=["USB3ProtocolLayer is elaborated with its link layer replaced by free ports of the same record types; "
                                   "ITPs are offered on link.header_source with valid held until ready, link.ready high, nothing else active",
                                   "the layer has no timestamp strobe: bus_interval may settle any time within 16 cycles after the header was taken; "
                                   "it is read after that bound and must equal the packet's 14-bit bus interval counter"])


def configs(tier):
    return [dict(pre="reset"), dict(pre="after-all-ones"), dict(dut="layer", pre="reset"), dict(dut="layer", pre="after-all-ones")]


def prefix(cur, model, pre):
    cur.step()
    if pre == "after-all-ones":
        present_raw(cur, model, 0x3FFF, 0x1FFF)
        for _ in range(WAIT + 2): cur.step()        # let that packet's strobe pass: cases start from a quiescent state


def present_raw(cur, model, counter, delta):
    kw = dict(valid=1, dw0=ITP_TYPE | (counter << 5) | (delta << 19), **junk_inputs(model, 1))
    for _ in range(WAIT):
        if cur.step(**kw).ready: break


def run_config(cfg, tier, seed):
    global WIDTHS
    if cfg.get("dut") == "layer": return run_layer(cfg, tier, seed)
    WIDTHS = widths()
    model = Model(build)
    run = Run(cfg, model)
    cone_err = None
    try:
        cone(model, run)
    except ConeError as e:
        cone_err = str(e)
    base = Cursor(model)
    prefix(base, model, cfg["pre"])
    pts = points(tier)
    for k, (c, d) in enumerate(pts):
        cur = Cursor(model, base.state)
        junk = k % 3
        fails, seen = present(cur, model, c, d, junk)
        run.evals += 1
        run.states.add(cur.state)
        if seen is not None: run.outcomes.add((seen.bus_interval_counter, seen.delta))
        for rule, det in fails:      # keep the smallest packet per rule as the reported counterexample
            run.violation(rule, det, [dict(pre=cfg["pre"], counter=c, delta=d, junk=junk)], key=(bin(c).count("1") + bin(d).count("1"), c, d))
        if not fails:
            run.cover["decoded"] += 1
        if c >= 2: run.cover["counter>1"] += 1
        if d >= 2: run.cover["delta>1"] += 1
    # non-ITP headers and idle lines: recorded for coverage (the statement demands nothing about them)
    for t in range(32):
        if t == ITP_TYPE: continue
        cur = Cursor(model, base.state)
        o = cur.step(valid=1, dw0=t | (0x2AAA << 5) | (0x1555 << 19))
        o2 = cur.step()
        run.evals += 1
        run.cover["other-type"] += 1
        if o.ready or o2.update_received: run.cover["other-type-consumed"] += 1
    # traces from reset replayed in amaranth.sim: a long back-to-back stream + every counterexample
    stream = [pts[(seed * 13 + i * 97) % len(pts)] for i in range(60)]
    log = []
    cur = Cursor(model, None, log)
    prefix(cur, model, cfg["pre"])
    fail = stream_check(cur, model, stream)
    run.evals += len(stream)
    run.cover["back-to-back"] += 1
    if fail: run.violation(fail[0], fail[1], [dict(pre=cfg["pre"], stream=[list(x) for x in stream])])
    for i, (c, d) in enumerate(stream[:10]): present(cur, model, c, d, i % 3)
    run.validate(model, log)
    run.samples.append([dict(counter=c, delta=d) for c, d in stream[:4]])
    for v in list(run.viol.values())[:4]:
        if "stream" in v["path"][0]: continue
        p = v["path"][0]
        log = []
        cur = Cursor(model, None, log)
        prefix(cur, model, p["pre"])
        present(cur, model, p["counter"], p["delta"], p["junk"])
        run.validate(model, log)
    if cone_err and not run.viol:
        raise MachineryError(f"cannot claim all 2^27 timestamp values: the decode is no longer provably wiring-only: {cone_err}")
    return run.result(goals=["counter>1", "delta>1", "other-type", "back-to-back"], depth=WAIT + 6,
                      assumptions=["the header is presented on header_sink with valid held until ready (HeaderQueue handshake)",
                                   "no latency is demanded: the update strobe may come in the cycle the header is taken or up to 16 cycles later; "
                                   "'reported' = bus_interval_counter / delta in the strobe cycle or the cycle after it; exactly one strobe per ITP",
                                   "enumerated cases start from a quiescent receiver; back-to-back ITPs are checked as a stream (n packets -> n strobes, in order)",
                                   "ITP layout per USB 3.2 8.7: type DW0[4:0]=01100b, bus interval counter DW0[18:5], delta DW0[31:19]"])


def replay(cfg, tier, payload):
    global WIDTHS
    WIDTHS = widths()
    p = payload["path"][0]
    if cfg.get("dut") == "layer":
        model = Model(build_layer)
        LAYER_WIDTH[0] = len(model.design.dut.bus_interval)
        log = []
        cur = Cursor(model, None, log)
        layer_prefix(cur, model, p["pre"])
        fails, seen = layer_present(cur, model, p["counter"], p["delta"], p["junk"])
        n = pysim.replay(model, log)
        msg = ("; ".join(f"rule={r} detail={d}" for r, d in fails) if fails else "counter reported in full") + f" [trace of {n} cycles reproduced identically in amaranth.sim]"
        return not fails, msg
    model = Model(build)
    log = []
    cur = Cursor(model, None, log)
    prefix(cur, model, p["pre"])
    if "stream" in p:
        fail = stream_check(cur, model, [tuple(x) for x in p["stream"]])
        n = pysim.replay(model, log)
        return fail is None, (f"rule={fail[0]} detail={fail[1]}" if fail else "stream decoded in order") + f" [trace of {n} cycles reproduced identically in amaranth.sim]"
    fails, seen = present(cur, model, p["counter"], p["delta"], p["junk"])
    n = pysim.replay(model, log)
    msg = ("; ".join(f"rule={r} detail={d}" for r, d in fails) if fails else "packet decoded in full") + f" [trace of {n} cycles reproduced identically in amaranth.sim]"
    return not fails, msg
