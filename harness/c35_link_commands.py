# C35 - link commands: what LinkCommandGenerator puts on the wire, what LinkCommandDetector accepts, and the round trip.
#
# Four kinds of configuration, all on the real elaborated classes of luna/gateware/usb/usb3/link/command.py:
#
#   generator   per-cycle closure of LinkCommandGenerator over generate x source.ready x all 256 (command, subtype)
#               values (and command/subtype inputs changing while a command is in flight).  Oracle: the words
#               transferred (valid & ready) are, per request, LCSTART = SLC SLC SLC EPF (ctrl 1111) followed by one data
#               word (ctrl 0000) carrying two identical 16-bit link command words {subtype 3:0, reserved 6:4 = 0,
#               command 10:7, CRC-5 15:11}; a word is held unchanged while stalled, no bubble inside the command, nothing
#               else is ever driven valid, `done` accompanies the transfer of the command word.
#   detector    LinkCommandDetector.  BFS over a small word alphabet (LCSTART, good commands, corrupted commands,
#               K symbols, not-valid gaps, ...) decides the framing/scheduling behaviour to closure; from every explored
#               state that follows an LCSTART a lookahead sweep (cur.fork) presents *every* one of the 2^16 command words
#               as both copies, single-bit corruptions of either copy, copies that differ but are individually valid,
#               every non-zero ctrl value and not-valid presentations.  Oracle: reported (once, right
#               command/class/type/subtype) iff ctrl == 0, both copies equal and the CRC-5 matches.
#   roundtrip   generator wired to detector (glue in this file: the detector sees a word when it is transferred):
#               per-cycle closure over generate/ready with 3 command values.
#   roundtrip_all   same DUT, one action = one whole command (all 256 values x stall patterns), from reset and after every
#               other command.
#
# Latencies are not fixed by the statement: a requested command must start in the request cycle or within MAXSTART
# cycles after it, `done` may lag the command word by MAXDONE cycles, a report must come 0..MAXLAT cycles after the command word.  Where the statement is silent the oracle admits both outcomes:
#   * a command word with non-zero reserved bits (6:4) but matching CRC-5 may or may not be reported (fields must be right),
#   * LCSTART directly followed by another LCSTART: the second one may be taken as (rejected) command word or as new framing.
from rtlmc.model import Design, Violation
from rtlmc.explore import Spec
from harness import _usb3ref as ref

PROPERTY = "C35"
TECHNIQUE = ("explicit-state model checking of LinkCommandGenerator / LinkCommandDetector netlists (per-cycle closure) plus "
             "exhaustive lookahead sweeps of all 2^16 command words and their corruptions; reference encoders from the USB 3.2 "
             "specification calibrated on the repository's recorded packets")

MAXSTART = 4      # cycles after the request cycle a command may take before LCSTART is driven (it may also be driven in the request cycle)
MAXDONE = 2       # cycles after the transfer of the command word within which `done` must be seen (normally the same cycle)
MAXLAT = 4        # cycles after the command word within which the detector must report

LC_DATA, LC_CTRL = ref.LCSTART


def configs(tier):
    if tier == "quick":
        return [dict(dut="generator"), dict(dut="detector", sweep="quick"), dict(dut="roundtrip"),
                dict(dut="roundtrip_all", patterns=2)]
    return [dict(dut="generator"), dict(dut="detector", sweep="quick"),
            dict(dut="detector", sweep="flips"), dict(dut="detector", sweep="ctrl"), dict(dut="detector", sweep="pairs"),
            dict(dut="roundtrip"), dict(dut="roundtrip_all", patterns=5)]


def check_command_word(data, ctrl, command, subtype):
    """classify a transmitted command word against the request; returns None or (rule suffix, detail)"""
    lo, hi = data & 0xFFFF, (data >> 16) & 0xFFFF
    if ctrl != 0: return "ctrl", dict(ctrl=ctrl)
    if lo != hi: return "copies-differ", dict(low=hex(lo), high=hex(hi))
    ok, cmd, sub, rsv = ref.parse_link_command_word(lo)
    if not ok: return "crc5", dict(word=hex(lo), expected_crc5=ref.crc5(lo & 0x7FF))
    if (cmd, sub) != (command, subtype) or rsv:
        return "fields", dict(word=hex(lo), sent=dict(command=cmd, subtype=sub, reserved=rsv), requested=dict(command=command, subtype=subtype))
    return None


# ====================================================================================================== generator
class GeneratorSpec(Spec):
    n_validate = 8

    def __init__(self, cfg, tier):
        super().__init__(cfg, tier)
        ref.calibrate()
        self.time_budget = 40 if tier == "quick" else 600
        self._idle = [(1, r, cs) for r in (0, 1) for cs in range(256)] + [(0, r, cs) for r in (0, 1) for cs in (0x00, 0xFF)]
        self._seen = set()

    def build(self):
        from luna.gateware.usb.usb3.link.command import LinkCommandGenerator
        d = LinkCommandGenerator()
        ins = dict(command=d.command, subtype=d.subtype, generate=d.generate, ready=d.source.ready)
        obs = dict(valid=d.source.valid, data=d.source.data, ctrl=d.source.ctrl, done=d.done)
        return Design(d, ins, obs)

    def assumptions(self):
        return ["a request is `generate` high in a cycle in which the generator is not busy (from the cycle after `done`, as "
                "documented); `generate` pulses while busy are driven by the environment but do not count as requests; `done` is expected "
                f"with the transfer of the command word or at most {MAXDONE} cycles later, and never otherwise",
                f"a requested command must drive LCSTART within {MAXSTART} cycles; no bubble is allowed between LCSTART and the command word"]

    # env = (phase, cs, wait): phase 0 idle, 1 LCSTART expected, 2 command word expected, 3 command sent / `done` still owed
    def env0(self):
        return (0, 0, 0)

    def actions(self, env):
        if env[0] == 0: return self._idle
        other = env[1] ^ 0xFF
        return [(g, r, cs) for g in (0, 1) for r in (0, 1) for cs in (other, 0x00, 0xFF)]

    def apply(self, cur, env, a):
        gen, ready, cs = a
        phase, want, wait = env
        o = cur.step(command=cs >> 4, subtype=cs & 0xF, generate=gen, ready=ready)
        if phase == 3:                  # command word transferred, `done` still owed
            if o.valid: raise Violation("generator:word-without-request", dict(data=hex(o.data), ctrl=o.ctrl, phase="waiting for done"))
            if o.done: return (0, 0, 0)
            if wait + 1 > MAXDONE: raise Violation("generator:done-missing", dict(request=hex(want), waited=wait + 1))
            return (3, want, wait + 1)
        if phase == 0:
            if not gen:
                if o.valid: raise Violation("generator:word-without-request", dict(data=hex(o.data), ctrl=o.ctrl))
                if o.done: raise Violation("generator:done-mismatch", dict(phase="idle", done=1))
                return env
            self.cover["request"] += 1
            phase, want, wait = 1, cs, -1          # the start word may already be driven in the request cycle
            if o.valid: self.cover["start_word_in_request_cycle"] += 1
        if phase == 1:
            if o.done: raise Violation("generator:done-mismatch", dict(phase="header", done=1))
            if not o.valid:
                if wait + 1 > MAXSTART: raise Violation("generator:command-not-sent", dict(request=hex(want), waited=wait + 1))
                return (1, want, wait + 1)
            if (o.data, o.ctrl) != (LC_DATA, LC_CTRL):
                raise Violation("generator:start-word", dict(data=hex(o.data), ctrl=o.ctrl, expected="SLC SLC SLC EPF"))
            if not ready:
                self.cover["stall_header"] += 1
                return (1, want, 0)
            return (2, want, 0)
        # phase 2
        if not o.valid: raise Violation("generator:bubble-in-command", dict(request=hex(want)))
        bad = check_command_word(o.data, o.ctrl, want >> 4, want & 0xF)
        if bad: raise Violation("generator:command-word:" + bad[0], dict(bad[1], data=hex(o.data), request=hex(want), inputs_now=hex(cs)))
        if o.done and not ready: raise Violation("generator:done-mismatch", dict(phase="command", ready=ready, done=o.done))
        if not ready:
            self.cover["stall_command"] += 1
            return (2, want, 0)
        self._seen.add(want)
        if len(self._seen) == 256: self.cover["all_256_commands_sent"] += 1
        self.outcomes.add(o.data)
        return (0, 0, 0) if o.done else (3, want, 0)

    def goals(self):
        return ["request", "stall_header", "stall_command", "all_256_commands_sent"]


# ====================================================================================================== detector
CMD_A, CMD_B = (0b0110, 0b1001), (0b1011, 0b0100)


def lcw32(w16): return w16 | (w16 << 16)


def detector_alphabet():
    wa, wb = ref.link_command_word(*CMD_A), ref.link_command_word(*CMD_B)
    return {
        "LC": (1, LC_DATA, LC_CTRL), "LC_notvalid": (0, LC_DATA, LC_CTRL),
        "LC_nearmiss": (1,) + ref.kword(ref.SLC, ref.SLC, ref.SLC, ref.SLC), "LC_as_data": (1, LC_DATA, 0),
        "A": (1, lcw32(wa), 0), "B": (1, lcw32(wb), 0),
        "A_badcrc": (1, lcw32(wa ^ 0x0800), 0), "A_then_B": (1, wa | (wb << 16), 0), "A_ctrl": (1, lcw32(wa), 0b0100),
        "A_notvalid": (0, lcw32(wa), 0), "A_reserved": (1, lcw32(ref.link_command_word(*CMD_A, reserved=0b010)), 0),
        "idle": (1, 0, 0), "gap": (0, 0, 0),
    }


def classify(valid, data, ctrl):
    """what the statement says about one presented word that follows LCSTART: 'gap', 'lcstart', 'bad', ('good'|'may', cmd, sub)"""
    if not valid: return ("gap",)
    if (data, ctrl) == (LC_DATA, LC_CTRL): return ("lcstart",)
    if ctrl != 0: return ("bad",)
    lo, hi = data & 0xFFFF, data >> 16
    if lo != hi: return ("bad",)
    ok, cmd, sub, rsv = ref.parse_link_command_word(lo)
    if not ok: return ("bad",)
    return ("may" if rsv else "good", cmd, sub)


class DetectorSpec(Spec):
    n_validate = 8

    def __init__(self, cfg, tier):
        super().__init__(cfg, tier)
        ref.calibrate()
        self.time_budget = 60 if tier == "quick" else 850
        self.alpha = detector_alphabet()
        self.sweep = cfg["sweep"]
        valid16 = [w for w in range(1 << 16) if ref.parse_link_command_word(w)[0]]
        clean16 = [w for w in valid16 if not (w >> 4) & 7]
        assert len(valid16) == 2048 and len(clean16) == 256
        self.valid16, self.clean16 = valid16, clean16

    def build(self):
        from luna.gateware.usb.usb3.link.command import LinkCommandDetector
        d = LinkCommandDetector()
        ins = dict(valid=d.sink.valid, data=d.sink.data, ctrl=d.sink.ctrl)
        obs = dict(new_command=d.new_command, command=d.command, command_class=d.command_class, command_type=d.command_type,
                   subtype=d.subtype)
        return Design(d, ins, obs)

    def assumptions(self):
        return ["words with sink.valid low carry nothing (gaps may fall anywhere, also between LCSTART and the command word)",
                f"a report is a new_command strobe 0..{MAXLAT} cycles after the command word, with command/subtype valid during the strobe",
                "a CRC-valid command word with non-zero reserved bits may or may not be reported; LCSTART directly after LCSTART "
                "may be taken either as the (rejected) command word or as new framing"]

    # env = (candidate reference states: frozenset of 'W' (waiting for LCSTART) / 'P' (next valid word is the command word),
    #        pending reports: frozenset of alternative queues, each a tuple of (age, must, command, subtype))
    def env0(self):
        return (frozenset("W"), frozenset([()]))

    def actions(self, env):
        acts = list(self.alpha)
        if env[0] == frozenset("P") and env[1] == frozenset([()]): acts.append("sweep:" + self.sweep)
        return acts

    def observe(self, o, cands, pending, word):
        """one cycle of the reference: `word` = (valid, data, ctrl) presented in the cycle in which `o` was observed.
        pending = frozenset of alternative queues of outstanding reports, each a tuple of (age, must, command, subtype): which
        optional report a strobe answers is not always decidable, so every consistent reading is kept."""
        kind = classify(*word)
        newc = set()
        add = None
        if kind[0] == "gap":
            newc = set(cands)
        else:
            for c in cands:
                if c == "W":
                    newc.add("P" if kind[0] == "lcstart" else "W")
                else:
                    if kind[0] == "lcstart": newc |= {"W", "P"}
                    else: newc.add("W")
            if "P" in cands and kind[0] in ("good", "may"):
                must = kind[0] == "good" and cands == frozenset("P")
                add = (0, must, kind[1], kind[2])
                self.cover["good_after_lcstart" if must else "optional_report"] += 1
            elif "P" in cands and kind[0] == "bad":
                self.cover["bad_after_lcstart"] += 1
            elif kind[0] in ("good", "may"):
                self.cover["good_without_lcstart"] += 1
        if add: pending = frozenset(q + (add,) for q in pending)
        if o.new_command:
            fits = lambda cmd, sub: (o.command, o.subtype) == (cmd, sub) and o.command_class == cmd >> 2 and o.command_type == cmd & 3
            nxt = set()
            for q in pending:
                for i, (age, must, cmd, sub) in enumerate(q):
                    if fits(cmd, sub): nxt.add(q[i + 1:])          # skipped optional reports were not given
                    if must: break
            if not nxt:
                got = dict(command=o.command, subtype=o.subtype, cls=o.command_class, typ=o.command_type)
                if not any(pending):
                    raise Violation("detector:spurious-report", dict(reported=got, word=[word[0], hex(word[1]), word[2]]))
                raise Violation("detector:wrong-fields", dict(expected=[[dict(command=c, subtype=s_, obligatory=m_) for _, m_, c, s_ in q] for q in sorted(pending)], got=got))
            pending = frozenset(nxt)
            self.cover["reported"] += 1
        out = set()
        missed = None
        for q in pending:
            aged = []
            for age, must, cmd, sub in q:
                if age + 1 > MAXLAT:
                    if must:
                        missed = (cmd, sub)
                        break
                    continue
                aged.append((age + 1, must, cmd, sub))
            else:
                out.add(tuple(aged))
        if not out:
            raise Violation("detector:missed-command", dict(command=missed[0], subtype=missed[1]))
        return frozenset(newc), frozenset(out)

    def apply(self, cur, env, a):
        if a.startswith("sweep:"):
            self.run_sweep(cur, a[6:])
            return None
        word = self.alpha[a]
        o = cur.step(valid=word[0], data=word[1], ctrl=word[2])
        cands, pending = self.observe(o, env[0], env[1], word)
        self.outcomes.add((a, tuple(o)))
        return (cands, pending)

    # ---- lookahead sweeps from a state in which the next valid word is the command word and no report is outstanding
    def sweep_words(self, which):
        v16, c16 = self.valid16, self.clean16
        if which in ("quick", "all"):
            for w in range(1 << 16): yield (1, lcw32(w), 0)                      # every word, identical copies
            for w in v16:
                d = lcw32(w)
                for b in range(32): yield (1, d ^ (1 << b), 0)                   # one corrupted bit in either copy
                for c in range(1, 16): yield (1, d, c)                           # control symbols present
                yield (0, d, 0)                                                  # not valid
            for w1 in c16:
                for w2 in c16:
                    if w1 != w2: yield (1, w1 | (w2 << 16), 0)                   # two individually valid but different copies
        if which == "flips":
            for w in range(1 << 16):
                d = lcw32(w)
                for b in range(32): yield (1, d ^ (1 << b), 0)
        if which == "ctrl":
            for w in range(1 << 16):
                d = lcw32(w)
                for c in range(1, 16): yield (1, d, c)
        if which == "pairs":
            for w1 in self.valid16:
                for w2 in self.valid16[::3]:
                    if w1 != w2: yield (1, w1 | (w2 << 16), 0)

    def run_sweep(self, cur, which):
        m = cur.model
        s0 = cur.state
        vec, step = m.vec, m.step_vec
        gap = vec(valid=0, data=0, ctrl=0)
        inc, ics, ist = m.obs_names.index("new_command"), m.obs_names.index("command"), m.obs_names.index("subtype")
        n = 0
        for word in self.sweep_words(which):
            n += 1
            s, o1 = step(s0, vec(valid=word[0], data=word[1], ctrl=word[2]))
            obs = [o1]
            for _ in range(MAXLAT):
                s, o2 = step(s, gap)
                obs.append(o2)
            reports = [(o[ics], o[ist]) for o in obs if o[inc]]
            kind = classify(*word)
            if kind[0] in ("good", "may"):
                ok = reports == [(kind[1], kind[2])] or (kind[0] == "may" and not reports)
            else:
                ok = not reports
            if not ok:
                # re-run the offending word on the logged cursor so that the counterexample trace contains it
                cur.step(valid=word[0], data=word[1], ctrl=word[2])
                for _ in range(MAXLAT): cur.step(valid=0)
                lo, hi = word[1] & 0xFFFF, word[1] >> 16
                detail = dict(valid=word[0], data=hex(word[1]), ctrl=word[2], expected=list(kind), reports=reports,
                              crc5_low_copy_ok=ref.parse_link_command_word(lo)[0], copies_equal=lo == hi)
                if kind[0] == "good":
                    rule = "detector:sweep:missed-command" if not reports else "detector:sweep:wrong-fields"
                elif kind[0] == "may":
                    rule = "detector:sweep:wrong-fields"
                elif word[0] == 0:
                    rule = "detector:sweep:accepted-not-valid-word"
                elif word[2]:
                    rule = "detector:sweep:accepted-with-ctrl"
                elif lo != hi:
                    rule = "detector:sweep:accepted-differing-copies"
                else:
                    rule = "detector:sweep:accepted-bad-crc5"
                raise Violation(rule, detail)
            if kind[0] == "good": self.cover["sweep_good"] += 1
            else: self.cover["sweep_rejected"] += 1
        self.cover["sweep_runs"] += 1
        self.cover["sweep_words"] += n

    def goals(self):
        g = ["good_after_lcstart", "bad_after_lcstart", "good_without_lcstart", "optional_report", "reported", "sweep_runs", "sweep_rejected"]
        if self.sweep == "quick": g.append("sweep_good")
        return g


# ====================================================================================================== round trip
def build_loop():
    from amaranth import Elaboratable, Module, Signal
    from luna.gateware.usb.usb3.link.command import LinkCommandGenerator, LinkCommandDetector

    class LinkCommandLoop(Elaboratable):
        """generator -> wire -> detector; a word is on the wire in the cycle in which it is transferred (valid & ready)"""
        def __init__(self):
            self.gen, self.det = LinkCommandGenerator(), LinkCommandDetector()
            self.ready = Signal()
        def elaborate(self, platform):
            m = Module()
            m.submodules.gen, m.submodules.det = self.gen, self.det
            m.d.comb += [self.gen.source.ready.eq(self.ready),
                         self.det.sink.valid.eq(self.gen.source.valid & self.ready),
                         self.det.sink.data.eq(self.gen.source.data), self.det.sink.ctrl.eq(self.gen.source.ctrl)]
            return m

    d = LinkCommandLoop()
    ins = dict(command=d.gen.command, subtype=d.gen.subtype, generate=d.gen.generate, ready=d.ready)
    obs = dict(valid=d.gen.source.valid, data=d.gen.source.data, ctrl=d.gen.source.ctrl, done=d.gen.done,
               new_command=d.det.new_command, det_command=d.det.command, det_subtype=d.det.subtype,
               det_class=d.det.command_class, det_type=d.det.command_type)
    return Design(d, ins, obs)


RT_DEADLINE = 12      # cycles with ready high from the request to the report


class RoundTripBase(Spec):
    def build(self):
        return build_loop()

    def assumptions(self):
        return ["round trip glue (in the harness): the detector's sink sees the generator's word in the cycle it is transferred",
                f"a requested command must be reported by the detector within {RT_DEADLINE} non-stalled cycles",
                "a request is `generate` high while the generator is not busy (busy = from the request to `done`)"]

    def cycle(self, cur, busy, pending, gen, ready, cs):
        """one cycle; busy: generator busy (reference), pending: tuple of (age, cs).  returns (busy, pending)"""
        o = cur.step(command=cs >> 4, subtype=cs & 0xF, generate=gen, ready=ready)
        if o.new_command:
            if not pending:
                raise Violation("roundtrip:spurious-report", dict(command=o.det_command, subtype=o.det_subtype))
            (age, want), pending = pending[0], pending[1:]
            got = (o.det_command << 4) | o.det_subtype
            if got != want or o.det_class != want >> 6 or o.det_type != (want >> 4) & 3:
                raise Violation("roundtrip:wrong-command", dict(requested=hex(want), reported=hex(got), cls=o.det_class, typ=o.det_type))
            self.cover["roundtrip_ok"] += 1
        if not busy and gen:
            pending = pending + ((0, cs),)
            busy = 1
        elif busy and o.done:
            busy = 0
        if ready:
            aged = []
            for age, want in pending:
                if age + 1 > RT_DEADLINE: raise Violation("roundtrip:command-lost", dict(requested=hex(want)))
                aged.append((age + 1, want))
            pending = tuple(aged)
        return busy, pending


class RoundTripCycleSpec(RoundTripBase):
    n_validate = 8
    VALUES = (0x00, 0x69, 0xFF)

    def __init__(self, cfg, tier):
        super().__init__(cfg, tier)
        ref.calibrate()
        self.time_budget = 40 if tier == "quick" else 600
        self._acts = [(g, r, cs) for g in (0, 1) for r in (0, 1) for cs in self.VALUES]

    # env = (generator busy, pending reports, generator finished in the previous cycle)
    def env0(self):
        return (0, (), 0)

    def actions(self, env):
        return self._acts

    def apply(self, cur, env, a):
        gen, ready, cs = a
        busy, pending = self.cycle(cur, env[0], env[1], gen, ready, cs)
        if not ready and busy: self.cover["stalled"] += 1
        if env[2] and busy: self.cover["back_to_back"] += 1
        return (busy, pending, int(env[0] and not busy))

    def goals(self):
        return ["roundtrip_ok", "stalled", "back_to_back"]


class RoundTripAllSpec(RoundTripBase):
    n_validate = 6
    # ready schedules for the cycles after the request cycle (1 = ready); afterwards ready stays high
    PATTERNS = [(), (0, 1, 0, 1), (0, 0, 1, 1), (1, 0, 0), (0, 1, 1, 0, 0)]

    def __init__(self, cfg, tier):
        super().__init__(cfg, tier)
        ref.calibrate()
        self.time_budget = 50 if tier == "quick" else 800
        self.max_depth = 2
        self._acts = [(cs, p) for cs in range(256) for p in range(cfg["patterns"])]
        self._seen = set()

    def env0(self):
        return ()

    def actions(self, env):
        return self._acts

    def apply(self, cur, env, a):
        cs, p = a
        pat = self.PATTERNS[p]
        busy, pending = self.cycle(cur, 0, (), 1, 1, cs)
        n = 0
        while busy or pending:
            r = pat[n] if n < len(pat) else 1
            # the inputs move to the complement right after the request: the command in flight must not follow them
            busy, pending = self.cycle(cur, busy, pending, 0, r, cs ^ 0xFF)
            n += 1
            if n > 40: raise Violation("roundtrip:command-lost", dict(requested=hex(cs), cycles=n))
        busy, pending = self.cycle(cur, 0, (), 0, 1, 0)        # one quiet cycle: a duplicate report would show here
        self._seen.add(cs)
        if len(self._seen) == 256: self.cover["all_256_round_trips"] += 1
        return ()

    def goals(self):
        return ["roundtrip_ok", "all_256_round_trips"]


def make(cfg, tier):
    return dict(generator=GeneratorSpec, detector=DetectorSpec, roundtrip=RoundTripCycleSpec, roundtrip_all=RoundTripAllSpec)[cfg["dut"]](cfg, tier)
