# C19 - USBResetSequencer: bus reset, high-speed chirp handshake and suspend follow the line-state timing rules.
#
# DUT: USBResetSequencer alone (real constants, 60 MHz: 2.5 us = 150 cycles ... 3 ms = 180 000 cycles).
# Mode: macro-step.  One action holds (line_state, vbus_connected, disconnect, full_speed_only, low_speed_only,
# bus_busy) for a duration; the cycles run in C (cur.hold stops at every change of an observed output, so the
# monitor below sees every output change at its exact cycle and advances its counters in closed form in between).
#
# Exploration: deviation-bounded around nominal scripts (one script per configuration, see SCRIPTS: FS reset/suspend/
# resume, FS reset out of suspend/soft disconnect/VBUS loss, LS ditto, HS chirp handshake, glitchy host chirps, chirp
# time-out, late host chirp, HS suspend/resume, HS suspend + reset out of suspend, HS reset out of HS, speed restriction
# at HS, VBUS loss at HS, soft disconnect at HS + bus_busy, HS suspend/resume followed by a drop to FS/LS [chirp
# time-out / full_speed_only / low_speed_only] and an FS/LS suspend/resume).  Scripts that start in HS operation run the nominal
# handshake once in the prologue.  At every script position the explorer may, at the cost of one deviation (k = 1 quick;
# thorough adds k = 2 over a reduced menu):
#   * replace the segment by any (line state, duration) of the menu (durations straddle every threshold by -1..+3,
#     plus threshold - 75 for the long ones, so that a long timer can expire in the middle of a 2.5 us measurement),
#   * toggle one of vbus/disconnect/full_speed_only/low_speed_only/bus_busy for that segment or from there on, or from
#     any menu offset into the segment until its end (flag changes at exact cycle offsets around every threshold),
#   * insert a glitch segment (any line state, any menu duration <= 303 cycles) or a flag pulse before the segment.
# States are deduplicated on (DUT registers, script position, deviations left, sticky flag mask, monitor).
#
# Oracle: a monitor over the input history and the observed outputs, written from the statement / USB 2.0 7.1.7.5-7:
#   HSOP  := current_speed == HIGH and operating_mode == NORMAL and termination_select == 0   ("high-speed operation")
#   CHIRP := operating_mode == CHIRP (2)                                                      ("handshake running")
#   R1 hs-entry:*        HSOP may rise only (a) out of a handshake that started at a reported bus reset, in which the
#                        device drove chirp K (tx.valid, data 0) and, after the end of that chirp, the line showed >= 3
#                        K-J pairs (K run >= 150 cycles, later a J run >= 150 cycles; shorter runs and other states in
#                        between are ignored = the most generous count), or (b) within 3 cycles of `suspended` when
#                        that suspend was entered from high speed.
#   R2 chirp-started-while-restricted   CHIRP rises although full/low_speed_only has been asserted since (and including)
#                        the cycle of the bus-reset report that started the handshake (else: for the last 4 cycles).
#   R3 hs-kept-under-restriction        HSOP shown in 3 consecutive cycles that all had a restriction asserted.
#   R4 no-fallback-after-chirp-timeout / fallback-not-fs-ls   later than 150 000 + 16 cycles after the end of the device
#                        chirp the device must be in high-speed operation (legitimately, R1) or show the FS/LS
#                        configuration (speed FULL/LOW, termination 1; not chirp mode) - it must not still be chirp-listening.
#   R5 bus-reset:*       bus_reset may be 1 only if vbus_connected == 0, or (suspended and SE0 for >= 150 cycles), or
#                        SE0 for >= 300 cycles while not in HSOP, or (HS discrimination) >= 180 000 cycles SE0 in HSOP,
#                        then >= 12 000 cycles, and the line is not FS-idle (J) at the report.  A continuous SE0 run that
#                        began/ran for 3 ms at high speed can only be justified by the last clause (so a shortened
#                        200 us window is caught).  Run lengths may end in the cycle before the report.
#   R6 suspend:without-3ms-idle   `suspended` may rise only after >= 180 000 cycles of idle: FS J (01) when the device
#                        shows FULL speed, LS J (10) when it shows LOW, or the 3 ms of SE0 at high speed (HS revert
#                        pending).  The run may have ended up to two cycles before.
# Only these implications are demanded (no cycle-exact latencies; the DUT needs 152 cycles for a chirp state, 301 for
# a reset etc. - anything >= the statement's minimum is accepted).
from rtlmc.model import Design, Violation
from rtlmc.explore import Spec

PROPERTY = "C19"
TECHNIQUE = "macro-step explicit-state BFS, deviation-bounded around nominal line-state scripts, run-length monitor"
LEVEL_TEXT = ("The real USBResetSequencer netlist (real 60 MHz constants, events of up to 180 000 cycles run in C) is driven through 19 nominal "
              "line-state scripts (FS/LS reset, suspend, resume, soft disconnect, VBUS loss; HS chirp handshake incl. glitched/late/missing host "
              "chirps; HS suspend/resume; HS reset; speed restriction, VBUS loss and disconnect at HS) and every history that differs from a "
              "script by at most k deviations (k=1 over the full menu of line states x durations straddling each threshold by -1..+3 cycles, "
              "flag toggles and inserted glitches; thorough adds k=2 over a reduced menu); every output change is checked by a run-length "
              "monitor written from the statement.")
LEVEL_NOTE = ("Bounded by the scripts and the deviation count, not a closure over all histories; amaranth.sim conformance replay covers only "
              "the first 30 000 (quick) / 200 000 (thorough) cycles of the sampled paths, counterexamples are replayed in full by --replay.")

# UTMI constants (UTMI+ spec: XcvrSelect 00 HS / 01 FS / 10 LS; OpMode 00 normal / 01 non-driving / 10 no bit-stuff+NRZI)
SPEED_HIGH, SPEED_FULL, SPEED_LOW = 0, 1, 2
OP_NORMAL, OP_NONDRIVING, OP_CHIRP = 0, 1, 2
SE0, J, K, SE1 = 0, 1, 2, 3          # line_state encodings at full/high speed (bit0 = D+); low speed: J = 2, K = 1
LNAME = {0: "SE0", 1: "J(01)", 2: "K(10)", 3: "SE1"}

T2P5US, T5US, T200US, T2MS, T2P5MS, T3MS = 150, 300, 12_000, 120_000, 150_000, 180_000
SLACK = 16                            # cycles granted beyond 2.5 ms for the fallback to become visible

MENU = [1, 2, 3, 10] + [t + d for t in (T2P5US, T5US, T200US, T2MS, T2P5MS, T3MS) for d in (-1, 0, 1, 2, 3)]
MENU += [t - 75 for t in (T200US, T2MS, T2P5MS, T3MS)]    # a long timer expiring half-way through a 2.5 us measurement
MENU.sort()
SHORT = [d for d in MENU if d <= T5US + 3]
MENU2 = [1, 10, 149, 151, 152, 301, 302, 12_002, 150_002, 180_002]   # reduced menu (k = 2): SE0/J/K only, no flag pulses
SHORT2 = [1, 10, 151, 301]
FLAGS = ("vbus_connected", "disconnect", "full_speed_only", "low_speed_only", "bus_busy")


# ------------------------------------------------------------------------------------------------ nominal scripts
def S(line, dur, vbus=1, disc=0, fs=0, ls=0, busy=0):
    return ((line, vbus, disc, fs, ls, busy), dur)


def _with(segs, **kw):
    idx = dict(vbus=1, disc=2, fs=3, ls=4, busy=5)
    out = []
    for inp, dur in segs:
        inp = list(inp)
        for k, v in kw.items(): inp[idx[k]] = v
        out.append((tuple(inp), dur))
    return out


CHIRPS3 = [S(K, 3000), S(J, 3000)] * 3
# A negative duration -n is a reactive segment: hold the inputs until the cycle in which the device's own chirp has ended
# (tx.valid back to 0), at most n cycles.  A host times its answer from the end of the device chirp, so the following
# segment durations are measured from that event (this is what lets the menu straddle the 2.5 ms chirp time-out).
DEVCHIRP = S(K, -120_010)
# power-on reset -> device chirp -> three host chirp pairs: high-speed operation is entered during the last J
HSPRE = [S(J, 1000), S(SE0, 310), DEVCHIRP, S(SE0, 6000)] + CHIRPS3
HSREV = 180_001        # SE0 cycles after which this DUT has just reverted to FS (so that the next segment starts there)

# name -> (prefix run nominally in the prologue, body open to deviations, cover goals)
SCRIPTS = {
    # full-speed-only device: power-up without VBUS, reset, suspend, resume
    "fs_a": ([], _with([S(J, 100, vbus=0), S(J, 1000), S(SE0, 310), S(J, 1000), S(J, 180_010), S(K, 1000), S(J, 1000)], fs=1),
             ["bus_reset", "reset_no_vbus", "reset_fs", "suspended", "suspend_fs"]),
    # full-speed-only device: suspend, reset out of suspend, soft disconnect, VBUS loss
    "fs_b": ([], _with([S(J, 180_010), S(SE0, 160), S(J, 1000), S(J, 1000, disc=1), S(J, 1000), S(J, 100, vbus=0), S(J, 1000)], fs=1),
             ["bus_reset", "reset_no_vbus", "suspended", "suspend_fs", "reset_from_suspend", "nondriving"]),
    # low-speed-only device (J = 10, K = 01)
    "ls": ([], _with([S(2, 100, vbus=0), S(2, 1000), S(SE0, 310), S(2, 1000), S(2, 180_010), S(1, 1000), S(2, 180_010),
                      S(SE0, 160), S(2, 1000)], ls=1),
           ["bus_reset", "reset_fs", "suspended", "suspend_ls", "reset_from_suspend", "speed_low"]),
    # complete high-speed handshake, the host keeps chirping for a while, then HS idle
    "hs_handshake": ([], [S(J, 100, vbus=0)] + HSPRE + [S(K, 3000), S(J, 3000), S(SE0, 1000)],
                     ["bus_reset", "chirp_started", "device_chirp", "hs_entered", "hs_by_handshake"]),
    # host chirps with a too-short K and an SE0 glitch in between: HS only after three valid pairs
    "hs_glitchy": ([], [S(J, 1000), S(SE0, 310), DEVCHIRP, S(SE0, 6000), S(K, 3000), S(J, 3000), S(K, 10), S(J, 3000),
                        S(K, 3000), S(SE0, 5), S(J, 3000), S(K, 3000), S(J, 3000), S(SE0, 1000)],
                   ["device_chirp", "hs_entered", "hs_by_handshake", "short_chirp_state_seen"]),
    # no host chirp: fall back to full speed after 2.5 ms; the next reset starts a new handshake
    "hs_fallback": ([], [S(J, 1000), S(SE0, 310), DEVCHIRP, S(SE0, 150_010), S(J, 1000), S(SE0, 310), S(K, 1000)],
                    ["device_chirp", "fallback", "chirp_started"]),
    # host chirp starts too late to complete within 2.5 ms (the time-out expires 75 cycles into the fourth chirp state)
    "hs_late": ([], [S(J, 1000), S(SE0, 310), DEVCHIRP, S(SE0, 140_925)] + CHIRPS3 + [S(J, 1000), S(SE0, 310), S(K, 1000)],
                ["device_chirp", "fallback", "chirp_started"]),
    # HS suspend and resume into HS (deviations also inside the handshake)
    "hs_suspend": ([], HSPRE + [S(SE0, HSREV), S(J, 12_010), S(J, 1000), S(K, 1000), S(SE0, 1000)],
                   ["hs_entered", "hs_revert", "suspend_hs", "hs_by_resume"]),
    # HS suspend, then reset out of suspend and a new handshake
    "hs_suspend_reset": (HSPRE, [S(SE0, HSREV), S(J, 12_010), S(SE0, 160), DEVCHIRP, S(SE0, 6000)] + CHIRPS3 + [S(SE0, 1000)],
                         ["hs_entered", "hs_revert", "suspend_hs", "reset_from_suspend", "chirp_from_suspend", "hs_by_handshake"]),
    # HS reset out of HS operation and new handshake
    "hs_reset": (HSPRE, [S(SE0, HSREV), S(SE0, 12_010), DEVCHIRP, S(SE0, 6000)] + CHIRPS3 + [S(SE0, 1000)],
                 ["hs_entered", "hs_revert", "reset_hs", "hs_by_handshake"]),
    # the application restricts the speed while in HS operation (full_speed_only, later low_speed_only)
    "hs_restrict": (HSPRE, [S(SE0, 1000), S(SE0, 1000, fs=1), S(J, 1000, fs=1), S(J, 1000), S(SE0, 310), DEVCHIRP,
                            S(SE0, 6000)] + CHIRPS3 + [S(SE0, 1000, ls=1), S(2, 1000, ls=1)],
                    ["hs_entered", "hs_left_on_restriction", "speed_low"]),
    # VBUS loss while in HS operation
    "hs_vbus": (HSPRE, [S(SE0, 1000), S(SE0, 1000, vbus=0), S(J, 1000, vbus=0), S(J, 1000), S(SE0, 310), S(K, 1000)],
                ["hs_entered", "reset_no_vbus", "hs_left_other", "chirp_started"]),
    # soft disconnect while in HS operation; bus_busy delaying the device chirp
    "hs_disc": (HSPRE, [S(SE0, 1000), S(J, 1000, disc=1), S(J, 1000), S(SE0, 310), S(K, 1000, busy=1), DEVCHIRP, S(SE0, 1000)],
                ["hs_entered", "nondriving", "device_chirp"]),
    # --- a stale "suspended at high speed" memory: HS suspend + resume first (nominal prefix), then the device ends up
    # at full/low speed without a completed handshake, is suspended there and resumed: it must stay at full/low speed
    # (a) HS reset answered by a host that does not chirp -> fallback to FS, FS suspend, resume
    "hs_susp_fallback_fs_susp": (HSPRE + [S(SE0, HSREV), S(J, 12_010), S(K, 1000), S(SE0, 1000)],
                                 [S(SE0, HSREV), S(SE0, 12_010), DEVCHIRP, S(SE0, 150_010), S(J, 180_010), S(K, 1000), S(J, 1000)],
                                 ["suspend_hs", "hs_by_resume", "reset_hs", "fallback", "suspend_fs", "resume_stays_fs_ls"]),
    # (b) a temporary full_speed_only restriction drops the device to FS, FS suspend, resume
    "hs_susp_restrict_fs_susp": (HSPRE + [S(SE0, HSREV), S(J, 12_010), S(K, 1000), S(SE0, 1000)],
                                 [S(SE0, 1000, fs=1), S(J, 1000, fs=1), S(J, 180_010), S(K, 1000), S(J, 1000), S(SE0, 310), S(K, 1000)],
                                 ["suspend_hs", "hs_by_resume", "hs_left_on_restriction", "suspend_fs", "resume_stays_fs_ls"]),
    # (c) low_speed_only drops the device to LS (J = 10, K = 01), LS suspend, resume
    "hs_susp_restrict_ls_susp": (HSPRE + [S(SE0, HSREV), S(J, 12_010), S(K, 1000), S(SE0, 1000)],
                                 _with([S(SE0, 1000), S(2, 1000), S(2, 180_010), S(1, 1000), S(2, 1000)], ls=1),
                                 ["suspend_hs", "hs_by_resume", "hs_left_on_restriction", "speed_low", "suspend_ls", "resume_stays_fs_ls"]),
    # --- the same memory must also be cleared on the ways into full/low speed that bypass the fallback state:
    # (d/e) HS suspend, reset out of suspend while full_speed_only / low_speed_only is asserted (no handshake), then a
    # suspend at the restricted speed and a resume: the device must stay at full/low speed.  (With low_speed_only the
    # device still shows FULL speed after that reset, so 01 is its idle state and - being the LS K - also its resume.)
    "hs_susp_reset_fs_susp": (HSPRE, [S(SE0, HSREV), S(J, 12_010)] +
                              _with([S(SE0, 160), S(J, 1000), S(J, 180_010), S(K, 1000), S(J, 1000)], fs=1),
                              ["suspend_hs", "reset_from_suspend", "suspend_fs", "resume_stays_fs_ls"]),
    "hs_susp_reset_ls_susp": (HSPRE, [S(SE0, HSREV), S(J, 12_010)] +
                              _with([S(SE0, 160), S(J, 180_010), S(K, 1000), S(SE0, 310), S(2, 1000)], ls=1),
                              ["suspend_hs", "reset_from_suspend", "suspend_fs", "resume_stays_fs_ls"]),
    # (f) HS suspend + resume, soft disconnect (re-initialises at full speed), FS suspend, resume
    "hs_susp_disc_fs_susp": (HSPRE + [S(SE0, HSREV), S(J, 12_010), S(K, 1000), S(SE0, 1000)],
                             [S(J, 1000, disc=1), S(J, 1000), S(J, 180_010), S(K, 1000), S(J, 1000)],
                             ["suspend_hs", "hs_by_resume", "nondriving", "suspend_fs", "resume_stays_fs_ls"]),
}
# configurations: a name of SCRIPTS, or a group of scripts explored in one configuration (the first action picks one)
GROUPS = {
    "stale_hs_suspend_a": ["hs_susp_fallback_fs_susp", "hs_susp_restrict_fs_susp", "hs_susp_restrict_ls_susp"],
    "stale_hs_suspend_b": ["hs_susp_reset_fs_susp", "hs_susp_reset_ls_susp"],
}
ORDER = ["stale_hs_suspend_a", "stale_hs_suspend_b", "hs_suspend", "hs_late", "hs_suspend_reset", "hs_reset", "hs_restrict",   # heaviest first
         "hs_glitchy", "hs_handshake", "hs_susp_disc_fs_susp", "ls", "fs_a", "hs_fallback", "hs_disc", "fs_b", "hs_vbus"]


def configs(tier):
    c = [dict(script=s, k=1, menu="full") for s in ORDER]
    if tier != "quick":
        c += [dict(script=s, k=2, menu="reduced") for s in ORDER]
    return c


# ------------------------------------------------------------------------------------------------ the monitor
class Mon:
    """Run-length monitor.  All counters saturate, so the tuple form is a canonical finite state."""
    F = ("p_hs", "p_ch", "p_su",
         "c0", "l0", "g0", "c1", "l1", "g1", "c2", "l2", "g2",        # per line state: current run, last run, gap since
         "hc", "hl", "hg",                                           # SE0 while in HSOP
         "fc", "fl", "fg", "taint",                                  # SE0 while not in HSOP (FS/LS reset timing)
         "pend", "susp_hs", "susp_gap", "restr_run", "hs_restr", "rst_gap",
         "ctx", "ctx_rst", "ck", "cj", "pk", "pairs", "since_end")
    __slots__ = F

    INIT = (0, 0, 0,  0, 0, 3, 0, 0, 3, 0, 0, 3,  0, 0, 3,  0, 0, 3, 0,  0, 0, 4, 0, 0, 4,  0, 0, 0, 0, 0, 0, 0)

    def __init__(self, t):
        for n, v in zip(self.F, t): setattr(self, n, v)

    def tup(self):
        return tuple(getattr(self, n) for n in self.F)

    # tracker helpers: (cur, last, gap) = length of the running run (0 if the condition is false now), length of the most
    # recently completed run, cycles since that one ended (saturates at 3, and then `last` is forgotten)
    @staticmethod
    def _trk(cur, last, gap, active, n, cap):
        if active:
            cur = min(cap, cur + n)
        else:
            if cur > 0:
                last, gap = cur, 0
            cur = 0
        gap = min(3, gap + n)
        if gap >= 3: last = 0
        return cur, last, gap

    @staticmethod
    def _len(cur, last, gap, slack):
        """length of the run that is running or ended at most `slack` cycles ago"""
        return max(cur, last if gap <= slack else 0)


class ResetSpec(Spec):

    def __init__(self, cfg, tier):
        super().__init__(cfg, tier)
        names = GROUPS.get(cfg["script"], [cfg["script"]])
        self.variants = [SCRIPTS[n] for n in names]          # (prefix, body, goals) each
        self.vnames = names
        self._goals = sorted({g for v in self.variants for g in v[2]})
        self.k = cfg["k"]
        full = cfg["menu"] == "full"
        self.menu = MENU if full else MENU2
        self.short = SHORT if full else SHORT2
        self.pulse = (1, 3, 151) if full else ()
        # offsets (cycles into the nominal segment) at which a flag may flip: the whole menu / a small set for k = 2
        self.split = MENU if full else (151, 301, 12_002, 180_002)
        self.split_flags = (0, 1, 2, 3, 4) if full else (0, 2, 3)          # k = 2: vbus, full_speed_only, low_speed_only
        self.lines = (SE0, J, K, SE1) if full else (SE0, J, K)
        if tier == "quick":
            self.time_budget = 1500         # wall-clock guard only: the exploration is finite by construction (5-20 s CPU)
            self.n_validate, self.validate_max_cycles = 2, 30_000
        else:
            self.time_budget = 780
            self.n_validate, self.validate_max_cycles = 2, 200_000
        self.max_states = 3_000_000

    def build(self):
        from luna.gateware.usb.usb2.reset import USBResetSequencer
        d = USBResetSequencer()
        ins = dict(line_state=d.line_state, vbus_connected=d.vbus_connected, disconnect=d.disconnect,
                   full_speed_only=d.full_speed_only, low_speed_only=d.low_speed_only, bus_busy=d.bus_busy)
        obs = dict(bus_reset=d.bus_reset, suspended=d.suspended, current_speed=d.current_speed,
                   operating_mode=d.operating_mode, termination_select=d.termination_select,
                   tx_valid=d.tx.valid, tx_data=d.tx.data)
        return Design(d, ins, obs)

    def assumptions(self):
        return ["clock = 60 MHz (the class' constants): 2.5 us = 150, 5 us = 300, 200 us = 12 000, 2 ms = 120 000, 2.5 ms = 150 000, 3 ms = 180 000 cycles",
                "input histories are the nominal scripts of the configurations with at most k deviations (k=1 full menu; thorough adds k=2 over a reduced menu); "
                "a deviation replaces a segment by any (line state, menu duration), toggles vbus/disconnect/full_speed_only/low_speed_only/bus_busy for a segment "
                "or from there on or from a menu offset inside the segment, or inserts a glitch segment / flag pulse; menu durations straddle every threshold by -1..+3 cycles",
                "high-speed operation is read as current_speed=HIGH & operating_mode=NORMAL & termination_select=0; the chirp handshake as operating_mode=CHIRP",
                "K-J pairs are counted in the most generous way (any K run >= 150 cycles followed later by any J run >= 150 cycles; other states in between ignored)",
                "the HS reset/suspend discrimination is accepted as a sample of the line 200 us after the revert to full speed (USB 2.0 7.1.7.6), "
                "not as 200 us of uninterrupted non-idle",
                f"fallback after a missing host chirp must be visible within 150 000 + {SLACK} cycles after the end of the device chirp",
                "no lower bound is put on the length of the device's own chirp K (the statement has none)",
                f"amaranth.sim conformance replay is limited to the first {self.validate_max_cycles} cycles of {self.n_validate} explored paths "
                "(plus counterexamples) per configuration, because it replays only ~10 k cycles/s",
                "the usb domain reset input is not exercised"]

    def goals(self):
        return list(self._goals)

    # ---------------------------------------------------------------- environment
    # env = (variant, position in its body, deviations left, sticky flag mask (5 bits), monitor tuple)
    # variant -1: not chosen yet (groups of scripts: the first action picks one and runs its nominal prefix);
    # variant -2: the oracle fired inside the nominal prefix run by the prologue (single-script configurations)
    def env0(self):
        return (-1, 0, self.k, 0, Mon.INIT)

    def _run_nominal(self, cur, mt, segs):
        for inp, dur in segs:
            mt = self._run(cur, mt, (inp,), (dur,))
        return mt

    def prologue(self, cur):
        # vacuity guard independent of exploration caps: run every nominal script once on a fork, so that the cover goals
        # say whether the *scripts* reach the situations they are about (the BFS reaches their ends only at full depth)
        for prefix, body, _ in self.variants:
            try:
                self._run_nominal(cur.fork(), Mon.INIT, list(prefix) + list(body))
            except Violation:
                pass                  # found again, with its path, by the exploration
        if len(self.variants) > 1:
            return self.env0()
        # single script: its nominal prefix runs here; if the oracle already fires there, the violation is re-raised by
        # the single action offered in the initial state, so that it is reported as a violation with a (one-step) path
        self._prefix_violation = None
        try:
            mt = self._run_nominal(cur, Mon.INIT, self.variants[0][0])
        except Violation as v:
            self._prefix_violation = (v.rule, dict(v.detail or {}, in_nominal_prefix=[self.label(("nominal", 0, i, d, 0)) for i, d in self.variants[0][0]]))
            return (-2, 0, 0, 0, Mon.INIT)
        return (0, 0, self.k, 0, mt)

    @staticmethod
    def _mask(inp, mask):
        if not mask: return inp
        l = list(inp)
        for b in range(5):
            if mask >> b & 1: l[1 + b] ^= 1
        return tuple(l)

    def actions(self, env):
        v, pos, left, mask, _ = env
        if v == -2: return [("prefix", 0, (0, 0, 0, 0, 0, 0), 0, 0)]
        if v == -1: return [("variant", 0, (0, 0, 0, 0, 0, 0), i, 0) for i in range(len(self.variants))]
        script = self.variants[v][1]
        if pos >= len(script): return []
        inp, dur = script[pos]
        inp = self._mask(inp, mask)
        acts = [("nominal", 1, inp, dur, mask)]
        if left <= 0: return acts
        for line in self.lines:
            for d in self.menu:
                if line == inp[0] and d == dur: continue
                acts.append(("replace", 1, (line,) + inp[1:], d, mask))
        for b in range(5):
            t = list(inp); t[1 + b] ^= 1; t = tuple(t)
            acts.append(("toggle", 1, t, dur, mask))
            acts.append(("toggle-on", 1, t, dur, mask ^ (1 << b)))
        if dur > 0:
            # a flag flips d cycles into the nominal segment (and stays flipped until the segment ends): flag changes at
            # exact offsets around the thresholds, not only at segment boundaries
            for b in self.split_flags:
                t = list(inp); t[1 + b] ^= 1; t = tuple(t)
                for d in self.split:
                    if d < dur: acts.append(("split", 1, (inp, t), (d, dur - d), mask))
        for line in self.lines:
            for d in self.short:
                acts.append(("insert", 0, (line,) + inp[1:], d, mask))
        for b in range(5):
            t = list(inp); t[1 + b] ^= 1; t = tuple(t)
            for d in self.pulse:
                acts.append(("pulse", 0, t, d, mask))
        return acts

    def _seg_label(self, inp, dur):
        fl = ",".join(f"{n}={v}" for n, v in zip(FLAGS, inp[1:]) if v != (1 if n == "vbus_connected" else 0))
        d = f"x{dur}" if dur >= 0 else f"until the device chirp has ended (<= {-dur})"
        return f"{LNAME[inp[0]]} {d}" + (f" [{fl}]" if fl else "")

    def label(self, a):
        kind, adv, inp, dur, mask = a
        if kind == "variant":
            return f"script {self.vnames[dur]}: nominal prefix " + "; ".join(self._seg_label(i, d) for i, d in self.variants[dur][0])
        if kind == "split":
            return "split: " + " then ".join(self._seg_label(i, d) for i, d in zip(inp, dur))
        return f"{kind}: " + self._seg_label(inp, dur)

    def _run(self, cur, mt, inps, durs):
        """hold each (inputs, duration) part in turn, feeding every cycle to the monitor; returns the new monitor tuple"""
        mon = Mon(mt)
        for inp, dur in zip(inps, durs):
            kw = dict(line_state=inp[0], vbus_connected=inp[1], disconnect=inp[2], full_speed_only=inp[3],
                      low_speed_only=inp[4], bus_busy=inp[5])
            rem = abs(dur)
            while rem:
                k, first, last = cur.hold(rem, **kw)
                rem -= k
                if last == first:
                    self.advance(mon, inp, first, k)
                else:
                    self.advance(mon, inp, first, k - 1)
                    was = mon.ctx
                    self.advance(mon, inp, last, 1)
                    if dur < 0 and was == 2 and mon.ctx == 3: break   # reactive segment: the device chirp has just ended
        return mon.tup()

    def apply(self, cur, env, a):
        v, pos, left, mask, mt = env
        kind, adv, inp, dur, mask2 = a
        if v == -2: raise Violation(*self._prefix_violation)
        if kind == "variant":
            return (dur, 0, left, 0, self._run_nominal(cur, mt, self.variants[dur][0]))
        if kind == "split":
            mt = self._run(cur, mt, inp, dur)
        else:
            mt = self._run(cur, mt, (inp,), (dur,))
        return (v, pos + adv, left - (0 if kind == "nominal" else 1), mask2, mt)

    # ---------------------------------------------------------------- oracle
    def advance(self, mon, inp, o, n):
        """n >= 1 cycles with constant inputs and constant observed outputs."""
        i = 0
        while i < n and i < 4:            # first cycles one by one (edge checks and the small 'gap' leniencies)
            self.cycles(mon, inp, o, 1); i += 1
        if n > i:
            self.cycles(mon, inp, o, n - i)

    def cycles(self, m, inp, o, n):
        line, vbus, disc, fs, ls, busy = inp
        hs = int(o.current_speed == SPEED_HIGH and o.operating_mode == OP_NORMAL and o.termination_select == 0)
        ch = int(o.operating_mode == OP_CHIRP)
        su = int(o.suspended)
        rst = int(o.bus_reset)
        restricted = fs | ls
        txk = int(o.tx_valid and ch)
        cover = self.cover
        info = None

        def detail(**kw):
            d = dict(line_state=LNAME[line], vbus=vbus, disconnect=disc, full_speed_only=fs, low_speed_only=ls,
                     outputs=dict(o._asdict()), se0_run=m.c0 or m.l0, j_run=m.c1 or m.l1, k_run=m.c2 or m.l2,
                     se0_cycles_not_hs=m.fc or m.fl, hs_revert_age=m.pend, chirp_pairs=m.pairs,
                     cycles_since_device_chirp=m.since_end)
            d.update(kw)
            return d

        # -- HSOP falls: was it the revert after 3 ms of SE0 at high speed?
        if m.p_hs and not hs:
            if Mon._len(m.hc, m.hl, m.hg, 1) >= T3MS:
                m.pend = 1                      # becomes the age below
                pend_new = True
                if line == SE0 and m.hc >= T3MS: m.taint = 1
                cover["hs_revert"] += 1
            else:
                pend_new = False
                cover["hs_left_other"] += 1
                if restricted: cover["hs_left_on_restriction"] += 1
        else:
            pend_new = False

        # -- input history
        m.c0, m.l0, m.g0 = Mon._trk(m.c0, m.l0, m.g0, line == SE0, n, T3MS)
        m.c1, m.l1, m.g1 = Mon._trk(m.c1, m.l1, m.g1, line == 1, n, T3MS)
        m.c2, m.l2, m.g2 = Mon._trk(m.c2, m.l2, m.g2, line == 2, n, T3MS)
        m.hc, m.hl, m.hg = Mon._trk(m.hc, m.hl, m.hg, line == SE0 and hs, n, T3MS)
        if line != SE0: m.taint = 0
        m.fc, m.fl, m.fg = Mon._trk(m.fc, m.fl, m.fg, line == SE0 and not hs and not m.taint, n, T5US)
        m.restr_run = min(4, m.restr_run + n) if restricted else 0
        m.hs_restr = min(3, m.hs_restr + n) if (restricted and hs) else 0

        # -- handshake context
        if ch and not m.p_ch:
            # restricted in the cycle of the bus-reset report that started this handshake (at most 3 cycles ago) and ever
            # since; without such a report: restricted for the last 4 cycles
            need = m.rst_gap + 2 if m.rst_gap <= 2 else 4
            if m.restr_run >= need:
                raise Violation("chirp-started-while-restricted",
                                detail(note="operating_mode switched to CHIRP although full_speed_only/low_speed_only has been "
                                            "asserted continuously since (and including) the cycle of the bus-reset report",
                                       restricted_for_cycles=m.restr_run, cycles_since_bus_reset_report=m.rst_gap + 1))
            m.ctx, m.ctx_rst = 1, int(m.rst_gap <= 2)
            m.ck = m.cj = m.pk = m.pairs = m.since_end = 0
            m.pend = 0
            cover["chirp_started"] += 1
            if m.p_su or m.susp_gap <= 3: cover["chirp_from_suspend"] += 1
        if m.ctx in (1, 2, 3) and not ch and not hs:
            if m.ctx == 3:
                m.ctx = 4; m.ck = m.cj = m.pk = m.pairs = 0          # fell back; configuration is checked at the deadline
                cover["fallback"] += 1
            else:
                m.ctx = 0; m.ctx_rst = 0
        if m.ctx == 1 and txk and o.tx_data == 0:
            m.ctx = 2; cover["device_chirp"] += 1
        elif m.ctx == 2 and not txk:
            m.ctx = 3
        if m.ctx in (3, 4):
            m.since_end = min(T2P5MS + SLACK + 1, m.since_end + n)
        if m.ctx == 3:
            if line == K:
                if 0 < m.cj < T2P5US: cover["short_chirp_state_seen"] += 1
                m.ck = min(T2P5US, m.ck + n); m.cj = 0
                if m.ck >= T2P5US: m.pk = 1
            elif line == J:
                if 0 < m.ck < T2P5US: cover["short_chirp_state_seen"] += 1
                m.cj = min(T2P5US, m.cj + n); m.ck = 0
                if m.cj >= T2P5US and m.pk:
                    m.pairs = min(3, m.pairs + 1); m.pk = 0
            else:
                m.ck = m.cj = 0

        # -- R1: entering high-speed operation
        if hs and not m.p_hs:
            cover["hs_entered"] += 1
            if m.p_ch and m.ctx:
                if m.ctx != 3:
                    raise Violation("hs-entry:no-device-chirp", detail(note="high-speed operation entered out of a handshake in which the device never drove/finished its chirp K"))
                if not m.ctx_rst:
                    raise Violation("hs-entry:no-bus-reset", detail(note="the handshake leading to high speed did not start at a reported bus reset"))
                if m.pairs < 3:
                    raise Violation("hs-entry:fewer-than-3-chirp-pairs",
                                    detail(note="high-speed operation entered although fewer than three K-J pairs with every "
                                                "state >= 150 cycles were on the line since the end of the device chirp"))
                cover["hs_by_handshake"] += 1
            elif m.susp_gap + 1 <= 3 and m.susp_hs:
                cover["hs_by_resume"] += 1
            else:
                raise Violation("hs-entry:unjustified", detail(note="high-speed operation entered neither out of a chirp handshake nor by resuming from a suspend entered at high speed",
                                                               suspended_cycles_ago=m.susp_gap + 1, suspend_was_from_hs=m.susp_hs))
            m.ctx = m.ctx_rst = m.ck = m.cj = m.pk = m.pairs = m.since_end = 0
            m.pend = 0

        # -- R3
        if m.hs_restr >= 3:
            raise Violation("hs-kept-under-restriction", detail(note="still in high-speed operation in the third consecutive cycle with a speed restriction asserted"))

        # -- R4
        if m.ctx in (3, 4) and m.since_end > T2P5MS + SLACK:
            if ch:
                raise Violation("no-fallback-after-chirp-timeout", detail(note="still in chirp mode more than 2.5 ms after the end of the device chirp"))
            if not hs and not (o.current_speed in (SPEED_FULL, SPEED_LOW) and o.termination_select == 1):
                raise Violation("fallback-not-fs-ls", detail(note="left chirp mode without restoring the FS/LS configuration"))
            m.ctx = m.ctx_rst = m.ck = m.cj = m.pk = m.pairs = m.since_end = 0

        # -- R6: suspend entry
        if su and not m.p_su:
            cover["suspended"] += 1
            j01 = Mon._len(m.c1, m.l1, m.g1, 2)
            j10 = Mon._len(m.c2, m.l2, m.g2, 2)
            if m.pend and not pend_new:
                m.susp_hs = 1; cover["suspend_hs"] += 1
            elif o.current_speed == SPEED_FULL and j01 >= T3MS:
                m.susp_hs = 0; cover["suspend_fs"] += 1
            elif o.current_speed == SPEED_LOW and j10 >= T3MS:
                m.susp_hs = 0; cover["suspend_ls"] += 1
            else:
                raise Violation("suspend:without-3ms-idle", detail(note="suspended asserted without 180 000 cycles of continuous idle for the shown speed",
                                                                   idle_01_run=j01, idle_10_run=j10))
            m.pend = 0

        # -- R5: bus reset
        if rst:
            cover["bus_reset"] += 1
            se0 = Mon._len(m.c0, m.l0, m.g0, 1)
            se0fs = Mon._len(m.fc, m.fl, m.fg, 1)
            if not vbus:
                cover["reset_no_vbus"] += 1
            elif su and se0 >= T2P5US:
                cover["reset_from_suspend"] += 1
            elif se0fs >= T5US:
                cover["reset_fs"] += 1
            elif m.pend and not pend_new and m.pend >= T200US - 1 and m.c1 <= 1:
                cover["reset_hs"] += 1
            else:
                if hs: which = "at-high-speed"
                elif m.pend or m.taint: which = "hs-discrimination"
                elif su: which = "suspended"
                else: which = "fs-ls-active"
                raise Violation("bus-reset:unjustified:" + which,
                                detail(note="bus_reset reported with VBUS present and without the SE0 history the statement requires"))
            if m.pend and not pend_new: m.pend = 0

        # -- bookkeeping for the next cycle
        if o.operating_mode == OP_NONDRIVING: cover["nondriving"] += 1
        if o.current_speed == SPEED_LOW: cover["speed_low"] += 1
        if m.pend:
            m.pend = 1 if pend_new else min(T200US, m.pend + n)
        m.rst_gap = 0 if rst else min(4, m.rst_gap + n)
        if m.p_su and not su and not m.susp_hs: cover["fs_ls_suspend_left"] += 1
        if m.susp_gap == 3 and not su and not hs and not m.susp_hs and not ch: cover["resume_stays_fs_ls"] += 1
        if su:
            m.susp_gap = 0
        else:
            m.susp_gap = min(4, m.susp_gap + n)
            if m.susp_gap >= 4: m.susp_hs = 0
        m.p_hs, m.p_ch, m.p_su = hs, ch, su
        self.outcomes.add((hs, ch, su, rst, o.current_speed, o.operating_mode, o.termination_select, m.ctx))


def make(cfg, tier):
    return ResetSpec(cfg, tier)
