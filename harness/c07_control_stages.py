# C07 - Control transfers follow the setup/data/status stage protocol; every SETUP starts a fresh transfer;
#       traffic for other endpoints does not disturb endpoint 0.
# DUT: USBDevice + standard control endpoint (mps 8) + bulk IN ep1 (always has data) + bulk OUT ep1 (always ready).
# Macro-step mode: one action = one host transaction; the host is NOT restricted to well-formed control transfers.
from rtlmc.model import Violation, Cursor
from rtlmc.explore import Spec
from rtlmc import usbref as U
from rtlmc.env.usb2_host import Host, PruneCollision
from harness._usb2dev import build_device, small_descriptors, descriptor_bytes

PROPERTY = "C07"
LEVEL_TEXT = ("Every sequence (up to the depth bound) of host transactions on endpoint 0 - complete, abandoned, repeated or out-of-order SETUP/IN/OUT "
              "transactions - interleaved with bulk traffic on endpoint 1 is enumerated on the real USBDevice netlist. Oracles: stage rules of the "
              "statement on every response; differential freshness (from every reached state each request's canonical transfer gives the "
              "transcript it gives from reset); differential isolation (an endpoint-1 transaction leaves endpoint 0's future transcript unchanged).")

MPS = 8
#            name: (bmRequestType, bRequest, wValue, wIndex, wLength)
REQS = {
    "GD18": (0x80, 6, 0x0100, 0, 18),      # device descriptor, three packets
    "GD8":  (0x80, 6, 0x0100, 0, 8),       # exactly one full packet, no ZLP
    "GST":  (0x80, 0, 0, 0, 2),
    "SC1":  (0x00, 9, 1, 0, 0),            # no data stage
    "VND":  (0xC0, 0x42, 0, 0, 4),         # unclaimed vendor IN request
    "SDSC": (0x00, 7, 0x0100, 0, 4),       # SET_DESCRIPTOR: OUT data stage, not implemented
}


def configs(tier):
    if tier == "quick":
        cs = [dict(gap=1, pace=1, reqs=["GD18", "SC1", "VND"], depth=4), dict(gap=3, pace=1, reqs=["GD8", "GST", "SDSC"], depth=4),
              dict(gap=2, pace=8, reqs=["GD18", "SC1"], depth=4), dict(gap=1, pace=1, reqs=["GST", "SC1", "GD18"], depth=4, la=["GD18", "GST", "SC1", "VND", "SDSC", "GD8"])]
    else:
        cs = [dict(gap=1, pace=1, reqs=["GD18", "SC1", "VND"], depth=6), dict(gap=3, pace=1, reqs=["GD8", "GST", "SDSC"], depth=6),
              dict(gap=2, pace=8, reqs=["GD18", "SC1", "GST"], depth=5), dict(gap=1, pace=1, reqs=["GD18", "GD8", "GST", "SC1", "VND", "SDSC"], depth=5),
              dict(gap=6, pace=2, reqs=["GD18", "SC1", "SDSC"], depth=6)]
    return cs


class StageSpec(Spec):
    n_validate = 4
    validate_max_cycles = 4000

    def __init__(self, cfg, tier):
        super().__init__(cfg, tier)
        self.max_depth = cfg["depth"]
        self.time_budget = 600 if tier == "quick" else 1500   # safety net only
        self.host = Host(gap=cfg["gap"], pace=cfg["pace"], extra=dict(connect=1, in_valid=1, in_payload=0x5A, out_ready=1))
        self.reqs = cfg["reqs"]
        self.la = cfg.get("la", list(REQS) if tier == "thorough" else cfg["reqs"])
        self._fresh = {}
        self._desc = None

    def build(self):
        from luna.gateware.usb.usb2.endpoints.stream import USBStreamInEndpoint, USBStreamOutEndpoint
        mk_in = lambda: USBStreamInEndpoint(endpoint_number=1, max_packet_size=2)
        mk_out = lambda: USBStreamOutEndpoint(endpoint_number=1, max_packet_size=2)
        design, h = build_device(control="standard", ep0_mps=MPS, endpoints=[mk_in, mk_out])
        ein, eout = h["endpoints"]
        design.inputs.update(in_valid=ein.stream.valid, in_payload=ein.stream.payload, out_ready=eout.stream.ready)
        design.defaults.update(in_valid=1, in_payload=0x5A, out_ready=1)
        self._desc = descriptor_bytes(h["descriptors"], 1)
        return design

    def assumptions(self):
        return self.host.assumptions() + [
            "device address stays 0 (SET_ADDRESS is exercised by C08)",
            "the host ACKs every data packet it receives unless the action says the ACK is withheld/lost",
            "freshness compares transcripts (handshakes, data PIDs and payloads) of a well-behaved completion of each request"]

    # env = (dirin, wlen, stage): what the last accepted SETUP announced + host-view stage
    #   stage: 0 no transfer, 1 data stage running, 2 status stage running/over
    def env0(self): return (0, 0, 0)

    def actions(self, env):
        acts = [("setup", r) for r in self.reqs]
        acts += [("in0", 1), ("in0", 0), ("out0z",), ("out0d",), ("setuptok",), ("setupbad", self.reqs[0]), ("in1", 1), ("in1", 0), ("out1",), ("out1x8",), ("setup1", self.reqs[0])]
        return acts

    def goals(self):
        g = ["setup-mid-transfer", "ep1-mid-transfer", "fresh-ok"]
        if {"GD18", "GD8", "GST"} & set(self.reqs): g += ["data-stage-packet", "status-out-acked"]
        if "SC1" in self.reqs: g.append("status-in-zlp")
        if "VND" in self.reqs: g.append("stall-seen")
        return g

    # ---- host transactions
    def _setup(self, cur, r, corrupt=False):
        self.host.send(cur, U.token(U.SETUP, 0, 0), False)
        return self.host.send(cur, U.data_packet(U.DATA0, U.setup_bytes(*REQS[r]), corrupt=corrupt), True)

    def _in(self, cur, ep, ack):
        resp = self.host.send(cur, U.token(U.IN, 0, ep), True)
        k = U.classify_device_packet(resp) if resp is not None else None
        if k and k[0] == "data" and ack:
            self.host.send(cur, U.handshake(U.ACK), False)
        return k

    def _out(self, cur, ep, pid, payload):
        self.host.send(cur, U.token(U.OUT, 0, ep), False)
        resp = self.host.send(cur, U.data_packet(pid, payload), True)
        return U.classify_device_packet(resp) if resp is not None else None

    def _canonical(self, cur, r):
        """well-behaved completion of request r; returns its transcript"""
        t = []
        bm, _, _, _, wlen = REQS[r]
        resp = self._setup(cur, r)
        t.append(("setup", U.classify_device_packet(resp) if resp is not None else None))
        if t[-1][1] != ("hs", U.ACK): return tuple(t)
        if bm & 0x80 and wlen:
            total = 0
            for _ in range(5):
                k = self._in(cur, 0, 1)
                t.append(("in", k))
                if not k or k[0] != "data": break
                total += len(k[2])
                if len(k[2]) < MPS or total >= wlen: break
            if t[-1][1] and t[-1][1][0] == "data":
                t.append(("out-status", self._out(cur, 0, U.DATA1, ())))
        elif wlen == 0:
            t.append(("in-status", self._in(cur, 0, 1)))
        else:
            t.append(("out-data", self._out(cur, 0, U.DATA1, (1, 2, 3, 4))))
            t.append(("in-status", self._in(cur, 0, 1)))
        return tuple(t)

    def _fresh_transcript(self, model, r):
        if r not in self._fresh:
            c = Cursor(model)
            self.host.idle(c, 2)
            t = self._canonical(c, r)
            self._sanity(r, t)
            self._fresh[r] = t
        return self._fresh[r]

    def _sanity(self, r, t):
        """the transcript from reset must itself be what the statement requires (baseline for the differential oracle)"""
        bm, req, val, idx, wlen = REQS[r]
        ack = ("hs", U.ACK)
        if t[0] != ("setup", ack): raise Violation("fresh:setup-not-acked", dict(req=r, transcript=t))
        if r in ("GD18", "GD8"):
            want = self._desc[:wlen]
            data = b"".join(bytes(k[2]) for n, k in t if n == "in" and k and k[0] == "data")
            if data != want: raise Violation("fresh:descriptor-data-wrong", dict(req=r, got=data.hex(), want=want.hex()))
            if t[-1] != ("out-status", ack): raise Violation("fresh:status-out-not-acked", dict(req=r, transcript=t))
        elif r == "GST":
            if t[1] != ("in", ("data", U.DATA1, (0, 0))) or t[-1] != ("out-status", ack):
                raise Violation("fresh:get-status-wrong", dict(transcript=t))
        elif r == "SC1":
            if t[1] != ("in-status", ("data", U.DATA1, ())): raise Violation("fresh:status-in-not-zlp", dict(transcript=t))
        elif r == "VND":
            if t[1] != ("in", ("hs", U.STALL)): raise Violation("fresh:unclaimed-request-not-stalled", dict(transcript=t))
        elif r == "SDSC":
            # the status stage of a transfer with an OUT data stage is an IN: it must be answered (ZLP, or STALL as here)
            if t[-1][0] != "in-status" or t[-1][1] is None:
                raise Violation("fresh:status-in-after-out-data-stage-unanswered", dict(transcript=t))
            if any(k and k[0] == "data" and k[2] for n, k in t[1:]) or t[-1][1] == ("data", U.DATA1, ()):
                raise Violation("fresh:unsupported-out-request-answered", dict(transcript=t))

    def _probe0(self, cur):
        f = cur.fork()
        try:
            return (self._in(f, 0, 1), self._in(f, 0, 1), self._out(f, 0, U.DATA1, ()), self._in(f, 0, 1))
        except PruneCollision:
            return "collision"

    def apply(self, cur, env, a):
        try:
            return self._apply(cur, env, a)
        except PruneCollision:
            return None

    def _apply(self, cur, env, a):
        dirin, wlen, stage = env
        kind = a[0]
        new = env
        if kind == "setup":
            resp = self._setup(cur, a[1])
            if resp is None or U.classify_device_packet(resp) != ("hs", U.ACK):
                raise Violation("setup-not-acked", dict(action=a, env=env, resp=resp))
            if stage: self.cover["setup-mid-transfer"] += 1
            bm, _, _, _, wl = REQS[a[1]]
            new = (1 if bm & 0x80 else 0, wl, 1 if wl else 2)
        elif kind == "setuptok":
            self.host.send(cur, U.token(U.SETUP, 0, 0), False)
            new = (0, 0, 0)                     # host abandoned whatever was going on; nothing may be answered until a full SETUP
        elif kind == "setupbad":
            resp = self._setup(cur, a[1], corrupt=True)
            if resp is not None: raise Violation("corrupted-setup-answered", dict(resp=resp))
            new = (0, 0, 0)
        elif kind == "in0":
            k = self._in(cur, 0, a[1])
            if k and k[0] == "data" and len(k[2]) > 0:
                if not (stage == 1 and dirin and wlen):
                    raise Violation("data-sent-outside-in-data-stage", dict(action=a, env=env, got=k))
                self.cover["data-stage-packet"] += 1
            if k and k[0] == "data" and len(k[2]) == 0:
                # a ZLP answers a status-IN (no-data / OUT transfers) or ends an IN data stage
                if stage == 0: raise Violation("zlp-sent-without-transfer", dict(action=a, env=env))
                if not dirin or not wlen: self.cover["status-in-zlp"] += 1
            if k == ("hs", U.STALL): self.cover["stall-seen"] += 1
            if stage == 1 and not (dirin and wlen): new = (dirin, wlen, 2)
            if stage == 1 and not dirin and wlen: new = (dirin, wlen, 2)
        elif kind in ("out0z", "out0d"):
            k = self._out(cur, 0, U.DATA1, () if kind == "out0z" else (9, 8, 7, 6))
            if k == ("hs", U.ACK):
                in_transfer = stage and dirin and wlen
                out_data_stage = stage == 1 and not dirin and wlen
                if not (in_transfer or out_data_stage):
                    raise Violation("out-acked-outside-status-out-or-out-data-stage", dict(action=a, env=env))
                if in_transfer: self.cover["status-out-acked"] += 1
            if k and k[0] == "data": raise Violation("data-sent-in-response-to-out", dict(got=k))
            if stage and dirin and wlen: new = (dirin, wlen, 2)
        elif kind == "setup1":
            # a SETUP transaction addressed to endpoint 1 (not a control endpoint of this device): it must not be answered
            # and must not start, restart or disturb a control transfer on endpoint 0
            before = self._probe0(cur)
            self.host.send(cur, U.token(U.SETUP, 0, 1), False)
            resp = self.host.send(cur, U.data_packet(U.DATA0, U.setup_bytes(*REQS[a[1]])), True)
            if resp is not None and U.classify_device_packet(resp) == ("hs", U.ACK):
                raise Violation("setup-for-other-endpoint-acked", dict(resp=resp, env=env))
            after = self._probe0(cur)
            if before != after and "collision" not in (before, after):
                raise Violation("other-endpoint-traffic-changed-ep0-behaviour:setup1", dict(env=env, before=before, after=after))
        elif kind in ("in1", "out1", "out1x8"):
            before = self._probe0(cur)
            if kind == "in1":
                k = self._in(cur, 1, a[1])
                if not k or k[0] != "data": raise Violation("ep1-in-not-answered", dict(got=k))
            elif kind == "out1":
                k = self._out(cur, 1, U.DATA0, (0x11, 0x22))
            else:
                # an 8-byte OUT packet for endpoint 1 whose payload looks like a GET_DESCRIPTOR setup packet
                k = self._out(cur, 1, U.DATA0, U.setup_bytes(*REQS["GD18"]))
            after = self._probe0(cur)
            if before != after and "collision" not in (before, after):
                raise Violation("other-endpoint-traffic-changed-ep0-behaviour:" + kind, dict(env=env, before=before, after=after))
            if stage: self.cover["ep1-mid-transfer"] += 1
        # differential freshness from the reached state
        for r in self.la:
            want = self._fresh_transcript(cur.model, r)
            f = cur.fork()
            try:
                got = self._canonical(f, r)
            except PruneCollision:
                continue
            if got != want:
                raise Violation("stale-transfer-state:" + r, dict(after=a, env=env, fresh=want, got=got))
            self.cover["fresh-ok"] += 1
        self.outcomes.add((kind, new))
        return new


def make(cfg, tier):
    return StageSpec(cfg, tier)
