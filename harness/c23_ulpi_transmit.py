# C23 - ULPI transmit translation delivers the UTMI packet unchanged.
#
# DUT: UTMITranslator(ulpi=<Record as in tests/test_ulpi.py>, handle_clocking=False), per-cycle closure.  The UTMI side
# is a well-behaved UTMI transmitter (TxValid with the first byte, bytes held until TxReady, TxValid dropped in the cycle
# after the last byte was taken); the PHY side is the nondeterministic ULPI PHY of harness/_ulpi_phy.py: free NXT in
# every cycle of a transmit (no stall budget needed: stalls are self-loops of the product state), DIR rises (RX CMD
# bursts and receive packets) on the idle bus and against a transmit command that has not been accepted yet.
#
# Oracle (reference: ULPI 1.1 3.8.2.2/3.8.2.3 as quoted in the statement):
#   * the first byte the PHY accepts in a transmission is 0x40|PID-nibble (normal) / 0x40 NOPID (OpMode 2), every
#     further accepted byte is the UTMI byte currently offered, in order (NOPID: all UTMI bytes follow the command);
#   * while TxValid is high, tx_ready == "the PHY accepted a UTMI byte in this cycle";
#   * STP exactly in the cycle after the last byte was accepted, nowhere else; its data byte is 0xFF in OpMode 2 and
#     not 0xFF otherwise;  data.oe is low in every cycle with DIR high.
from harness._ulpi_phy import UlpiSpec

PROPERTY = "C23"
TECHNIQUE = "per-cycle BFS closure of UTMITranslator against a nondeterministic ULPI PHY model"


def pid_byte(n):
    return ((~n & 0xF) << 4) | n


def packet_sets(tier):
    pids = [[pid_byte(n)] for n in range(16)]
    multi = [[0xC3, 0xA5], [0x4B, 0x00, 0xFF], [0xE1, 0xFF, 0x40, 0x81]]
    if tier != "quick":
        multi += [[pid_byte(n), 0x5A ^ n, n] for n in range(16)] + [[0x4B] + [0x10 * i + i for i in range(1, 8)]]
    return pids + multi


def configs(tier):
    pk = packet_sets(tier)
    rx = dict(rxcmds=[0x0D, 0x1E], rxbytes=[0x40], rise0=True, rise1=True)
    if tier != "quick": rx = dict(rx, rxcmds=[0x0D, 0x1E, 0x02], rxbytes=[0x40, 0x80])
    # no budgets: closed under all NXT schedules, DIR interruptions and packet sequences
    c = [dict(name=f"op_mode{op}", checks=["tx"], ctrl=[dict(op_mode=op)], packets=pk, phy=rx) for op in (0, 2)]
    # OpMode switched between packets (only while the UTMI transmitter is idle, see TxSpec.actions): a packet's framing
    # must follow the OpMode of that packet, whatever the modes of earlier packets were.  The register writes the
    # change causes are C24's subject and not judged here (checks=["tx"]); they do share the bus with the packets.
    sw = [[0xC3], [0x4B, 0x00, 0xFF]] if tier == "quick" else pk
    c.append(dict(name="op_mode-switching", checks=["tx"], ctrl=[dict(op_mode=0), dict(op_mode=2)], packets=sw,
                  phy=dict(rxcmds=[0x0D], rxbytes=[0x40], rise0=True, rise1=False)))
    return c


class TxSpec(UlpiSpec):
    def actions(self, env):
        acts = super().actions(env)
        if env[0] == "!" or len(self.ctrl) == 1: return acts
        # OpMode changes only between packets: not while a packet is offered / awaits its STP, nor with a packet start
        quiet = env[1] is None and not env[5]
        return [a for a in acts if a[2] == env[2] or (quiet and a[1] == 0)]

    def goals(self):
        g = ["prologue-settled", "txcmd", "txstp", "tx-packet-done", "abort-tx", "rise0"]
        if self.cfg["phy"].get("rise1", True): g += ["rise1"]
        if len(self.ctrl) > 1: g += ["ctrl-change"]
        if self.mode2[0] or any(len(p) > 1 for p in self.packets): g += ["txbyte", "tx-stall"]
        return g

    def assumptions(self):
        return ["the UTMI transmitter follows UTMI: TxValid with the first byte, data held until TxReady, TxValid dropped in the cycle after the last byte is taken, at least one idle cycle between packets",
                "OpMode is constant during a packet (0 or 2); in the op_mode-switching configuration it changes only while the UTMI transmitter is idle; other control inputs constant (changes are C24's subject)",
                "PHY outputs are registered: NXT never reacts to the link's outputs of the same cycle; NXT is low on an idle bus",
                "the PHY raises DIR only on an idle bus or against a command it has not accepted yet, never inside a transmit packet (ULPI: the PHY defers RX CMDs while the link transmits)",
                "NXT is unconstrained in the STP cycle (the PHY cannot know the packet ends)"]


def make(cfg, tier):
    return TxSpec(cfg, tier)
