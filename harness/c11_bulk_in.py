# C11 - bulk IN: the host receives the application's byte stream exactly once and in order, whatever ACKs get lost.
# DUT: USBDevice (full speed, UTMI) + standard control endpoint + USBStreamInEndpoint(ep 1, mps) driven on the wire by the
# packet-level host; the application side (stream valid/payload/last, flush) is driven cycle by cycle by a tagged-byte
# producer.  Macro-step mode: one action = one host transaction, one producer cycle, or a producer level change.
#
# Oracle = an ideal host (accepts a data packet iff its DATA0/DATA1 toggle is the expected one, ACKs every data packet it
# sees) plus the bookkeeping the statement needs: what was pushed (with `last` markers), what the device has seen ACKed.
from rtlmc.model import Violation, MachineryError
from rtlmc.explore import Spec
from rtlmc import usbref as U
from rtlmc.env.usb2_host import PruneCollision, J, K, SE0
from harness._usb2dev import build_device
from harness._usb2in import DrivenHost, Producer

PROPERTY = "C11"
LEVEL_TEXT = ("All interleavings of producer behaviour (single-byte pushes with or without `last`, background pushing that runs concurrently "
              "with bus traffic, idle cycles, flush held or released) over a finite tagged script with host behaviour (IN + ACK, IN with the ACK "
              "lost, IN with the data packet lost, traffic to other endpoints and to another device address) are enumerated to closure on the real "
              "USBDevice + USBStreamInEndpoint netlist; every device packet is judged by an ideal-host reference.")
FOREIGN = 5


def tags_for(n):
    return tuple((0x21 + 0x1D * i) & 0xFF for i in range(n))


def _cfg(mps, L, maxlast=1, gap=1, pace=1, ready=1, bg_last=(), others=(), flush=1, single=1, delays=(1,), junk=None, flavour=None, align=0, ep2=0):
    return dict(mps=mps, L=L, maxlast=maxlast, gap=gap, pace=pace, ready=ready, bg_last=list(bg_last), others=list(others),
                flush=flush, single=single, delays=list(delays), junk=junk, flavour=flavour, ep2=ep2,
                align_goals=["byte-accepted-shortly-before-response-slot", "same-after-a-short-packet"] if align else [])


def configs(tier):
    # others: traffic that does not concern the endpoint ("fin" = IN transaction of another device address incl. the host's ACK)
    # delays: cycle offsets (from the start of the next bus event) at which the producer's valid level may rise
    sweep = range(1, 41)
    J = [1, 0xEE]        # junk: while valid is low the producer leaves last=1 and a byte that is not in the script on the stream
    q = [_cfg(2, 5, maxlast=2),
         _cfg(2, 4, gap=2, ready=2, bg_last=[3], others=["out1", "fin"], flush=0),
         _cfg(2, 4, others=["sof"], flush=0, junk=J),
         _cfg(2, 4, others=["in2"], flush=0, junk=[1, 0]),
         _cfg(2, 4, others=["in2ack"], flush=0, ep2=1),
         _cfg(3, 5, bg_last=[2]),
         _cfg(3, 7, pace=2, flush=0, delays=[1, 5, 12], junk=J),
         _cfg(4, 6, ready=3, bg_last=[3], flush=0, delays=[1, 9, 17], junk=J),
         _cfg(1, 3, maxlast=2, bg_last=[1], others=["setup", "fin"], flush=0, junk=J),
         _cfg(2, 4, maxlast=0, single=0, bg_last=[1], flush=0, delays=sweep, junk=J),
         _cfg(2, 5, maxlast=0, single=0, bg_last=[2], delays=sweep),
         _cfg(3, 6, maxlast=0, single=0, gap=2, ready=2, bg_last=[2], flush=0, delays=range(1, 49), junk=J),
         _cfg(2, 5, maxlast=1, bg_last=[4], junk=J),
         # producer completing a packet in every cycle relative to the token's response slot, after short and full packets,
         # in the three timing flavours of USBDevice (response slot 2 / 10 / 1 cycles after the token)
         _cfg(3, 5, flush=0, delays=sweep, align=1),
         _cfg(3, 4, flush=0, gap=12, delays=range(1, 25), flavour="clk60", align=1),
         _cfg(3, 4, flush=0, gap=2, delays=range(1, 25), flavour="hs", align=1)]
    if tier == "quick":
        return q
    t = [_cfg(2, 6, maxlast=2, delays=[1, 6, 11, 16]),
         _cfg(2, 6, maxlast=3, others=["out1", "setup", "fin"], flush=0, junk=J),
         _cfg(2, 6, maxlast=2, gap=3, pace=2, ready=2, bg_last=[1], delays=[1, 7, 19]),
         _cfg(3, 8, maxlast=1, bg_last=[5], delays=[1, 8, 15], junk=J),
         _cfg(3, 8, maxlast=2, gap=2, ready=3, bg_last=[2], flush=0, others=["fin"]),
         _cfg(4, 9, maxlast=1, bg_last=[7]),
         _cfg(4, 9, maxlast=1, ready=2, flush=0, delays=range(1, 41, 2), junk=J),
         _cfg(8, 18, bg_last=[15], flush=0),
         _cfg(8, 10, others=["fin"], flush=0, delays=[1, 11], junk=J),
         _cfg(64, 65, single=0, maxlast=0, bg_last=[63, 64], flush=0, delays=[1, 30, 60], junk=J),
         _cfg(4, 6, flush=0, gap=12, delays=range(1, 49), flavour="clk60", align=1),
         _cfg(4, 5, flush=0, gap=2, delays=range(1, 25), flavour="hs", align=1, junk=J),
         _cfg(3, 6, maxlast=2, others=["in2ack", "fin"], gap=2, ready=2, ep2=1)]
    return q + t


class BulkInSpec(Spec):
    n_validate = 4
    validate_max_cycles = 2500

    def __init__(self, cfg, tier):
        super().__init__(cfg, tier)
        self.time_budget = 600 if tier == "quick" else 840
        self.mps, self.L = cfg["mps"], cfg["L"]
        self.tags = tags_for(self.L)
        self.last_at = tuple(cfg["bg_last"])
        self.others = list(cfg["others"])
        self.use_flush, self.single, self.delays = cfg["flush"], cfg["single"], cfg["delays"]
        self.junk = tuple(cfg["junk"]) if cfg.get("junk") else None
        self.flavour = cfg.get("flavour")
        if self.flavour == "hs":
            # at high speed the reset sequencer's line_state_time counter runs freely (nothing clears it in HS_NON_RESET), so no two
            # moments of an execution share a DUT state: exploration is a depth-bounded tree; one-shot pushes are allowed anywhere
            self.n_validate = 1      # every replay in amaranth.sim first runs the 121k-cycle chirp handshake
            self.max_depth = 6 if tier == "quick" else 7
        self.host = DrivenHost(gap=cfg["gap"], pace=cfg["pace"], ready_period=cfg["ready"], extra=dict(connect=1))

    def build(self):
        from luna.gateware.usb.usb2.endpoints.stream import USBStreamInEndpoint
        mk = lambda: USBStreamInEndpoint(endpoint_number=1, max_packet_size=self.mps)
        mks = [mk]
        if self.cfg.get("ep2"):
            # a second bulk IN endpoint that always has data, so that the host can complete (and ACK) transactions on it
            mks.append(lambda: USBStreamInEndpoint(endpoint_number=2, max_packet_size=2))
        design, h = build_device(control="standard", ep0_mps=8, endpoints=mks, probe=False)
        ep = h["endpoints"][0]
        if self.cfg.get("ep2"):
            e2 = h["endpoints"][1]
            design.inputs.update(s2_valid=e2.stream.valid, s2_payload=e2.stream.payload)
            design.defaults.update(s2_valid=1, s2_payload=0xB2)
        design.inputs.update(s_valid=ep.stream.valid, s_payload=ep.stream.payload, s_last=ep.stream.last, flush=ep.flush)
        design.observes.update(s_ready=ep.stream.ready, rfr=ep.interface.tokenizer.ready_for_response)
        if self.flavour in ("clk60", "hs"):
            # the configuration USBDevice gives itself behind a ULPI PHY: 60 MHz usb domain, inter-packet delays counted in
            # 60 MHz cycles (response slot 10 cycles after a token at full speed, 1 cycle at high speed); UTMI wire driven directly
            dev = h["dev"]
            dev.data_clock, dev.always_fs = 60e6, False
            if self.flavour == "clk60":
                design.inputs.update(full_speed_only=dev.full_speed_only)
                design.defaults.update(full_speed_only=1)
        return design

    def prologue(self, cur):
        """hs flavour: bus reset + high-speed chirp handshake, so that the device answers with high-speed timing"""
        if self.flavour != "hs": return None
        def hold(n, line):
            while n > 0:
                k, _, last = cur.hold(n, line_state=line, connect=1)
                n -= k
            return last
        hold(310, SE0)                          # > 5 us of SE0: bus reset, the device starts its chirp
        hold(120010, K)                         # the device chirps K for 2 ms
        hold(10, SE0)
        for _ in range(3):                      # host chirp K-J-K-J-K-J, each > 2.5 us
            hold(160, K); last = hold(160, J)
        if last.speed != 0:
            raise MachineryError("high-speed handshake did not leave the device at high speed")
        self.host.driver = None
        for _ in range(6): self.host.tick(cur)
        return None

    def assumptions(self):
        return self.host.assumptions() + [
            "device address 0, endpoint's `discard` input held low (not part of the statement)",
            "an ACK that does not reach the device and a data packet that does not reach the host look the same to the device; both are modelled (they differ in what the ideal host has accepted)",
            "producer follows the stream handshake: a byte counts as pushed in the cycle valid and ready are both high; `first` is not driven; while valid is low payload/last are don't-care and carry the configured junk values (0/0, or last=1 with a payload byte that is not in the script)",
            "traffic to another device address is seen as a hub forwards it downstream: the token and the host's handshake, not the other device's data",
            "ep2 configurations: the device has a second bulk IN endpoint (ep 2) that always has data; `in2ack` is a complete, ACKed IN transaction on it",
            "short packets without `last` are tolerated once flush has been asserted on the path; otherwise every short packet must end a transfer",
            "between transactions the bus is either idle for the minimum gap or for a long time (> 641 cycles, all inter-packet timers saturated); one-shot pushes happen during long idle periods, pushes concurrent with bus traffic through the valid level (rising at the configured cycle offsets)",
            "idle periods are run with line_state=K so that the suspend timer does not distinguish states",
            "flavour clk60: USBDevice as behind a ULPI PHY (60 MHz, full_speed_only=1), host leaves >= 12 cycles between packets; flavour hs: the same after a complete high-speed chirp handshake (run once before the exploration), line state kept non-SE0; default: the 12 MHz full-speed configuration USBDevice chooses for a plain UTMI bus",
            "the transmitter behind the endpoint is the real USBDataPacketGenerator, which accepts the first payload byte no earlier than two cycles after the packet stream becomes valid (a stand-alone USBInTransferManager with packet_stream.ready tied high is outside this check)"]

    # env = (pos, lasts, nl, bg, fl, flushed, q, hacc, hexp, unacked, dacc, dzlp, starve, plen)
    #  pos: bytes pushed; lasts: positions pushed with last; nl: number of last markers spent by one-shot pushes;
    #  bg: producer valid level (0 low, 1 high, k>1: rises after k-1 more cycles); fl: flush level; flushed: flush was high at
    #  some time on this path; q: 1 = the bus has been idle long enough for the inter-packet timers to have saturated, 2 = the last bus event was
    #  unrelated traffic (two of those are always separated by a long idle period or a transaction on this endpoint), 0 otherwise;
    #  hacc/hexp: ideal host: bytes accepted, expected toggle;  unacked: (toggle, payload) sent by the device and not (seen) ACKed;
    #  dacc: bytes in packets whose ACK reached the device; dzlp: a zero-length packet is owed (a max-size packet ended a transfer);
    #  starve: consecutive NAKed polls while a packet was complete;  plen: length of the data packet the device sent last
    def env0(self):
        return (0, (), 0, 0, 0, 0, 0, 0, 0, None, 0, 0, 0, 0)

    def canon(self, env):
        pos, lasts, nl, bg, fl, flushed, q, hacc, hexp, unacked, dacc, dzlp, starve, plen = env
        return (pos, tuple(l for l in lasts if l >= dacc), nl, bg if pos < self.L else 0, fl, flushed, q, hacc, hexp, unacked, dacc, dzlp, starve, plen)

    def actions(self, env):
        pos, lasts, nl, bg, fl, flushed, q = env[:7]
        acts = []
        if pos < self.L:
            if self.single and (q == 1 or self.flavour == "hs"):
                acts.append(("push", 0))
                if nl < self.cfg["maxlast"]: acts.append(("push", 1))
            if bg == 0: acts += [("bg", k) for k in self.delays]
            else: acts.append(("bg", 0))
        elif bg:
            acts.append(("bg", 0))
        if self.use_flush: acts.append(("fl",))
        if (q != 1 or (bg and pos < self.L)) and self.flavour != "hs": acts.append(("quiet",))
        acts += [("in", "ack"), ("in", "acklost"), ("in", "datalost")]
        if q != 2: acts += [("x", k) for k in self.others]
        return acts

    def goals(self):
        g = ["full-packet", "retry-identical", "nak-empty", "ack-lost", "data-lost", "background-fill", "all-delivered", "duplicate-discarded-by-host"]
        lastpos = set(self.last_at)
        if self.single and self.cfg["maxlast"] or any((p + 1) % self.mps == 0 for p in lastpos): g.append("zlp")
        if self.mps > 1 and (self.single and self.cfg["maxlast"] or any((p + 1) % self.mps for p in lastpos)): g.append("short-packet-ends-transfer")
        if self.use_flush and self.mps > 1: g.append("flush-packet")
        if "fin" in self.others: g.append("foreign-ack-while-unacked")
        g += self.cfg.get("align_goals", [])
        if "in2ack" in self.others: g.append("other-endpoint-transaction-acked")
        return g

    def apply(self, cur, env, a):
        pos, lasts, nl, bg, fl, flushed, q, hacc, hexp, unacked, dacc, dzlp, starve, plen = env
        if a[0] == "bg": return (pos, lasts, nl, a[1], fl, flushed, q, hacc, hexp, unacked, dacc, dzlp, 0, plen)
        if a[0] == "fl": return (pos, lasts, nl, bg, fl ^ 1, flushed, q, hacc, hexp, unacked, dacc, dzlp, 0, plen)
        host = self.host
        prod = Producer(self.tags, pos, lasts, bg, self.last_at, fl, junk=self.junk)
        host.driver = prod
        flushed = flushed | fl
        try:
            if a[0] == "quiet":
                host.quiet(cur)
                q = 1
            elif a[0] == "push":
                prod.once = a[1]
                host.tick(cur)
                if a[1] and prod.pos > pos: nl += 1
            elif a[0] == "x":
                self._other(cur, a[1])
                q = 2
                if unacked is not None:
                    if a[1] == "fin": self.cover["foreign-ack-while-unacked"] += 1
                    # the packet the device still owes a retry for must survive unrelated traffic (lookahead on a copy)
                    host.driver = prod.clone()
                    f = cur.fork()
                    for _ in range(3):
                        r = host.send(f, U.token(U.IN, 0, 1), True)
                        k = U.classify_device_packet(r) if r is not None else None
                        if k is None or k[0] != "hs": break
                    if k is not None and k[0] == "hs":
                        raise Violation("retry:packet-dropped:after-" + a[1], dict(first=unacked, polls="3 x " + U.PIDNAME[k[1]], acked=dacc, pushed=prod.pos))
                    if k is not None and k[0] == "data" and (1 if k[1] == U.DATA1 else 0, k[2]) != unacked:
                        raise Violation("retry:packet-changed:after-" + a[1], dict(first=unacked, retry=(U.PIDNAME[k[1]], k[2]), acked=dacc, pushed=prod.pos))
            else:
                r = self._in(cur, env, a[1], prod, flushed)
                if prod.pos > pos: self.cover["background-fill"] += 1
                return (prod.pos, prod.lasts, nl, prod.level, fl, flushed, 0) + r
        except PruneCollision:
            return None
        finally:
            host.driver = None
        return (prod.pos, prod.lasts, nl, prod.level, fl, flushed, q, hacc, hexp, unacked, dacc, dzlp, 0, plen)

    def _other(self, cur, kind):
        host = self.host
        if kind == "sof": host.send(cur, U.sof(0x155), False)
        elif kind == "in2": host.send(cur, U.token(U.IN, 0, 2), True)
        elif kind == "in2ack":
            # a complete IN transaction on the other bulk IN endpoint of the same device, ACKed by the host
            r = host.send(cur, U.token(U.IN, 0, 2), True)
            k = U.classify_device_packet(r) if r is not None else None
            if k is not None and k[0] == "data":
                host.send(cur, U.handshake(U.ACK), False)
                self.cover["other-endpoint-transaction-acked"] += 1
        elif kind == "out1":
            host.send(cur, U.token(U.OUT, 0, 1), False)
            host.send(cur, U.data_packet(U.DATA0, (0x5A,)), True)
        elif kind == "setup":
            host.send(cur, U.token(U.SETUP, 0, 0), False)
            host.send(cur, U.data_packet(U.DATA0, U.setup_bytes(0x80, 0, 0, 0, 2)), True)
        elif kind == "fin":
            # another device (address FOREIGN) is polled, answers (its data is not forwarded to us), and the host ACKs it
            r = host.send(cur, U.token(U.IN, FOREIGN, 1), True)
            if r is not None: raise Violation("answers-token-of-another-address", dict(resp=r))
            host.send(cur, U.handshake(U.ACK), False)
        else:
            raise KeyError(kind)

    def _in(self, cur, env, outcome, prod, flushed):
        """one IN transaction on endpoint 1.  returns the host/device part of the new env."""
        pos, lasts, nl, bg, fl, _f, _q, hacc, hexp, unacked, dacc, dzlp, starve, plen = env
        mps, tags, host = self.mps, self.tags, self.host
        empty = unacked is None and pos == dacc and not dzlp
        owed = unacked is not None or dzlp or pos - dacc >= mps or any(l >= dacc for l in lasts)
        resp = host.send(cur, U.token(U.IN, 0, 1), True)
        # vacuity guard for the alignment sweeps, in terms of the public stream interface only: some byte was accepted by the
        # endpoint 1..4 cycles before the token's response slot (whatever the endpoint then answers)
        if prod.rfr_t and any(0 < r - t <= 4 for t in prod.acc_t.values() for r in prod.rfr_t):
            self.cover["byte-accepted-shortly-before-response-slot"] += 1
            if 0 < plen < mps: self.cover["same-after-a-short-packet"] += 1
        if resp is None:
            raise Violation("in-token:no-response", dict(env=env))
        kind = U.classify_device_packet(resp)
        if kind[0] == "bad":
            raise Violation("in-token:malformed-packet", dict(reason=kind[1], packet=resp))
        if kind[0] == "hs":
            if kind[1] != U.NAK:
                raise Violation("in-token:unexpected-handshake", dict(pid=U.PIDNAME[kind[1]]))
            if empty: self.cover["nak-empty"] += 1
            if owed:
                starve += 1
                if starve >= 3:
                    raise Violation("liveness:complete-packet-never-sent", dict(pushed=pos, acked=dacc, unacked=unacked, zlp_owed=dzlp))
            else:
                starve = 0
            return (hacc, hexp, unacked, dacc, dzlp, starve, plen)
        _, pid, payload = kind
        if pid not in (U.DATA0, U.DATA1):
            raise Violation("packet:pid-not-data0-or-data1", dict(pid=U.PIDNAME[pid]))
        tog = 1 if pid == U.DATA1 else 0
        n = len(payload)
        sent = (tog, payload)
        if empty and prod.pos == pos:
            raise Violation("in-token:not-naked-when-nothing-buffered", dict(packet=sent, pushed=pos, acked=dacc))
        if n > mps:
            raise Violation("packet:exceeds-max-packet-size", dict(length=n, mps=mps))
        if unacked is not None:
            if sent != unacked:
                raise Violation("retry:packet-changed", dict(first=unacked, retry=sent, acked=dacc, pushed=pos))
            self.cover["retry-identical"] += 1
        else:
            if tog != hexp:
                raise Violation("toggle:new-packet-repeats-previous-pid", dict(packet=sent, host_expects=hexp))
            if dacc + n > prod.pos or payload != tags[dacc:dacc + n]:
                raise Violation("stream:data-mismatch", dict(packet=payload, expected=tags[dacc:dacc + n], acked=dacc, pushed=prod.pos))
            if any(dacc <= l < dacc + n - 1 for l in prod.lasts):
                raise Violation("boundary:packet-spans-transfer-end", dict(packet=payload, lasts=prod.lasts, start=dacc))
            if dzlp and n:
                raise Violation("boundary:missing-zlp", dict(packet=payload, start=dacc))
            if n == 0 and not dzlp:
                raise Violation("boundary:spurious-zlp", dict(start=dacc, lasts=prod.lasts))
            if 0 < n < mps:
                if (dacc + n - 1) in prod.lasts: self.cover["short-packet-ends-transfer"] += 1
                elif flushed: self.cover["flush-packet"] += 1
                else:
                    raise Violation("boundary:short-packet-without-last-or-flush", dict(packet=payload, start=dacc, lasts=prod.lasts))
            if n == mps: self.cover["full-packet"] += 1
            if n == 0: self.cover["zlp"] += 1
            # informational only (implementation-specific timing): the byte completing this packet was accepted in the cycle
            # just before the response slot and the packet was nevertheless sent in that slot
            tc = prod.acc_t.get(dacc + n - 1) if n else None
            if tc is not None and (tc + 1) in prod.rfr_t:
                self.cover["info:packet-completed-one-cycle-before-response-slot-and-sent"] += 1
        # ---- the ideal host
        if outcome == "datalost":
            self.cover["data-lost"] += 1
            return (hacc, hexp, sent, dacc, dzlp, 0, n)
        if tog == hexp:
            if payload != tags[hacc:hacc + n]:
                raise Violation("stream:host-accepts-wrong-data", dict(packet=payload, expected=tags[hacc:hacc + n], accepted=hacc))
            hacc += n
            hexp ^= 1
            if hacc == self.L: self.cover["all-delivered"] += 1
        else:
            self.cover["duplicate-discarded-by-host"] += 1
        if outcome == "acklost":
            self.cover["ack-lost"] += 1
            return (hacc, hexp, sent, dacc, dzlp, 0, n)
        host.send(cur, U.handshake(U.ACK), False)
        dacc += n
        dzlp = 1 if (n == mps and (dacc - 1) in prod.lasts) else 0
        assert hacc == dacc, "reference model: after a delivered ACK host and device agree"
        return (hacc, hexp, None, dacc, dzlp, 0, n)


def make(cfg, tier):
    return BulkInSpec(cfg, tier)
