# C20 - Everything the USB2 device transmits is a well-formed, solicited packet.
# DUT: the richest device the library offers on one UTMI bus (full speed):
#   control endpoint 0 (standard request handlers, ep0 mps 8, small descriptor set) + bulk IN ep1 (USBStreamInEndpoint, mps 2)
#   + bulk OUT ep1 (USBStreamOutEndpoint, mps 2) + interrupt-style IN ep2 (USBSignalInEndpoint) + a passive probe endpoint
#   (only to read the device's current address, which defines "addressed to it").
# Environment: rtlmc.env.usb2_host.Host(strict_wire=True) -- its wire monitor reports every cycle in which the device drives
# tx_valid (a) while a host packet is being received, (b) after a packet that solicits nothing (SOF, host handshake, traffic
# for another address, OUT/SETUP token before its data), (c) after the response window.  WireHost below adds:
#   * every collected device packet must decode as exactly one packet: a 1-byte handshake with a valid PID or a DATAx
#     packet with correct CRC16 ("single transmitter": a second transmitter cutting in shows as extra/garbled bytes);
#   * tx_ready patterns: besides the configuration's base pattern, the transmission is re-run on forked copies of the
#     state under a family of per-byte stall patterns (bounded-exhaustive over {0,1} stalls on the first four bytes in
#     the thorough tier); every fork is held to the same rules;
#   * during a bus reset (SE0) the device may only transmit in a non-normal operating mode (chirp).
# One action = one complete legal host transaction (token [+ data] [+ handshake]); the menu is the union of the alphabets of
# the control / bulk / status endpoint harnesses.  "noisy" configurations add bus errors (bad CRC, truncated packets,
# rx_error, PING at full speed, stray handshakes/data); their rules carry the prefix "noisy-bus:".
from rtlmc.model import Violation
from rtlmc.explore import Spec
from rtlmc import usbref as U
from rtlmc.env.usb2_host import Host, J, K, SE0
from harness._usb2dev import build_device, small_descriptors

PROPERTY = "C20"
LEVEL_TEXT = ("All sequences (up to the depth bound, with state dedup) of legal host transactions -- control transfers (GET_DESCRIPTOR incl. "
              "multi-packet and ZLP-terminated, GET_STATUS, SET_ADDRESS, SET_CONFIGURATION, CLEAR_FEATURE, unsupported requests), bulk IN/OUT, "
              "status IN, lost handshakes, tokens for absent endpoints, SOFs, traffic for other addresses, bus resets -- are enumerated on the real "
              "USBDevice netlist under several byte pacings; every device transmission is additionally re-run under a family of tx_ready stall "
              "patterns on forked states.  Every cycle is monitored for unsolicited/overlapping transmission, every packet is decoded.")
TECHNIQUE = "explicit-state BFS, transaction-level macro steps, strict wire monitor, forked tx_ready pattern sweep"

A_NEW = 0x12
REQS = {
    "gdd18": U.setup_bytes(0x80, 6, 0x0100, 0, 18),      # device descriptor: 8 + 8 + 2
    "gdd8":  U.setup_bytes(0x80, 6, 0x0100, 0, 8),
    "gcfg":  U.setup_bytes(0x80, 6, 0x0200, 0, 0xFF),    # configuration descriptor (multiple of 8 -> terminated by a ZLP)
    "gstr":  U.setup_bytes(0x80, 6, 0x0302, 0x0409, 0xFF),
    "gst":   U.setup_bytes(0x80, 0, 0, 0, 2),
    "gconf": U.setup_bytes(0x80, 8, 0, 0, 1),
    "sa":    U.setup_bytes(0x00, 5, A_NEW, 0, 0),
    "sc":    U.setup_bytes(0x00, 9, 1, 0, 0),
    "clr":   U.setup_bytes(0x02, 1, 0, 0x81, 0),          # CLEAR_FEATURE(ENDPOINT_HALT) on IN ep1
    "vend":  U.setup_bytes(0xC0, 0x55, 1, 2, 4),          # unsupported, IN data stage
    "vout":  U.setup_bytes(0x40, 0x56, 1, 2, 3),          # unsupported, OUT data stage
}

# name -> action.  ("setup", req) | ("in", ep, ack) | ("out", ep, pid, n_bytes) | ("sof",) | ("other", kind) | ("reset",) | ("prod", mode) | ("cons", mode)
ACTS = {"sof": ("sof",), "reset": ("reset",),
        "o-in": ("other", "in"), "o-in+ack": ("other", "in+ack"), "o-out": ("other", "out"), "o-setup": ("other", "setup"),
        "p-full": ("prod", "full"), "p-short": ("prod", "short"), "p-off": ("prod", "off"), "c-stall": ("cons", 0), "c-run": ("cons", 1),
        # bus errors / illegal host behaviour (noisy configurations only)
        "n-outcrc": ("noisy", "out-badcrc"), "n-setupcrc": ("noisy", "setup-badcrc"), "n-trunc-token": ("noisy", "truncated-token"),
        "n-trunc-data": ("noisy", "truncated-data"), "n-rxerr": ("noisy", "rx-error-data"), "n-ping0": ("noisy", "ping0"), "n-ping1": ("noisy", "ping1"),
        "n-ack": ("noisy", "stray-ack"), "n-data": ("noisy", "stray-data"), "n-tokcrc": ("noisy", "in-token-badcrc"),
        "n-token-only": ("noisy", "out-token-only"), "n-setup-short": ("noisy", "setup-7-bytes")}
for r in REQS: ACTS["s-" + r] = ("setup", r)
for ep in (0, 1, 2, 3):
    ACTS["in%d+" % ep] = ("in", ep, 1); ACTS["in%d-" % ep] = ("in", ep, 0)
for ep in (0, 1, 5):
    for pid, pn in ((U.DATA0, "d0"), (U.DATA1, "d1")):
        for n in (0, 1, 2):
            ACTS["o%d%s.%d" % (ep, pn, n)] = ("out", ep, pid, n)

STALLS_QUICK = [(0,), (1,), (0, 1), (1, 0), (3,)]
STALLS_THOROUGH = [tuple((i >> b) & 1 for b in range(4)) for i in range(16)] + [(2,), (7,), (0, 0, 3)]


def configs(tier):
    q = tier == "quick"
    d = (lambda a, b: a) if q else (lambda a, b: b)
    t = lambda gap, pace, base, depth, acts, noisy=False: dict(gap=gap, pace=pace, base=list(base), depth=depth, acts=acts, noisy=noisy)
    cs = [
        # control transfers with a data stage against bulk / status traffic
        t(1, 1, (0,), d(8, 10), ["s-gdd18", "in0+", "in0-", "o0d1.0", "in1+", "in2+", "o1d0.1", "sof"]),
        t(1, 1, (1,), d(8, 10), ["s-gst", "s-vend", "in0+", "o0d1.0", "in1-", "in1+", "o1d0.2", "o1d1.2", "c-stall"]),
        t(2, 1, (0,), d(8, 10), ["s-gcfg", "in0+", "in0-", "o0d1.0", "in2-", "in2+", "o-in+ack"]),
        # requests without data stage, address change, reset
        t(1, 1, (0, 1), d(8, 10), ["s-sa", "s-sc", "s-clr", "in0+", "in0-", "in1+", "o-in", "reset"]),
        t(3, 1, (0,), d(8, 10), ["s-sa", "s-gdd8", "in0+", "o0d1.0", "in1+", "o1d0.1", "o-out", "o-setup", "reset"]),
        # unsupported requests / OUT data stage / absent endpoints
        t(1, 1, (1, 0), d(8, 10), ["s-vout", "s-vend", "o0d1.1", "o0d0.2", "in0+", "in3+", "o5d0.1", "in1+"]),
        # bulk + status endpoints with producer / consumer switching
        t(1, 1, (0,), d(7, 9), ["in1+", "in1-", "in2+", "in2-", "o1d0.2", "o1d1.2", "p-short", "p-off", "c-stall", "c-run"]),
        t(1, 2, (2,), d(7, 9), ["in1+", "in1-", "o1d0.1", "o1d1.0", "s-gst", "in0+", "o0d1.0", "p-short", "sof"]),
        # realistic full-speed byte pacing (8 cycles of the 12 MHz UTMI clock per byte, both directions)
        t(2, 8, (7,), d(6, 9), ["s-gdd18", "in0+", "o0d1.0", "in1+", "in2+", "o1d0.1", "s-sa"]),
        t(4, 8, (7,), d(6, 9), ["s-gst", "s-sc", "in0+", "in0-", "in1-", "o1d1.2", "sof", "o-in+ack"]),
        # bus errors
        t(1, 1, (0,), d(7, 9), ["s-gdd8", "in0+", "in1+", "o1d0.1", "n-outcrc", "n-setupcrc", "n-trunc-token", "n-trunc-data", "n-ack"], True),
        t(1, 1, (1,), d(7, 9), ["s-gst", "in0+", "o0d1.0", "in1-", "o1d0.2", "n-rxerr", "n-ping0", "n-ping1", "n-data", "n-tokcrc"], True),
        t(2, 1, (0,), d(7, 9), ["s-sc", "s-gdd18", "in0+", "in0-", "in2+", "n-token-only", "n-setup-short", "n-ack", "n-data"], True),
    ]
    if not q:
        cs += [
            t(1, 1, (0,), 6, ["s-gdd18", "s-gst", "s-sa", "s-sc", "s-vend", "in0+", "in0-", "o0d1.0", "in1+", "in1-", "in2+", "o1d0.1", "o1d1.1", "sof", "reset"]),
            t(1, 1, (1,), 7, ["s-gstr", "s-gconf", "s-clr", "in0+", "in0-", "o0d1.0", "o0d0.1", "in1+", "in2-", "o1d0.2", "in3-", "o5d1.2", "o-setup"]),
            t(6, 3, (0, 2), 8, ["s-gcfg", "s-gdd8", "in0+", "o0d1.0", "in1+", "in1-", "o1d0.0", "o1d1.1", "p-short", "c-stall", "c-run"]),
        ]
    return cs


class WireHost(Host):
    """Host + packet decoding + forked tx_ready stall-pattern sweep."""
    def __init__(self, base, alts, **kw):
        super().__init__(strict_wire=True, **kw)
        self.base, self.alts = tuple(base), [tuple(a) for a in alts if tuple(a) != tuple(base)]
        self.seen = []            # (classification) of packets collected on the main cursor during the current action
        self.n_forks = 0

    def assumptions(self):
        a = [x for x in super().assumptions() if not x.startswith("inter-packet gap")]
        return a + [f"inter-packet gap {self.gap} cycle(s); byte pacing 1 byte per {self.pace} cycle(s)",
                    f"tx_ready: stall pattern {self.base} (not-ready cycles before each byte, cyclic) on the explored path and patterns "
                    f"{self.alts} on forked copies of every transmission; tx_ready is low while the device is not transmitting"]

    def _collect_pat(self, cur, pat, raw):
        got = []
        i = 0
        for _ in range(600):
            for _ in range(pat[i % len(pat)]):
                o = raw(cur, line_state=K, tx_ready=0)
                if not o.tx_valid: return tuple(got)
            o = raw(cur, line_state=K, tx_ready=1)
            if not o.tx_valid: return tuple(got)
            got.append(o.tx_data); i += 1
        raise Violation("wire:endless-transmission", dict(bytes=len(got)))

    @staticmethod
    def _decode(pkt, ctx):
        c = U.classify_device_packet(pkt)
        if c[0] == "bad":
            raise Violation("wire:malformed-packet:" + c[1], dict(packet=[hex(b) for b in pkt], **ctx))
        return c

    def _collect(self, cur):
        for pat in self.alts:
            f = cur.fork()
            raw = lambda c, **kw: c.step(**{**self.extra, **kw})
            pkt = self._collect_pat(f, pat, raw)
            self._decode(pkt, dict(tx_ready_stalls=pat, fork=True))
            o = raw(f, line_state=K)
            for _ in range(self.gap + 2):
                if o.tx_valid: raise Violation("wire:transmission-after-response-window", dict(tx_ready_stalls=pat, fork=True))
                o = raw(f, line_state=J)
            self.n_forks += 1
        pkt = self._collect_pat(cur, self.base, self._cyc)
        self.seen.append(self._decode(pkt, dict(tx_ready_stalls=self.base)))
        return pkt


class WireSpec(Spec):
    n_validate = 4
    validate_max_cycles = 5000

    def __init__(self, cfg, tier):
        super().__init__(cfg, tier)
        self.max_depth = cfg["depth"]
        self.time_budget = 600 if tier == "quick" else 1500        # safety net; the depth bound limits the run
        self.noisy = cfg["noisy"]
        self.base_extra = dict(connect=1, in_valid=1, in_payload=0x5A, in_last=0, out_ready=1, sig=0xC3)
        self.host = WireHost(cfg["base"], STALLS_QUICK if tier == "quick" else STALLS_THOROUGH,
                             gap=cfg["gap"], pace=cfg["pace"], extra=dict(self.base_extra))
        self._acts = [ACTS[n] for n in cfg["acts"]]
        self._names = cfg["acts"]

    def build(self):
        from luna.gateware.usb.usb2.endpoints.stream import USBStreamInEndpoint, USBStreamOutEndpoint
        from luna.gateware.usb.usb2.endpoints.status import USBSignalInEndpoint
        design, h = build_device(control="standard", ep0_mps=8, descriptors=small_descriptors(8, 2), probe=True, endpoints=[
            lambda: USBStreamInEndpoint(endpoint_number=1, max_packet_size=2),
            lambda: USBStreamOutEndpoint(endpoint_number=1, max_packet_size=2),
            lambda: USBSignalInEndpoint(width=8, endpoint_number=2)])
        i1, o1, i2 = h["endpoints"]
        design.inputs.update(in_valid=i1.stream.valid, in_payload=i1.stream.payload, in_last=i1.stream.last, out_ready=o1.stream.ready, sig=i2.signal)
        design.defaults.update(self.base_extra)
        design.observes.update(op_mode=h["utmi"].op_mode)
        return design

    def assumptions(self):
        a = self.host.assumptions() + [
            "legal host at transaction level: token, then (OUT/SETUP) exactly one data packet, then (IN, if the device sent data) ACK or nothing; "
            "SETUP data is DATA0 with 8 bytes; transactions may follow each other in any order (abandoned control transfers, lost handshakes, "
            "retries are legal); 'addressed to the device' = token address equals the device's current address register (read through a passive probe endpoint)",
            "after a data packet for the device, or an IN token to it, the host waits up to 20 cycles for a response; after any other packet the next packet may follow after the gap",
            "bus reset = SE0 for 400 cycles; a transmission during SE0 is only accepted in a non-normal UTMI operating mode (chirp)",
            "bulk IN producer offers a constant byte (modes: always / every byte ends the transfer / off); bulk OUT consumer is ready or stalled (switched by explicit actions)"]
        if self.noisy:
            a.append("noisy configuration: additionally CRC-corrupted / truncated packets, rx_error, PING at full speed, stray handshakes and data packets; "
                     "after such a packet a device response is tolerated (not judged) only where the device could take the packet as addressed to it")
        return a

    # env = (producer mode, consumer ready)
    def env0(self): return ("full", 1)
    def actions(self, env): return self._acts

    def goals(self):
        n = set(self._names)
        g = ["handshake-decoded", "data-packet-decoded", "tx-ready-forks"]
        if n & {"s-gdd18", "s-gcfg"} and "in0+" in n: g.append("control-multi-packet-data")
        if "s-gcfg" in n and "in0+" in n: g.append("zlp-decoded")
        if n & {"s-vend", "s-vout"}: g.append("stall-decoded")
        if "s-sa" in n and "in0+" in n: g.append("address-changed")
        if "reset" in n: g.append("bus-reset")
        if n & {"in1+", "in1-"}: g.append("bulk-in-data")
        if n & {"in2+", "in2-"}: g.append("status-in-data")
        if any(x.startswith("o1") for x in n): g.append("bulk-out-acked")
        if "p-off" in n and n & {"in1+", "in1-"}: g.append("nak-decoded")
        if any(x.startswith("o-") for x in n): g.append("other-address-traffic")
        if self.noisy: g.append("bus-error-injected")
        return g

    def apply(self, cur, env, a):
        try:
            return self._apply(cur, env, a)
        except Violation as v:
            if self.noisy and not v.rule.startswith("noisy-bus:"):
                raise Violation("noisy-bus:" + v.rule, v.detail)
            raise

    def _apply(self, cur, env, a):
        prod, cons = env
        host = self.host
        ex = host.extra
        ex.clear(); ex.update(self.base_extra)
        ex["in_valid"] = 0 if prod == "off" else 1
        ex["in_last"] = 1 if prod == "short" else 0
        ex["out_ready"] = cons
        host.seen = []
        forks0 = host.n_forks
        addr = cur.peek(line_state=J, **ex).active_address
        other = 0x2A if addr != 0x2A else 0x2B
        k = a[0]
        if k == "prod":
            return None if a[1] == prod else (a[1], cons)        # takes no bus time
        if k == "cons":
            return None if a[1] == cons else (prod, a[1])
        if k == "sof":
            host.send(cur, U.sof(0x2D1), False)
        elif k == "reset":
            def watch(o):
                if o.tx_valid and o.op_mode == 0:
                    raise Violation("wire:transmission-during-bus-reset", dict(byte=o.tx_data))
            host.on_cycle = watch
            try:
                for _ in range(400): host._cyc(cur, line_state=SE0)
            finally:
                host.on_cycle = None
            host.idle(cur, 2)
            host._cyc(cur, line_state=K)
            host.idle(cur, host.gap)
            self.cover["bus-reset"] += 1
        elif k == "setup":
            host.send(cur, U.token(U.SETUP, addr, 0), False)
            host.send(cur, U.data_packet(U.DATA0, REQS[a[1]]), True)
        elif k == "in":
            resp = host.send(cur, U.token(U.IN, addr, a[1]), True)
            if resp is not None and a[2] and U.classify_device_packet(resp)[0] == "data":
                host.send(cur, U.handshake(U.ACK), False)
                if addr != cur.peek(line_state=J, **ex).active_address: self.cover["address-changed"] += 1
            if resp is not None:
                c = U.classify_device_packet(resp)
                if c[0] == "data":
                    if a[1] == 0 and len(c[2]) == 8: self.cover["control-multi-packet-data"] += 1
                    if len(c[2]) == 0: self.cover["zlp-decoded"] += 1
                    if a[1] == 1: self.cover["bulk-in-data"] += 1
                    if a[1] == 2: self.cover["status-in-data"] += 1
        elif k == "out":
            _, ep, pid, n = a
            host.send(cur, U.token(U.OUT, addr, ep), False)
            resp = host.send(cur, U.data_packet(pid, (0x61, 0x62)[:n]), True)
            if ep == 1 and resp is not None:
                c = U.classify_device_packet(resp)
                if c == ("hs", U.ACK): self.cover["bulk-out-acked"] += 1
        elif k == "other":
            # traffic between the host and another device on the same bus: this device sees the host's packets only
            if a[1] in ("in", "in+ack"):
                host.send(cur, U.token(U.IN, other, 1), False)
                if a[1] == "in+ack":
                    host.idle(cur, 6)                       # the other device's data packet is not visible downstream
                    host._cyc(cur, line_state=K)
                    host.send(cur, U.handshake(U.ACK), False)
            elif a[1] == "out":
                host.send(cur, U.token(U.OUT, other, 1), False)
                host.send(cur, U.data_packet(U.DATA0, (0x99,)), False)
            else:
                host.send(cur, U.token(U.SETUP, other, 0), False)
                host.send(cur, U.data_packet(U.DATA0, REQS["gst"]), False)
            self.cover["other-address-traffic"] += 1
        elif k == "noisy":
            self._noisy(cur, a[1], addr)
            self.cover["bus-error-injected"] += 1
        else:
            raise ValueError(a)
        for c in host.seen:
            if c[0] == "hs":
                self.cover["handshake-decoded"] += 1
                if c[1] == U.STALL: self.cover["stall-decoded"] += 1
                if c[1] == U.NAK: self.cover["nak-decoded"] += 1
            else:
                self.cover["data-packet-decoded"] += 1
        if host.n_forks > forks0: self.cover["tx-ready-forks"] += host.n_forks - forks0
        self.outcomes.add((k, tuple(host.seen)))
        return env

    def _noisy(self, cur, kind, addr):
        host = self.host
        if kind == "out-badcrc":
            host.send(cur, U.token(U.OUT, addr, 1), False)
            host.send(cur, U.data_packet(U.DATA0, (0x61,), corrupt=True), True)
        elif kind == "setup-badcrc":
            host.send(cur, U.token(U.SETUP, addr, 0), False)
            host.send(cur, U.data_packet(U.DATA0, REQS["gst"], corrupt=True), True)
        elif kind == "setup-7-bytes":
            host.send(cur, U.token(U.SETUP, addr, 0), False)
            host.send(cur, U.data_packet(U.DATA0, REQS["gst"][:7]), True)
        elif kind == "truncated-token":
            host.send(cur, U.token(U.IN, addr, 1), False, abort_after=2)
        elif kind == "truncated-data":
            host.send(cur, U.token(U.OUT, addr, 1), False)
            host.send(cur, U.data_packet(U.DATA0, (0x61, 0x62)), True, abort_after=2)
        elif kind == "rx-error-data":
            host.send(cur, U.token(U.OUT, addr, 1), False)
            host.send(cur, U.data_packet(U.DATA0, (0x61, 0x62)), True, rx_error_at=1)
        elif kind == "ping0":
            host.send(cur, U.token(U.PING, addr, 0), True)
        elif kind == "ping1":
            host.send(cur, U.token(U.PING, addr, 1), True)
        elif kind == "stray-ack":
            host.send(cur, U.handshake(U.ACK), False)
        elif kind == "stray-data":
            host.send(cur, U.data_packet(U.DATA1, (0x61,)), True)
        elif kind == "in-token-badcrc":
            p = U.token(U.IN, addr, 1)
            host.send(cur, (p[0], p[1], p[2] ^ 0x80), False)
        elif kind == "out-token-only":
            host.send(cur, U.token(U.OUT, addr, 1), False)
        else:
            raise ValueError(kind)


def make(cfg, tier):
    return WireSpec(cfg, tier)
