# C45 - TransactionPacketGenerator: each request (ACK / STALL / NRDY / ERDY) made while the generator is ready
# produces exactly one transaction packet of that subtype carrying the fields present at the request.
#
# Per-cycle closure.  Every cycle the environment picks: at most one request strobe, a value for every field input
# (fields are free to change in every cycle, in particular right after the request), and header_source.ready.
#
# Oracle (written from the USB 3.2 transaction-packet format, section 8.5, not from the class' record layouts):
#   DW0[4:0] type = 0b00100 (transaction packet), DW0[31:25] device address,
#   DW1[3:0] subtype (ACK 1, NRDY 2, ERDY 3, STALL 5), DW1[11:8] endpoint number,
#   ACK only: DW1[6] retry, DW1[25:21] sequence number.
# A request strobed in a cycle in which interface.ready is high is queued with the field values of that cycle; every
# header transfer (valid & ready) must be the oldest queued request; a transfer with nothing queued is spurious;
# a queued request must be delivered within LIVENESS cycles once the header queue is held ready (lookahead probe).
from rtlmc.model import Design, Violation
from rtlmc.explore import Spec

PROPERTY = "C45"
LEVEL_NOTE = ("Closure of the generator under all per-cycle choices of request strobe (one at a time), field values "
              "from a distinguishing alphabet and header-queue ready; liveness by bounded lookahead from every state.")

SUBTYPE = dict(ack=1, nrdy=2, erdy=3, stall=5)
REQS = ("ack", "stall", "nrdy", "erdy")
LIVENESS = 8


def configs(tier):
    if tier == "quick":
        # two complementary bit patterns per field
        return [dict(addr=[0x2A, 0x55], ep=[5, 10], retry=[0, 1], seq=[0x0A, 0x15], name="2x2x2x2")]
    return [dict(addr=[0x00, 0x2A, 0x55, 0x7F], ep=[0, 5, 10, 15], retry=[0, 1], seq=[0, 0x0A, 0x15, 0x1F], name="4x4x2x4")]


class TPGSpec(Spec):
    n_validate = 8

    def __init__(self, cfg, tier):
        super().__init__(cfg, tier)
        profiles = [(a, e, r, s) for a in cfg["addr"] for e in cfg["ep"] for r in cfg["retry"] for s in cfg["seq"]]
        self._acts = [(req, p, rdy) for req in (None,) + REQS for p in profiles for rdy in (0, 1)]
        self.time_budget = 35 if tier == "quick" else 800

    def build(self):
        from luna.gateware.usb.usb3.protocol.transaction import TransactionPacketGenerator
        d = TransactionPacketGenerator()
        i, h = d.interface, d.header_source
        ins = dict(address=d.address, endpoint_number=i.endpoint_number, retry_required=i.retry_required,
                   next_sequence=i.next_sequence, send_ack=i.send_ack, send_stall=i.send_stall, send_nrdy=i.send_nrdy,
                   send_erdy=i.send_erdy, hq_ready=h.ready)
        obs = dict(valid=h.valid, dw0=h.header.dw0, dw1=h.header.dw1, ready=i.ready, done=i.done)
        return Design(d, ins, obs)

    def env0(self):
        return ()          # queue of accepted, not yet delivered requests: tuples (req, addr, ep, retry, seq)

    def actions(self, env):
        return self._acts

    def assumptions(self):
        return ["at most one of send_ack/send_stall/send_nrdy/send_erdy is strobed per cycle",
                "endpoint numbers are 0..15 (the transaction packet has a 4-bit endpoint field)",
                "a request strobed while interface.ready is low is not a request (must not produce a packet)",
                "retry flag and sequence number are compared for ACK packets only (the other subtypes have no such fields)",
                "field values are compared in the cycle of the header transfer (valid & ready)",
                f"liveness bound: an accepted request is transferred within {LIVENESS} cycles of the header queue being held ready"]

    @staticmethod
    def check_header(o, want):
        req, addr, ep, retry, seq = want
        if (o.dw0 & 0x1F) != 0b00100:
            raise Violation("header-type-not-transaction", dict(dw0=hex(o.dw0), request=want))
        sub = o.dw1 & 0xF
        if sub != SUBTYPE[req]:
            raise Violation(f"wrong-subtype:{req}", dict(got_subtype=sub, expected=SUBTYPE[req], request=want, dw1=hex(o.dw1)))
        if (o.dw0 >> 25) != addr:
            raise Violation(f"wrong-field:device_address:{req}", dict(got=o.dw0 >> 25, request=want))
        if ((o.dw1 >> 8) & 0xF) != ep:
            raise Violation(f"wrong-field:endpoint_number:{req}", dict(got=(o.dw1 >> 8) & 0xF, request=want))
        if req == "ack":
            if ((o.dw1 >> 6) & 1) != retry:
                raise Violation("wrong-field:retry:ack", dict(got=(o.dw1 >> 6) & 1, request=want))
            if ((o.dw1 >> 21) & 0x1F) != seq:
                raise Violation("wrong-field:sequence_number:ack", dict(got=(o.dw1 >> 21) & 0x1F, request=want))

    def observe(self, o, q, req, prof, rdy):
        """one cycle of the reference; returns the new queue"""
        if o.valid and rdy:
            if not q:
                raise Violation("spurious-packet", dict(dw0=hex(o.dw0), dw1=hex(o.dw1)))
            self.check_header(o, q[0])
            self.cover["delivered:" + q[0][0]] += 1
            q = q[1:]
        if req is not None:
            if o.ready:
                q = q + ((req,) + tuple(prof),)
                self.cover["accepted:" + req] += 1
            else:
                self.cover["request-while-busy"] += 1
        return q

    def apply(self, cur, env, a):
        req, prof, rdy = a
        kw = dict(address=prof[0], endpoint_number=prof[1], retry_required=prof[2], next_sequence=prof[3], hq_ready=rdy)
        if req is not None: kw["send_" + req] = 1
        o = cur.step(**kw)
        q = self.observe(o, env, req, prof, rdy)
        if o.valid and not rdy: self.cover["stalled"] += 1
        if len(q) > 2:
            raise Violation("more-than-two-requests-outstanding", dict(queue=q))
        if q:
            # liveness probe: with no further requests and the queue held ready, everything queued gets delivered
            f = cur.fork(); qq = q
            other = tuple(x ^ m for x, m in zip(prof, (0x7F, 0xF, 1, 0x1F)))     # all fields changed after the request
            for _ in range(LIVENESS):
                of = f.step(address=other[0], endpoint_number=other[1], retry_required=other[2], next_sequence=other[3], hq_ready=1)
                if of.valid: qq = qq[1:]          # content is checked when the explored path itself gets there
                if not qq: break
            if qq:
                raise Violation(f"request-never-delivered:{qq[0][0]}", dict(queue=qq, cycles_waited=LIVENESS))
        self.outcomes.add((o.valid, o.ready, o.done, o.dw1 & 0xF if o.valid else 0))
        return q

    def goals(self):
        return ["accepted:ack", "accepted:stall", "accepted:nrdy", "accepted:erdy", "stalled", "request-while-busy", "delivered:ack", "delivered:stall", "delivered:nrdy"]


def make(cfg, tier):
    return TPGSpec(cfg, tier)
