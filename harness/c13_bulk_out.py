# C13 - Bulk OUT endpoints ACK exactly the data they deliver.
# DUT: USBDevice (full speed, UTMI) + USBStreamOutEndpoint(ep 1, mps, buffer_size); the consumer of the endpoint's
# output stream (`ready`) is part of the environment.  Macro-step mode: one action = one host transaction
# (OUT token + DATA packet + the device's handshake, or PING + handshake) with a consumer window placed anywhere
# inside it, or a consumer-only action.
#
# Oracle (reference queue written from the statement): after every action the beats the consumer took during the
# action followed by everything a lookahead drain gets out of the endpoint must equal the reference queue
#   old queue  ++  (payload of this packet  iff  it was a CRC-valid packet with the expected toggle that the device ACKed)
# with `last` exactly on the final byte of a short (< mps) packet and `first` exactly on the first byte after a
# short packet (or after reset).  ACK is only admitted for such a delivered packet or for a repeated toggle; a valid
# packet must be answered; NAK is only admitted when less than max_packet_size was free at some point of the
# transaction (class documentation: "if there isn't max_packet_size space in the endpoint buffer, this endpoint
# will NAK"); PING must be answered; NAK is only admitted when less than mps bytes were free at some point, ACK only if
# a max-size packet sent right afterwards (lookahead on a fork, consumer stalled) is in fact taken.  buffer_size is
# only used as a *lower* bound of what the endpoint can hold (hidden buffering is admitted).
from rtlmc.model import Violation, MachineryError
from rtlmc.explore import Spec
from rtlmc import usbref as U
from rtlmc.env.usb2_host import PruneCollision, J, K, SE0
from harness._usb2dev import build_device
from harness._outstream import StreamHost, payload_bytes, diff_kind

PROPERTY = "C13"
LEVEL_TEXT = ("All sequences (up to the depth bound) of bulk OUT transactions (payload sizes 0..mps, expected or repeated data toggle, good or "
              "corrupted CRC16), PING transactions, OUT transactions to another endpoint and consumer activity (drain k beats between "
              "transactions, or a ready window placed at chosen offsets inside a transaction) are enumerated on the real USBDevice + "
              "USBStreamOutEndpoint netlist; after every action the handshake seen on the UTMI wire and the complete contents of the output "
              "stream (lookahead drain) are compared with a reference queue.")
TECHNIQUE = "explicit-state BFS over the elaborated netlist, macro-step (transaction-level) actions, reference queue + lookahead drain"

EP = 1


def configs(tier):
    # mps / buf: max_packet_size and buffer_size of the endpoint (2*mps-1 is the class default); gap, pace: host timing;
    # win: which consumer windows are placed inside transactions; clk60: the 60 MHz (ULPI PHY) flavour of USBDevice;
    # ctrl: device with a standard control endpoint next to the OUT endpoint; hs: the 60 MHz flavour after a high-speed
    # chirp handshake (run once in the prologue), i.e. with the 1-cycle inter-packet delay of a high-speed device
    def c(mps, buf, depth, win, gap=1, pace=1, **kw): return dict(mps=mps, buf=buf, gap=gap, pace=pace, depth=depth, win=win, **kw)
    if tier == "quick":
        return [c(2, 3, 4, "few"), c(2, 3, 4, "min", gap=12, clk60=1), c(2, 2, 4, "few"), c(2, 4, 4, "min", gap=2), c(2, 6, 4, "min"),
                c(3, 5, 4, "min"), c(3, 3, 3, "few", pace=2), c(3, 5, 3, "few", gap=12, clk60=1), c(4, 7, 3, "min"), c(2, 3, 3, "sweep"),
                c(2, 3, 4, "min", ctrl=1), c(2, 3, 4, "min", hs=1), c(3, 5, 3, "min", hs=1)]
    return [c(2, 3, 6, "min"), c(2, 3, 5, "few"), c(2, 3, 5, "few", gap=12, clk60=1), c(2, 2, 6, "min"), c(2, 2, 5, "few"), c(2, 4, 5, "few", gap=2),
            c(2, 6, 5, "few"), c(3, 5, 5, "min"), c(3, 3, 5, "min", pace=2), c(3, 6, 5, "min", gap=3), c(3, 9, 5, "min"),
            c(3, 5, 4, "few", gap=12, clk60=1), c(4, 7, 4, "few"), c(4, 4, 4, "few", pace=8), c(2, 3, 4, "sweep"), c(3, 5, 3, "sweep", gap=12, clk60=1),
            c(2, 3, 5, "few", ctrl=1), c(3, 5, 4, "few", ctrl=1),
            c(2, 3, 5, "few", hs=1), c(3, 5, 4, "few", hs=1), c(4, 7, 4, "min", hs=1), c(2, 2, 4, "few", hs=1), c(2, 3, 3, "sweep", hs=1)]


class BulkOutSpec(Spec):
    n_validate = 4
    validate_max_cycles = 4000

    def __init__(self, cfg, tier):
        super().__init__(cfg, tier)
        self.mps, self.cap = cfg["mps"], cfg["buf"]
        self.max_depth = cfg["depth"]
        if cfg.get("hs"):
            self.n_validate = 1                 # each replay in amaranth.sim has to run the 121k-cycle chirp handshake first
            self.validate_max_cycles = 130000
        self.time_budget = 600 if tier == "quick" else 1800
        self.host = StreamHost(self._decode, gap=cfg["gap"], pace=cfg["pace"], extra=dict(connect=1))
        h = self.host
        self.t_tok = h.event_cycles_no_response(3)
        mode = cfg["win"]
        # consumer windows: (offset relative to the end of the data packet / PING token, length); None = not ready,
        # "all" = ready during the whole action
        if mode == "min": rel = [(-2, 1), (2, 2)]
        elif mode == "few": rel = [(-3, 1), (1, 1), (3, 2), (10, 1)]
        else: rel = [(s, n) for s in range(-(4 + self.mps) * cfg["pace"], 16) for n in (1, 2)]
        self.rel = rel
        acts = []
        lens = list(range(self.mps + 1))
        for L in lens:
            eop = self.t_tok + h.packet_cycles(3 + L)
            wins = [(0, 0), (0, 100000)] + [(eop + s, n) for s, n in rel]
            for s, n in wins:
                acts.append(("out", "exp", L, "ok", s, n))
            for s, n in (wins[:2] if mode != "sweep" else wins[:1]):
                acts.append(("out", "rep", L, "ok", s, n))
                acts.append(("out", "exp", L, "bad", s, n))
            acts.append(("out", "rep", L, "bad", 0, 0))
        eop = h.packet_cycles(3)
        pw = [(0, 0), (0, 100000)] + [(eop + s, n) for s, n in (rel if mode == "sweep" else [(8, 1), (9, 1), (10, 1), (11, 1)])]
        for s, n in pw:
            acts.append(("ping", s, n))
        acts.append(("other", self.mps))
        self._acts_nodrain = acts
        self._drains = [("drain", 1), ("drain", 2), ("drain", self.cap + 2)]

    # ---- DUT
    def build(self):
        from luna.gateware.usb.usb2.endpoints.stream import USBStreamOutEndpoint
        mk = lambda: USBStreamOutEndpoint(endpoint_number=EP, max_packet_size=self.mps, buffer_size=self.cap)
        # ctrl configurations: the device also carries a standard control endpoint, as every real device does (its SETUP
        # decoder shares the inter-packet timer with the data receiver); it is never addressed by this host.
        design, h = build_device(control="standard" if self.cfg.get("ctrl") else None, endpoints=[mk], probe=False)
        ep = h["endpoints"][0]
        if self.cfg.get("hs"):
            dev = h["dev"]
            dev.data_clock, dev.always_fs = 60e6, False
        if self.cfg.get("clk60"):
            # the configuration USBDevice gives itself behind a ULPI PHY (60 MHz usb domain, inter-packet delays counted
            # in 60 MHz cycles), kept at full speed through its full_speed_only input; the UTMI wire is driven directly.
            dev = h["dev"]
            dev.data_clock, dev.always_fs = 60e6, False
            design.inputs.update(full_speed_only=dev.full_speed_only)
            design.defaults.update(full_speed_only=1)
        design.inputs.update(ready=ep.stream.ready)
        design.observes.update(valid=ep.stream.valid, payload=ep.stream.payload, first=ep.stream.first, last=ep.stream.last)
        return design

    @staticmethod
    def _decode(o):
        return (o.payload, o.first, o.last)

    def assumptions(self):
        return self.host.assumptions() + [
            "clk60 configurations: USBDevice as it configures itself behind a ULPI PHY (data_clock 60 MHz, not always_fs) held at full speed by full_speed_only=1, UTMI wire driven directly; the host then leaves 12 cycles between packets (the 2 bit times = 10 cycles inter-packet delay)",
            "hs configurations: the same 60 MHz device after a bus reset and a complete high-speed chirp handshake (run once before the exploration); the line state is then kept non-SE0 between packets so that the high-speed suspend/reset timer never runs",
            "device at address 0, full speed (no high-speed negotiation) except in the hs configurations; PING tokens are sent although a full-speed host would not use them",
            "the host sends DATA0/DATA1 with the toggle it expects; a repeated toggle is only sent after at least one packet was ACKed (lost-ACK retransmission)",
            "payloads never exceed max_packet_size; every DATA packet is preceded by its OUT token",
            "a handshake the host cannot decode counts as no handshake",
            "consumer: `ready` is high in one contiguous window per action (or never / always); it takes a beat whenever valid & ready"]

    def prologue(self, cur):
        """hs flavour: bus reset + high-speed chirp handshake, so that the device answers with high-speed timing"""
        if not self.cfg.get("hs"): return None
        def hold(n, line):
            while n > 0:
                k, _, last = cur.hold(n, line_state=line, connect=1)
                n -= k
            return last
        hold(310, SE0)                          # > 5 us of SE0: bus reset, the device starts its chirp
        hold(120010, K)                         # the device chirps K for 2 ms
        hold(10, SE0)
        for _ in range(3):                      # host chirp K-J-K-J-K-J, each > 2.5 us
            hold(160, K); last = hold(160, J)
        if last.speed != 0:
            raise MachineryError("high-speed handshake did not leave the device at high speed")
        self.host.begin(None)
        self.host.idle(cur, 4); self.host.settle(cur)
        return None

    # ---- environment / reference
    # env = (queue, toggle, active, acked_any, disturb)
    #   queue    reference contents of the endpoint: tuple of (byte, first, last)
    #   toggle   data toggle the endpoint must expect next
    #   active   1 iff the last accepted packet was a full-size one (a transfer is in progress)
    #   disturb  context for flag-violation signatures: what happened since the last accepted non-empty packet
    def env0(self): return ((), 0, 0, 0, ())

    def actions(self, env):
        queue, toggle, active, acked_any, disturb = env
        acts = self._acts_nodrain if acked_any else [a for a in self._acts_nodrain if not (a[0] == "out" and a[1] == "rep")]
        if queue: acts = acts + self._drains
        return acts

    def goals(self):
        return ["acked-full", "acked-short", "acked-zlp", "naked-no-room", "repeat-acked", "corrupt-ignored", "ping-ack", "ping-nak",
                "taken-during-transaction", "transfer-of-several-packets", "drained",
                "stalled:free=len-1", "stalled:free=len", "stalled:free=len+1"]

    def _entries(self, L, active):
        p = payload_bytes(L)
        return tuple((b, 1 if (i == 0 and not active) else 0, 1 if (i == L - 1 and L < self.mps) else 0) for i, b in enumerate(p))

    def _handshake(self, resp):
        if resp is None: return None
        k = U.classify_device_packet(resp)
        return k[1] if k[0] == "hs" else "garbage"

    def apply(self, cur, env, a):
        try:
            return self._apply(cur, env, a)
        except PruneCollision:
            self.cover["pruned-collision"] += 1
            return None

    def _apply(self, cur, env, a):
        queue, toggle, active, acked_any, disturb = env
        host, mps, cap = self.host, self.mps, self.cap
        kind = a[0]
        new_entries = ()
        ping_acked = False
        n_toggle, n_active, n_acked, n_disturb = toggle, active, acked_any, disturb
        context = None
        if kind == "drain":
            host.begin((0, a[1]))
            host.idle(cur, a[1])
            host.settle(cur)
            context = "stream:changed-without-packet"
            self.cover["drained"] += 1
        elif kind == "other":
            host.begin(None)
            host.send(cur, U.token(U.OUT, 0, EP + 1), False)
            host.send(cur, U.data_packet(U.DATA0 if toggle == 0 else U.DATA1, payload_bytes(a[1])), True)
            context = "stream:foreign-endpoint-packet-contributed"
        elif kind == "ping":
            host.begin((a[1], a[2]))
            hs = self._handshake(host.send(cur, U.token(U.PING, 0, EP), True))
            free_min = cap - len(queue)
            if hs == U.ACK:
                ping_acked = True           # judged below by a lookahead: a max-size packet must now be taken
                self.cover["ping-ack"] += 1
            elif hs == U.NAK:
                if free_min >= mps: raise Violation("ping:nak-although-whole-packet-fits", dict(action=a, free=free_min, mps=mps))
                self.cover["ping-nak"] += 1
            else:
                raise Violation("ping:no-handshake", dict(action=a, response=hs))
            context = "stream:changed-without-packet"
        else:
            _, tgl, L, var, s, n = a
            host.begin((s, n) if n else None)
            t = toggle if tgl == "exp" else 1 - toggle
            host.send(cur, U.token(U.OUT, 0, EP), False)
            resp = host.send(cur, U.data_packet(U.DATA1 if t else U.DATA0, payload_bytes(L), corrupt=(var == "bad")), True)
            hs = self._handshake(resp)
            free_min = cap - len(queue)
            if host.consumed and n < 100000: self.cover["taken-during-transaction"] += 1
            if n == 0 and L and var == "ok" and tgl == "exp" and abs(free_min - L) <= 1:
                self.cover["stalled:free=len%+d" % (free_min - L) if free_min != L else "stalled:free=len"] += 1
            if var == "bad":
                if hs == U.ACK: raise Violation("out:ack-on-corrupt-packet", dict(action=a))
                context = "stream:corrupt-packet-contributed"
                if tgl == "exp" and L: n_disturb = tuple(sorted(set(disturb) | {"discarded"}))
                self.cover["corrupt-ignored"] += 1
            elif tgl == "rep":
                context = "stream:repeated-toggle-packet-contributed"
                if hs == U.ACK: self.cover["repeat-acked"] += 1
            else:
                if hs == U.ACK:
                    new_entries = self._entries(L, active)
                    n_toggle = 1 - toggle
                    n_acked = 1
                    if L:
                        n_active = 1 if L == mps else 0
                        n_disturb = ()
                        if active: self.cover["transfer-of-several-packets"] += 1
                    else:
                        n_active = 0
                        n_disturb = tuple(sorted(set(disturb) | {"zlp"}))
                    self.cover["acked-full" if L == mps else ("acked-short" if L else "acked-zlp")] += 1
                elif hs == U.NAK:
                    if free_min >= mps:
                        raise Violation("out:nak-although-whole-packet-fits", dict(action=a, free=free_min, mps=mps, queue=queue))
                    context = "stream:naked-packet-contributed"
                    if L: n_disturb = tuple(sorted(set(disturb) | {"discarded"}))
                    self.cover["naked-no-room"] += 1
                else:
                    raise Violation("out:no-handshake-for-valid-packet", dict(action=a, response=resp))
        consumed = tuple(host.consumed)
        rest = host.drain_probe(cur, 2 * cap + 10)     # generous: idle cycles between beats and a few hidden entries are fine
        observed = consumed + rest
        expected = queue + new_entries
        if observed != expected:
            if new_entries:
                if observed == queue:
                    raise Violation("out:ack-without-delivery", dict(action=a, queue=queue, lost=new_entries))
                k = diff_kind(observed, expected)
                if k == "bytes":
                    raise Violation("stream:acked-payload-not-delivered-exactly-once", dict(action=a, expected=expected, observed=observed))
                raise Violation("stream:" + k + ("-after-" + "+".join(disturb) if disturb else ""),
                                dict(action=a, expected=expected, observed=observed, since_last_accepted_data=disturb))
            k = diff_kind(observed, expected)
            raise Violation(context if k == "bytes" else "stream:" + k + "-on-queued-data", dict(action=a, expected=expected, observed=observed))
        if ping_acked:
            # "NAKs when it cannot take a whole packet": a PING was ACKed, so (the consumer can only have made more room
            # since) a max-size packet sent right now with the consumer stalled must be taken.  Asked of the device itself
            # on a fork rather than computed from buffer_size, so hidden buffering (output registers ...) is admitted.
            f = cur.fork()
            host.begin(None)
            try:
                host.send(f, U.token(U.OUT, 0, EP), False)
                r = self._handshake(host.send(f, U.data_packet(U.DATA1 if toggle else U.DATA0, payload_bytes(mps)), True))
                if r != U.ACK:
                    raise Violation("ping:ack-without-room", dict(action=a, queue=expected[len(consumed):], mps=mps, buffer_size=cap,
                                                                   next_max_size_packet_answered=r))
            except PruneCollision:
                pass
        self.outcomes.add((kind, a[1] if kind == "out" else None, len(new_entries), len(consumed)))
        return (expected[len(consumed):], n_toggle, n_active, n_acked, n_disturb)


def make(cfg, tier):
    return BulkOutSpec(cfg, tier)
