# C14 - data toggles advance only on success; CLEAR_FEATURE(ENDPOINT_HALT) resets exactly the named endpoint's toggle.
# DUT: USBDevice (full speed, UTMI) + standard control endpoint + USBStreamInEndpoint(ep 1) + USBStreamOutEndpoint(ep 1) +
# USBStreamInEndpoint(ep 2), all mps 2, driven on the wire by the packet-level host.  Macro-step mode: one action = one
# host transaction (bulk IN/OUT, SETUP stage, status/data stage of the control transfer, traffic of another device).
#
# Oracle: a reference sequence bit per (endpoint number, direction), kept as the set of values the statement allows.
# After every transaction the three toggles of the reached DUT state are *measured on the wire* by lookahead on copies
# (IN: PID of the next data packet; OUT: is a DATA0 packet taken as new data or skipped as a repetition) and compared.
from rtlmc.model import Violation
from rtlmc.explore import Spec
from rtlmc import usbref as U
from rtlmc.env.usb2_host import PruneCollision
from harness._usb2dev import build_device
from harness._usb2in import DrivenHost

PROPERTY = "C14"
LEVEL_TEXT = ("All interleavings (to closure) of bulk IN transactions on two endpoints with and without the host's ACK reaching the device, bulk OUT "
              "packets with either toggle and with bad CRC, complete / abandoned / STALLed CLEAR_FEATURE transfers naming every endpoint "
              "number and direction, GET_STATUS transfers, IN transactions of another device address, and the producer of endpoint 1 "
              "starting at every cycle offset of the following bus event, are enumerated on the real USBDevice netlist; after every "
              "transaction all three data toggles are measured on the wire by lookahead and compared with a reference.")
FOREIGN = 5
MPS = 2

REQS = {
    "CF81": U.setup_bytes(0x02, 1, 0, 0x0081, 0), "CF01": U.setup_bytes(0x02, 1, 0, 0x0001, 0),
    "CF82": U.setup_bytes(0x02, 1, 0, 0x0082, 0), "CF02": U.setup_bytes(0x02, 1, 0, 0x0002, 0),
    "CF83": U.setup_bytes(0x02, 1, 0, 0x0083, 0),
    "CFI81": U.setup_bytes(0x01, 1, 0, 0x0081, 0),      # recipient interface: not an endpoint request -> request error
    "CFV81": U.setup_bytes(0x02, 1, 1, 0x0081, 0),      # feature selector 1 is not ENDPOINT_HALT -> request error
    "SF81": U.setup_bytes(0x02, 3, 0, 0x0081, 0),       # SET_FEATURE(ENDPOINT_HALT): not CLEAR_FEATURE
    "GST": U.setup_bytes(0x80, 0, 0, 0, 2),             # GET_STATUS (2-byte IN data stage, OUT status stage)
}


def is_cf(r):
    """CFxx = CLEAR_FEATURE(ENDPOINT_HALT) to recipient endpoint with wIndex = 0x00xx"""
    return len(r) == 4 and r[:2] == "CF"


def request_bytes(r):
    return U.setup_bytes(0x02, 1, 0, int(r[2:], 16), 0) if is_cf(r) else REQS[r]


def names_endpoint(r):
    """(endpoint name a completed CFxx request must reset, reserved wIndex bits used).  wIndex: bit 7 direction, bits 3..0 number
    [USB 2.0 fig. 9-2]; bits 6..4 are reserved - when they are set the statement does not say whether the request names an
    endpoint, so the oracle then admits both 'reset' and 'not reset' for that endpoint (and still nothing else may change)."""
    w = int(r[2:], 16)
    return ("in" if w & 0x80 else "out") + str(w & 0xF), bool(w & 0x70)


def _cfg(reqs, gap=1, pace=1, ready=1, fin=0, delays=(), quiet=0, out=1, in2=2, last=0, badcrc=0):
    return dict(reqs=list(reqs), gap=gap, pace=pace, ready=ready, fin=fin, delays=list(delays), quiet=quiet, out=out, in2=in2, last=last, badcrc=badcrc)


def configs(tier):
    # out: is OUT ep1 part of the device;  in2: number of the second IN endpoint (0 = none);  CFxx: CLEAR_FEATURE(HALT), wIndex xx;  fin: traffic of another device address;  delays: cycle offsets
    # (from the start of the next bus event) at which the producer of IN ep1 may start;  last: that producer marks every byte `last`
    q = [_cfg(["CF81"]),
         _cfg(["CF01"], badcrc=1, in2=0),
         _cfg(["CF01", "GST"], gap=2, in2=0),
         _cfg(["CF82", "CF81"], out=0),
         _cfg(["CF83", "CF02", "CF82"], out=0, gap=2),
         _cfg(["CF81", "CFI81", "CFV81", "SF81"], out=0, in2=0),
         _cfg(["CF82"], out=0, fin=1, gap=3, ready=2),
         _cfg(["CF01"], in2=0, fin=1),
         _cfg(["CF81"], out=0, in2=0, delays=range(1, 33), last=1, quiet=1),
         _cfg(["CF81"], out=0, in2=0, delays=range(1, 33), last=0, gap=2),
         # endpoint numbers that alias the present ones modulo 8 / through the reserved wIndex bits
         _cfg(["CF09", "CF89", "CF01"], in2=0),
         _cfg(["CF8A", "CF0A", "CF82", "CF89"], out=0),
         _cfg(["CF89", "CF81", "CF09"], out=0, in2=9, gap=2),
         _cfg(["CF91", "CF11", "CFC1", "CF81"], in2=0)]
    if tier == "quick":
        return q
    t = [_cfg(["CF81", "CF01", "CF82"], quiet=1),
         _cfg(["CF01", "CF02", "CF83", "GST"], badcrc=1),
         _cfg(["CF81", "CF82", "CFI81", "CFV81", "SF81", "GST"], out=0, fin=1),
         _cfg(["CF81", "CF82", "GST"], out=0, pace=2, gap=4, ready=3, fin=1, quiet=1),
         _cfg(["CF81", "CF82"], out=0, delays=range(1, 41), last=1),
         _cfg(["CF81"], out=0, in2=0, delays=range(1, 49), last=0, gap=2, pace=2, ready=2, quiet=1),
         _cfg(["CF81", "CF89", "CF01", "CF09", "CF8F", "CF0F"], in2=9),
         _cfg(["CF82", "CF8A", "CF92", "CFA2", "CF12"], out=0, in2=10, gap=2, quiet=1)]
    return q + t


class Driver:
    """Application side: IN ep2 always has data; IN ep1 has data according to the level v1 (0 none, 1 always, k>1: from
    k-1 cycles on); the consumer of OUT ep1 is always ready and records what it is given."""
    def __init__(self, v1, last1, have_out, have_in2):
        self.v1, self.last1, self.have_out, self.have_in2 = v1, last1, have_out, have_in2
        self.out = []
        self._moved = True

    def inputs(self):
        self._moved = False
        if self.v1 > 1:
            self.v1 -= 1; self._moved = True
            d = dict(s1_valid=0)
        else:
            d = dict(s1_valid=self.v1, s1_payload=0xA7, s1_last=self.last1)
        if self.have_in2: d.update(s2_valid=1, s2_payload=0xB2)
        if self.have_out: d["o_ready"] = 1
        return d

    def observe(self, o):
        if self.have_out and o.o_valid:
            self.out.append(o.o_payload); self._moved = True

    def busy(self):
        return self._moved


class ToggleSpec(Spec):
    n_validate = 4
    validate_max_cycles = 3000

    def __init__(self, cfg, tier):
        super().__init__(cfg, tier)
        self.time_budget = 600 if tier == "quick" else 840
        self.host = DrivenHost(gap=cfg["gap"], pace=cfg["pace"], ready_period=cfg["ready"], extra=dict(connect=1))
        self.in2 = "in%d" % cfg["in2"] if cfg["in2"] else None
        self.eps = ("in1",) + (("out1",) if cfg["out"] else ()) + ((self.in2,) if self.in2 else ())
        self._probe_cache = {}

    def build(self):
        from luna.gateware.usb.usb2.endpoints.stream import USBStreamInEndpoint, USBStreamOutEndpoint
        mks = [lambda: USBStreamInEndpoint(endpoint_number=1, max_packet_size=MPS)]
        if self.cfg["out"]: mks.append(lambda: USBStreamOutEndpoint(endpoint_number=1, max_packet_size=MPS))
        if self.cfg["in2"]: mks.append(lambda: USBStreamInEndpoint(endpoint_number=self.cfg["in2"], max_packet_size=MPS))
        design, h = build_device(control="standard", ep0_mps=8, endpoints=mks, probe=False)
        eps = h["endpoints"]
        in1 = eps[0]
        design.inputs.update(s1_valid=in1.stream.valid, s1_payload=in1.stream.payload, s1_last=in1.stream.last)
        i = 1
        if self.cfg["out"]:
            o = eps[i]; i += 1
            design.inputs.update(o_ready=o.stream.ready)
            design.observes.update(o_valid=o.stream.valid, o_payload=o.stream.payload)
        if self.cfg["in2"]:
            in2 = eps[i]
            design.inputs.update(s2_valid=in2.stream.valid, s2_payload=in2.stream.payload)
        return design

    def assumptions(self):
        return self.host.assumptions() + [
            "device address 0; no SET_CONFIGURATION / SET_INTERFACE is issued (their effect on toggles is not part of the statement)",
            "a CLEAR_FEATURE whose wIndex has reserved bits (6..4) set may be STALLed or completed, and may or may not reset the endpoint its bits 7,3..0 name; nothing else may change",
            "a request 'completes' when the ACK of its status stage reaches the device; when that ACK is lost the named endpoint's toggle may or may not be reset (both admitted), every other toggle must be unchanged",
            "legal host at control-transfer level: IN/OUT tokens to endpoint 0 only while a control transfer it started is in the matching stage",
            "a transaction the host did not ACK (ACK lost or data not received) is modelled as 'no ACK sent'",
            "traffic to another device address is seen as a hub forwards it downstream: the token and the host's handshake",
            "the consumer of the OUT endpoint is always ready; IN endpoint 2 always has data; IN endpoint 1 has data according to a level that may fall/rise between bus events and, before a status stage, rise at every configured cycle offset into it",
            "toggles are measured by lookahead on copies of the reached state: IN = PID of the next data packet (un-ACKed), OUT = whether a DATA0 packet is delivered to the stream"]

    # env = (masks, ctrl, v1, q)   masks: per endpoint in self.eps the set of admissible toggle values as a bit mask (1 = {0}, 2 = {1}, 3 = both)
    #  ctrl: None | (request name, stage) with stage in "status" (status IN expected), "data" (GET_STATUS data IN), "sout" (status OUT)
    #  v1: level of IN ep1's producer;  q: 1 after a long idle period;  ua: the previous bus event was an IN transaction left un-ACKed
    def env0(self):
        return (tuple(1 for _ in self.eps), None, 1, 0, 0)

    def actions(self, env):
        masks, ctrl, v1, q, ua = env
        c = self.cfg
        acts = [("in", 1, 1), ("in", 1, 0)]
        if c["in2"]: acts += [("in", c["in2"], 1), ("in", c["in2"], 0)]
        if c["out"]:
            acts += [("out", 0, "ok"), ("out", 1, "ok")]
            if c["badcrc"]: acts += [("out", 0, "badcrc"), ("out", 1, "badcrc")]
        acts += [("setup", r) for r in c["reqs"]]
        if ctrl is not None:
            if ctrl[1] == "status": acts += [("status", 1), ("status", 0)]
            elif ctrl[1] == "data": acts += [("in0", 1), ("in0", 0)]
            elif ctrl[1] == "sout": acts.append(("out0",))
        if c["fin"]: acts.append(("fin",))
        if c["delays"]:
            # the producer may restart at once anywhere, and at every cycle offset of a status stage (where the reset is decided)
            if v1 != 0: acts.append(("v1", 0))
            elif ctrl is not None and ctrl[1] == "status": acts += [("v1", k) for k in c["delays"]]
            else: acts.append(("v1", 1))
        if c["quiet"] and not q: acts.append(("quiet",))
        return acts

    def goals(self):
        g = ["in-ack", "in-noack", "clear-halt-completed", "clear-halt-status-ack-lost", "clear-halt-abandoned", "reset-from-data1"]
        if self.cfg["out"]: g += ["out-accepted", "out-repeat-skipped"] + (["out-badcrc"] if self.cfg["badcrc"] else [])
        cfs = [names_endpoint(r) for r in self.cfg["reqs"] if is_cf(r)]
        if any(n not in self.eps and not rsv for n, rsv in cfs): g.append("clear-halt-of-absent-endpoint")
        if any(rsv for n, rsv in cfs): g.append("clear-halt-with-reserved-windex-bits")
        if any(r in ("CFI81", "CFV81", "SF81") for r in self.cfg["reqs"]): g.append("request-error-stalled")
        if self.cfg["fin"]: g.append("foreign-ack-while-in-unacked")
        if self.cfg["delays"]: g += ["in1-drained", "producer-starts-during-status-stage"]
        return g

    # ---- lookahead measurements (pure functions of the DUT state; memoised per state)
    def _measure(self, cur):
        key = cur.state
        r = self._probe_cache.get(key)
        if r is not None: return r
        host = self.host
        saved = host.driver
        res = []
        try:
            for ep in self.eps:
                f = cur.fork()
                host.driver = Driver(1, self.cfg["last"], self.cfg["out"], self.cfg["in2"])
                try:
                    if ep.startswith("in"):
                        for _ in range(2 * MPS + 8): host.tick(f)
                        resp = host.send(f, U.token(U.IN, 0, int(ep[2:])), True)
                        k = U.classify_device_packet(resp) if resp is not None else None
                        res.append((1 if k[1] == U.DATA1 else 0) if k is not None and k[0] == "data" and k[1] in (U.DATA0, U.DATA1) else None)
                    else:
                        host.send(f, U.token(U.OUT, 0, 1), False)
                        resp = host.send(f, U.data_packet(U.DATA0, (0x77,)), True)
                        for _ in range(12): host.tick(f)
                        if resp is None or U.classify_device_packet(resp) != ("hs", U.ACK): res.append(None)
                        else: res.append(0 if 0x77 in host.driver.out else 1)
                except PruneCollision:
                    res.append(None)
        finally:
            host.driver = saved
        r = tuple(res)
        self._probe_cache[key] = r
        return r

    def apply(self, cur, env, a):
        masks, ctrl, v1, q, ua = env
        if a[0] == "v1":
            return (masks, ctrl, a[1], q, ua)
        host = self.host
        drv = Driver(v1, self.cfg["last"], self.cfg["out"], self.cfg["in2"])
        host.driver = drv
        old = dict(zip(self.eps, masks))
        new = dict(old)
        try:
            if a[0] == "quiet":
                host.quiet(cur)
                cls, q = "idle", 1
            else:
                if a[0] == "fin" and ua: self.cover["foreign-ack-while-in-unacked"] += 1
                cls, ctrl = self._do(cur, a, old, new, ctrl, drv, v1)
                q = 0
        except PruneCollision:
            return None
        finally:
            host.driver = None
        if drv.out and a[0] != "out":
            raise Violation("out:data-delivered-without-out-transaction", dict(action=a, delivered=drv.out))
        # measure all toggles of the reached state
        meas = self._measure(cur)
        out = []
        for ep, m in zip(self.eps, meas):
            o, n = old[ep], new[ep]
            if m is None:
                self.cover["unmeasurable-" + ep] += 1
            elif not (n >> m) & 1:
                if n == o: kind = "changed"
                elif a[0] == "status": kind = "not-reset" if m != 0 else "changed"
                else: kind = "not-advanced" if (o >> m) & 1 else "wrong-value"
                raise Violation(f"toggle:{ep}:{kind}:during-{cls}", dict(action=a, endpoint=ep, admissible=[v for v in (0, 1) if (n >> v) & 1],
                                                                          before=[v for v in (0, 1) if (o >> v) & 1], measured=m, ctrl=env[1]))
            else:
                n = 1 << m
            out.append(n)
        self.outcomes.add((cls, meas))
        return (tuple(out), ctrl, drv.v1, q, 1 if cls.startswith("in") and cls.endswith("-noack") else 0)

    def _do(self, cur, a, old, new, ctrl, drv, v1):
        """runs the transaction; updates `new` (admissible toggle sets); returns (action class for rule names, new ctrl)"""
        host = self.host
        if a[0] == "in":
            _, ep, ack = a
            name = "in%d" % ep
            resp = host.send(cur, U.token(U.IN, 0, ep), True)
            k = U.classify_device_packet(resp) if resp is not None else None
            cls = f"in{ep}-" + ("ack" if ack else "noack")
            if k is None or k[0] == "bad":
                raise Violation("in:no-or-malformed-response", dict(action=a, resp=resp))
            if k[0] == "hs":
                if k[1] != U.NAK: raise Violation("in:unexpected-handshake", dict(action=a, pid=U.PIDNAME[k[1]]))
                # a NAK never moves a toggle; when (and how soon after an ACK) an endpoint has its next packet ready is not fixed
                # by the statement, so a NAK is accepted everywhere (the in-ack / in-noack goals guard against vacuity)
                if ep == 1 and self.cfg["delays"]: self.cover["in1-drained"] += 1
                self.cover["in-nak"] += 1
                return f"in{ep}-nak", ctrl
            if k[1] not in (U.DATA0, U.DATA1): raise Violation("in:pid-not-data0-or-data1", dict(pid=U.PIDNAME[k[1]]))
            t = 1 if k[1] == U.DATA1 else 0
            if not (old[name] >> t) & 1:
                raise Violation(f"toggle:{name}:unexpected-pid", dict(action=a, pid=U.PIDNAME[k[1]], admissible=old[name]))
            if ack:
                host.send(cur, U.handshake(U.ACK), False)
                new[name] = 1 << (t ^ 1)
                self.cover["in-ack"] += 1
            else:
                new[name] = 1 << t
                self.cover["in-noack"] += 1
            return cls, ctrl
        if a[0] == "out":
            _, t, var = a
            payload = (0x40,)
            host.send(cur, U.token(U.OUT, 0, 1), False)
            resp = host.send(cur, U.data_packet(U.DATA1 if t else U.DATA0, payload, corrupt=(var == "badcrc")), True)
            for _ in range(12): host.tick(cur)       # generous window for the payload to reach the consumer
            k = U.classify_device_packet(resp) if resp is not None else None
            delivered = list(drv.out)
            if var == "badcrc":
                if resp is not None: raise Violation("out:corrupted-packet-answered", dict(resp=resp))
                if delivered: raise Violation("out:corrupted-packet-delivered", dict(delivered=delivered))
                self.cover["out-badcrc"] += 1
                return "out1-badcrc", ctrl
            if k != ("hs", U.ACK):
                raise Violation("out:valid-packet-not-acked-although-consumer-ready", dict(action=a, resp=resp))
            m = old["out1"]
            if delivered not in ([], [payload[0]]):
                raise Violation("out:wrong-data-delivered", dict(delivered=delivered, sent=payload))
            if delivered:
                if not (m >> t) & 1:
                    raise Violation("toggle:out1:repeated-toggle-accepted-as-new-data", dict(action=a, admissible=m))
                new["out1"] = 1 << (t ^ 1)
                self.cover["out-accepted"] += 1
                return "out1-new", ctrl
            if m == 1 << t:
                raise Violation("toggle:out1:expected-toggle-skipped-as-repetition", dict(action=a, admissible=m))
            new["out1"] = 1 << (t ^ 1)
            self.cover["out-repeat-skipped"] += 1
            return "out1-repeat", ctrl
        if a[0] == "setup":
            r = a[1]
            if ctrl is not None and is_cf(ctrl[0]) and ctrl[1] == "status": self.cover["clear-halt-abandoned"] += 1
            host.send(cur, U.token(U.SETUP, 0, 0), False)
            resp = host.send(cur, U.data_packet(U.DATA0, request_bytes(r)), True)
            if resp is None or U.classify_device_packet(resp) != ("hs", U.ACK):
                raise Violation("setup-not-acked", dict(action=a, resp=resp))
            return "setup-" + r, (r, "data" if r == "GST" else "status")
        if a[0] == "status":
            r = ctrl[0]
            resp = host.send(cur, U.token(U.IN, 0, 0), True)
            k = U.classify_device_packet(resp) if resp is not None else None
            if k is not None and k[0] == "hs" and k[1] == U.STALL:
                if is_cf(r) and not names_endpoint(r)[1]: raise Violation("clear-halt:valid-request-stalled", dict(request=r))
                self.cover["request-error-stalled"] += 1
                return "status-stall-" + r, None
            if k is None or k[0] != "data":
                return "status-nodata-" + r, ctrl                       # NAK / silence: the host will retry
            if not is_cf(r):
                raise Violation("request-error-not-stalled", dict(request=r, resp=resp))
            tgt, reserved = names_endpoint(r)
            if tgt not in new: tgt = None
            if not a[1]:
                if tgt: new[tgt] = old[tgt] | 1
                self.cover["clear-halt-status-ack-lost"] += 1
                return "status-noack-" + r, ctrl
            host.send(cur, U.handshake(U.ACK), False)
            if drv.v1 == 1 and v1 > 1: self.cover["producer-starts-during-status-stage"] += 1
            if reserved:
                self.cover["clear-halt-with-reserved-windex-bits"] += 1
                if tgt: new[tgt] = old[tgt] | 1
            elif tgt:
                if old[tgt] == 2: self.cover["reset-from-data1"] += 1
                new[tgt] = 1
            else:
                self.cover["clear-halt-of-absent-endpoint"] += 1
            self.cover["clear-halt-completed"] += 1
            return "status-ack-" + r, None
        if a[0] == "in0":
            resp = host.send(cur, U.token(U.IN, 0, 0), True)
            k = U.classify_device_packet(resp) if resp is not None else None
            if k is not None and k[0] == "data" and a[1]:
                host.send(cur, U.handshake(U.ACK), False)
                return "in0-ack", (ctrl[0], "sout")
            if k is not None and k[0] == "hs" and k[1] == U.STALL: return "in0-stall", None
            return "in0-noack", ctrl
        if a[0] == "out0":
            host.send(cur, U.token(U.OUT, 0, 0), False)
            host.send(cur, U.data_packet(U.DATA1, ()), True)
            return "out0-status", None
        if a[0] == "fin":
            r = host.send(cur, U.token(U.IN, FOREIGN, 1), True)
            if r is not None: raise Violation("answers-token-of-another-address", dict(resp=r))
            host.send(cur, U.handshake(U.ACK), False)
            return "foreign-in-ack", ctrl
        raise KeyError(a)


def make(cfg, tier):
    return ToggleSpec(cfg, tier)
