# C24 - ULPI control registers always converge to the requested UTMI settings.
#
# DUT: UTMITranslator(ulpi=<Record as in tests/test_ulpi.py>, handle_clocking=False), per-cycle closure.  Environment:
# the UTMI control inputs switch between a few settings in any cycle (including back to the old value while a write is
# in flight and in the cycle a transmission starts), a UTMI transmitter sends packets, the nondeterministic ULPI PHY of
# harness/_ulpi_phy.py delays NXT, aborts register writes / transmit commands by raising DIR, and keeps the PHY's
# register file (Function Control 0x04, OTG Control 0x0A; ULPI 1.1 reset values 0x41 / 0x06).
#
# Oracles:
#   * every register write the PHY completes addresses 0x04 or 0x0A and carries a value that was requested *for that
#     register* since the request last matched the PHY register on a quiet bus (stale-but-once-requested values are
#     admitted, they have to be corrected later) - rules regwrite-unknown-address / regwrite-wrong-value;
#   * link-side ULPI protocol of register writes (command held until NXT, STP in the cycle after the data byte);
#   * bounded convergence (lookahead from every reached state, memoised per state): inputs frozen, no new packets, a
#     benign PHY (NXT at once, DIR released) - within `converge` cycles the PHY registers equal the requested settings,
#     the pending UTMI packet has been sent, and this has held for `stable` cycles - rules no-convergence:*.
from harness._ulpi_phy import UlpiSpec

PROPERTY = "C24"
TECHNIQUE = "per-cycle BFS closure of UTMITranslator against a nondeterministic ULPI PHY model with register file; bounded-convergence lookahead from every state"

NOPD = dict(dp_pulldown=0, dm_pulldown=0)


def configs(tier):
    both = [{}, dict(term_select=1), dict(NOPD), dict(NOPD, term_select=1)]
    phy = dict(rise0=True, rxcmds=[0x0D])
    pk = [[0xC3, 0xA5]]
    # no budgets: closed under all control-input / UTMI / PHY choices (unbounded histories)
    out = [
        dict(name="fc-only", checks=["reg"], ctrl=[{}, dict(term_select=1), dict(xcvr_select=0)], phy=phy, converge=64),
        dict(name="fc+otg", checks=["reg"], ctrl=both, phy=phy, converge=64),
        dict(name="fc+tx", checks=["reg"], ctrl=both[:2], packets=pk, phy=phy, converge=64),
        dict(name="fc+otg+tx", checks=["reg"], ctrl=both[:3] if tier == "quick" else both, packets=pk, phy=phy, converge=64),
    ]
    if tier != "quick":
        rx = dict(rise0=True, rise1=True, rxcmds=[0x0D, 0x1E], rxbytes=[0x40])
        out += [
            dict(name="fc+otg+tx+receive", checks=["reg"], ctrl=both, packets=pk + [[0x2D]], phy=rx, converge=64),
            dict(name="opmode+suspend+chrg+tx", checks=["reg"], ctrl=[{}, dict(op_mode=2), dict(suspend=1), dict(chrg_vbus=1), dict(xcvr_select=0, term_select=1)],
                 packets=[[0xC3]], phy=phy, converge=64),
        ]
    return out


class CtrlSpec(UlpiSpec):
    def goals(self):
        g = ["regwrite", "ctrl-change", "ctrl-change-during-write"]
        if self.phy.rise0: g += ["abort-reg"]
        if self.packets: g += ["ctrl-change-with-tx-start", "txstp"]
        return g

    def assumptions(self):
        return ["the PHY's Function Control / OTG Control registers hold their ULPI reset values 0x41 / 0x06 after reset and change only by completed register writes",
                "PHY outputs are registered; the PHY raises DIR only on an idle bus or to abort a command that has not completed (not inside a transmit packet, not in the STP cycle of a register write: ULPI delays the receive there)",
                "a register write the link starts later than 8 quiet idle-bus cycles after the request matched the PHY register again would be flagged (the design starts it in the cycle of the mismatch)",
                "convergence is demanded within 64 cycles of a benign PHY (a worst-case chain of DIR release, packet end and three register writes takes about 35)",
                "the UTMI transmitter follows UTMI (see C23)"]


def make(cfg, tier):
    return CtrlSpec(cfg, tier)
