# C36 - RawPacketTransmitter framing and CRCs; round trip through RawHeaderPacketReceiver / DataPacketReceiver.
#
# DUTs (real elaborated classes of luna/gateware/usb/usb3/link/{transmitter,receiver,data}.py):
#   tx     RawPacketTransmitter alone.
#   loop   RawPacketTransmitter.source -> wire -> RawHeaderPacketReceiver.sink and DataPacketReceiver.sink (glue in this
#          file: a receiver sees a word in the cycle in which it is transferred, i.e. sink.valid = source.valid & ready).
# Exploration is per cycle: while a packet is in flight the environment chooses source.ready (and toggles `generate`)
# freely in every cycle -> all PHY ready patterns; while idle it chooses the next (header, payload) or stays idle.
#   *_wide      one packet from reset per path, large header alphabet: every single-bit value of the 96 protocol bits, dense
#               values, the recorded packets of /repo/tests, all 8x8x2x2x2 link-control fields, a data header with every
#               single-bit flip of DW0 (all packet types incl. reserved ones), payloads of 0..9 (13) bytes in two flavours.
#   *_closure   small header alphabet x payload lengths 0..9 (13), any sequence of packets (back to back or with idle gaps)
#               until no new (DUT state, monitor state) appears: covers every residue a previous packet leaves behind.
#
# Oracle = harness/_usb3ref (written from USB 3.2 ch. 7.2, calibrated on the recorded vectors): the words transferred are
# HPSTART, DW0..2, DW3 = CRC-16 | link control word | CRC-5, and for a data header (type 01000b) DPPSTART, the payload
# bytes in order, CRC-32 immediately after the last byte, END END END EPF immediately after the CRC, the rest of the last
# word being logical idle (the other reading of the statement - END symbols up to the word boundary and then a full END
# END END EPF word - is admitted as well); DPPSTART + EDB EDB EDB EPF when the header is marked delayed.  No bubble inside a
# packet, stalled words are held, `done` accompanies the transfer of the last word, nothing is driven without a request.
# Round trip: the header receiver reports exactly the header sent (with the reference CRCs) and never bad_packet /
# bad_sequence; for data packets the data receiver reports the header, delivers exactly the payload bytes and strobes
# packet_good, never packet_bad.
from rtlmc.model import Design, Violation
from rtlmc.explore import Spec
from harness import _usb3ref as ref

PROPERTY = "C36"
TECHNIQUE = ("explicit-state model checking (per-cycle BFS, all ready patterns, closure over packet sequences) of the "
             "RawPacketTransmitter netlist and of its composition with the link-layer receivers, against reference packet "
             "encoders written from the USB 3.2 specification and calibrated on the repository's recorded packets")

MAXSTART = 5      # cycles after the request cycle by which HPSTART must be driven (it may also be driven in the request cycle)
MAXDONE = 2       # cycles after the transfer of the last word within which `done` must be seen (normally the same cycle)
MAXLAT = 4        # cycles after DW3 within which the header receiver must have reported

HDR_FIELDS = ("dw0", "dw1", "dw2", "crc16", "sequence_number", "dw3_reserved", "hub_depth", "delayed", "deferred", "crc5")


# data packet header layout (USB 3.2 table 8-25 / figure 8-27): field of DataHeaderPacket -> (word, lsb, width)
DPH_FIELDS = (("type", 0, 0, 5), ("route_string", 0, 5, 20), ("device_address", 0, 25, 7),
              ("data_sequence", 1, 0, 5), ("reserved_0", 1, 5, 1), ("end_of_burst", 1, 6, 1), ("direction", 1, 7, 1),
              ("endpoint_number", 1, 8, 4), ("reserved_1", 1, 12, 3), ("setup", 1, 15, 1), ("data_length", 1, 16, 16),
              ("stream_id", 2, 0, 16), ("reserved_2", 2, 16, 11), ("packet_pending", 2, 27, 1), ("reserved_3", 2, 28, 4))


def configs(tier):
    # mode "both": the first packet of a path is taken from the closure alphabet (the path then continues with any sequence of
    # closure-alphabet packets) or from the wide alphabet (the path ends after that packet).  One configuration per DUT keeps
    # the number of (expensive) amaranth.sim elaborations of the CRC networks small.
    if tier == "quick": return [dict(dut="tx", mode="both"), dict(dut="loop", mode="both")]
    return [dict(dut="tx", mode="both"), dict(dut="loop", mode="wide"), dict(dut="loop", mode="closure")]


# ------------------------------------------------------------------------------------------------ alphabets
def payload_bytes(n, flavour):
    if flavour == 0: return bytes((0x11 * (i + 1)) & 0xFF for i in range(n))
    return bytes((0xFF, 0x00, 0xA5, 0x80, 0x01, 0x7E, 0xFD, 0x5C, 0xF7, 0xFE, 0xBC, 0x3C, 0xFB)[i % 13] for i in range(n))     # incl. K symbol byte values sent as data


def hdr(dw0=0, dw1=0, dw2=0, seq=0, rsvd=0, hub=0, delayed=0, deferred=0):
    return (dw0, dw1, dw2, seq, rsvd, hub, delayed, deferred)


def is_data(h): return (h[0] & 0x1F) == ref.DATA_TYPE


DATA_BASE = hdr(0x32000008, 0x00000085, 0x08000000, seq=3, hub=5, deferred=1)       # address 0x19, EP 0 IN-ish, stream 0


def with_len(h, n):
    """data headers carry the payload length in DW1[31:16]"""
    if not is_data(h): return h
    return (h[0], (h[1] & 0xFFFF) | (n << 16)) + h[2:]


def wide_alphabet(tier, consistent_length):
    """list of (header, payload or None)"""
    out = []
    nmax = 9 if tier == "quick" else 13
    lens = list(range(nmax + 1))
    # single-bit values of the 96 protocol bits (bit 3 of DW0 alone makes a data header: sent as ZLP and with 5 bytes)
    for w in range(3):
        for b in range(32):
            dws = [0, 0, 0]; dws[w] = 1 << b
            h = hdr(*dws, seq=b & 7)
            if is_data(h): out += [(with_len(h, 0), b""), (with_len(h, 5), payload_bytes(5, 0))]
            else: out.append((h, None))
    # dense values and the recorded packets
    for dws in ((0xFFFFFFF7, 0xFFFFFFFF, 0xFFFFFFFF), (0xA5A5A5A4, 0x5A5A5A5A, 0xC3C3C3C3), (0x00000280, 0x00010004, 0),
                (0x00000004, 0x12345678, 0x9ABCDEF0), (0x0000000C, 0xFFFF0000, 0x0000FFFF)):
        out.append((hdr(*dws, seq=1), None))
    # every link control word
    for seq in range(8):
        for hub in range(8):
            for dl in (0, 1):
                for df in (0, 1):
                    for rs in (0, 7):
                        out.append((hdr(0x00000280, 0x00010004, 0, seq, rs, hub, dl, df), None))
    # data headers: every length, two flavours; delayed ones (aborted)
    for n in lens:
        for fl in (0, 1):
            if n == 0 and fl: continue
            out.append((with_len(DATA_BASE, n), payload_bytes(n, fl)))
    for n in (0, 5):
        out.append((with_len(DATA_BASE[:6] + (1,) + DATA_BASE[7:], n), payload_bytes(n, 0)))
    # the longest legal payloads (1024 bytes and the three trailing-byte counts below it)
    for n in ((1024, 1023) if tier == "quick" else (1024, 1023, 1022, 1021)):
        out.append((with_len(DATA_BASE, n), payload_bytes(n, 1)))
    # single-bit flips of DW0 of the data header (other types, reserved types, addresses), of DW1 (not the length when it
    # has to be consistent) and DW2; as ZLP and with 6 bytes
    for w in range(3):
        for b in range(32):
            if w == 1 and b >= 16 and consistent_length: continue
            dws = list(DATA_BASE[:3]); dws[w] ^= 1 << b
            h = tuple(dws) + DATA_BASE[3:]
            if w == 1 and b >= 16:
                out.append((h, payload_bytes(6, 1)))         # length field deliberately unrelated to the payload (tx only)
            elif is_data(h):
                out += [(with_len(h, 0), b""), (with_len(h, 6), payload_bytes(6, 1))]
            else:
                out.append((h, None))
    return out


def closure_alphabet(tier):
    nmax = 9 if tier == "quick" else 13
    out = [(hdr(0x00000280, 0x00010004, 0, seq=0), None), (hdr(0xFFFFFFE4, 0xFFFFFFFF, 0xFFFFFFFF, seq=7, rsvd=7, hub=7, deferred=1), None)]
    for n in range(nmax + 1):
        out.append((with_len(DATA_BASE, n), payload_bytes(n, n & 1)))
        if tier != "quick" and n: out.append((with_len(DATA_BASE, n), payload_bytes(n, 1 - (n & 1))))
    if tier != "quick":
        out += [(hdr(0x00000004, 0x12345678, 0x9ABCDEF0, seq=5, hub=2), None), (hdr(0x0000000C, 0xFFFF0000, 0x0000FFFF, seq=2, delayed=1), None)]
    out.append((with_len(DATA_BASE[:6] + (1,) + DATA_BASE[7:], 5), payload_bytes(5, 0)))       # delayed: aborted payload
    out.append((with_len(DATA_BASE[:6] + (1,) + DATA_BASE[7:], 0), b""))
    return out


def sink_words(payload):
    """payload as presented on data_sink: (data, valid mask, first, last); unused byte lanes carry 0xEE"""
    out = []
    n = len(payload)
    for j in range(0, n, 4):
        chunk = payload[j:j + 4]
        data = int.from_bytes(chunk + bytes([0xEE] * (4 - len(chunk))), "little")
        out.append((data, (1 << len(chunk)) - 1, int(j == 0), int(j + 4 >= n)))
    return out


def expected_encodings(h, payload):
    """list of admitted word sequences [(data, ctrl), ...] for this packet"""
    hw = ref.header_words(*h)
    if not is_data(h): return [hw]
    if h[6]: return [hw + ref.dpp_abort_words()]
    encs = [hw + ref.dpp_words(payload)]
    alt = hw + ref.dpp_words_padded(payload)
    if alt != encs[0]: encs.append(alt)
    return encs


def classify_mismatch(h, payload, idx, got, want):
    """name the part of the packet in which the transferred word deviates"""
    if idx == 0: return "header-start"
    if idx <= 3: return "header-word"
    if idx == 4:
        x = got[0] ^ want[0]
        if got[1]: return "header-word"
        if x & 0xFFFF: return "header-crc16"
        if x & 0x07FF0000: return "link-control-word"
        return "header-crc5"
    if idx == 5: return "dpp-start"
    if h[6]: return "dpp-abort"
    n = len(payload)
    for s in range(4):
        sym = 4 * (idx - 6) + s
        if ((got[0] ^ want[0]) >> (8 * s)) & 0xFF or ((got[1] ^ want[1]) >> s) & 1:
            return "payload" if sym < n else ("payload-crc32" if sym < n + 4 else "dpp-end")
    return "dpp-end"


# ------------------------------------------------------------------------------------------------ DUTs
def build_tx():
    from luna.gateware.usb.usb3.link.transmitter import RawPacketTransmitter
    d = RawPacketTransmitter()
    return d, tx_ports(d, d.source.ready)


def tx_ports(tx, ready):
    ins = dict(generate=tx.generate, ready=ready, sink_valid=tx.data_sink.valid, sink_data=tx.data_sink.data,
               sink_first=tx.data_sink.first, sink_last=tx.data_sink.last)
    for f in HDR_FIELDS: ins["h_" + f] = getattr(tx.header, f)
    obs = dict(valid=tx.source.valid, data=tx.source.data, ctrl=tx.source.ctrl, done=tx.done, sink_ready=tx.data_sink.ready)
    return ins, obs


def build_loop():
    from amaranth import Elaboratable, Module, Signal
    from luna.gateware.usb.usb3.link.transmitter import RawPacketTransmitter
    from luna.gateware.usb.usb3.link.receiver import RawHeaderPacketReceiver
    from luna.gateware.usb.usb3.link.data import DataPacketReceiver

    class PacketLoop(Elaboratable):
        def __init__(self):
            self.tx, self.hrx, self.drx = RawPacketTransmitter(), RawHeaderPacketReceiver(), DataPacketReceiver()
            self.ready = Signal()
        def elaborate(self, platform):
            m = Module()
            m.submodules.tx, m.submodules.hrx, m.submodules.drx = self.tx, self.hrx, self.drx
            m.d.comb += self.tx.source.ready.eq(self.ready)
            for rx in (self.hrx, self.drx):
                m.d.comb += [rx.sink.valid.eq(self.tx.source.valid & self.ready), rx.sink.data.eq(self.tx.source.data),
                             rx.sink.ctrl.eq(self.tx.source.ctrl)]
            return m

    d = PacketLoop()
    ins, obs = tx_ports(d.tx, d.ready)
    ins["expected_sequence"] = d.hrx.expected_sequence
    obs.update(new_packet=d.hrx.new_packet, bad_packet=d.hrx.bad_packet, bad_sequence=d.hrx.bad_sequence)
    for f in HDR_FIELDS: obs["hp_" + f] = getattr(d.hrx.packet, f)
    obs.update(new_header=d.drx.new_header, packet_good=d.drx.packet_good, packet_bad=d.drx.packet_bad,
               rx_valid=d.drx.source.valid, rx_data=d.drx.source.data, rx_first=d.drx.source.first, rx_last=d.drx.source.last)
    for f, _, _, _ in DPH_FIELDS: obs["dh_" + f] = d.drx.header[f]
    for f in HDR_FIELDS[3:]: obs["dh_" + f] = d.drx.header[f]
    return d, (ins, obs)


# ------------------------------------------------------------------------------------------------ the specification
IDLE_RX = (None, -1, (), None, 0, 0, 0, 0)
DRAIN = 5         # wide mode: idle cycles observed after the packet before the path ends
MAXVERDICT = 4    # cycles after the last word of a data packet by which packet_good must have been seen


class PacketSpec(Spec):
    n_validate = 8

    def __init__(self, cfg, tier):
        super().__init__(cfg, tier)
        ref.calibrate()
        self.loop = cfg["dut"] == "loop"
        self.mode = cfg["mode"]
        self.time_budget = 150 if tier == "quick" else 800      # wall clock on a shared machine; the BFS itself takes < 5 s of CPU
        # every amaranth.sim replay re-elaborates the CRC-32 / CRC-16 networks: ~10 s CPU for tx, ~30 s for the loop, per trace
        self.n_validate = (1 if self.loop else 2) if tier == "quick" else (2 if self.loop else 5)
        clo = closure_alphabet(tier) if self.mode in ("closure", "both") else []
        self.nclosure = len(clo)            # packets[:nclosure] may be followed by further packets, the others end the path
        self.packets = clo + (wide_alphabet(tier, self.loop) if self.mode in ("wide", "both") else [])
        self._enc = {}
        self._sink = {}
        self._gen = [("gen", i) for i in range(len(self.packets))]
        self._gen_closure = self._gen[:self.nclosure]

    def build(self):
        d, (ins, obs) = build_loop() if self.loop else build_tx()
        return Design(d, ins, obs, defaults=dict(h_crc16=0xFFFF, h_crc5=0x1F))

    def assumptions(self):
        a = ["a request is `generate` high while the transmitter is idle; header inputs (and, for data headers, the first payload word on "
             "data_sink) are held from the request until `done`; the header's own crc16 / crc5 inputs carry garbage (documented as ignored)",
             "data_sink presents the payload without interruption: byte-valid mask 1111 on every word but the last (1, 11, 111 or 1111), "
             "`last` on the last word, nothing (valid = 0) for a zero-length packet or a non-data header; unused byte lanes carry 0xEE",
             f"the first word of a requested packet must be driven in the request cycle or within {MAXSTART} cycles after it; no bubble is "
             f"allowed inside a packet; `done` comes with the transfer of the last word or at most {MAXDONE} cycles later, never otherwise",
             "after the CRC-32 either END END END EPF follows immediately (rest of the word = logical idle) or END symbols pad the word and "
             "a whole END END END EPF word follows (both readings of the statement admitted)"]
        if self.loop:
            a += ["round trip glue (in the harness): both receivers see each word in the cycle in which it is transferred; "
                  "expected_sequence equals the sequence number of the header being sent; DW1[31:16] of a data header equals the payload length",
                  f"the header report is due within {MAXLAT} cycles after DW3, packet_good within {MAXVERDICT} cycles after the last word of the packet",
                  "the data receiver's behaviour on an aborted (delayed, EDB-terminated) payload is not constrained"]
        if self.mode != "closure": a.append("packets of the wide alphabet: one packet per path, starting from the reset state")
        return a

    # env = (phase, pkt, idx, encmask, spos, wait, rx)
    #   phase 0 idle / 1 packet in flight / 2 (wide alphabet) packet finished, observing DRAIN more cycles / 3 `done` still owed;  pkt: index into self.packets
    #   idx: next word of the packet to be transferred; encmask: admitted encodings still matching; spos: next data_sink word
    #   rx (loop): state of the receiver monitors, see rx_monitor
    def env0(self):
        return (0, -1, 0, 0, 0, 0, IDLE_RX)

    def encodings(self, p):
        e = self._enc.get(p)
        if e is None:
            h, payload = self.packets[p]
            e = self._enc[p] = expected_encodings(h, payload or b"")
            self._sink[p] = sink_words(payload or b"")
        return e

    def actions(self, env):
        phase = env[0]
        if phase == 0: return [("idle",)] + (self._gen if env[1] < 0 else self._gen_closure)
        if phase == 1: return [("run", r, g) for r in (0, 1) for g in (0, 1)]
        if phase == 3: return [("idle",)]
        return [("idle",)] if env[5] < DRAIN else []

    def label(self, a):
        if a[0] == "gen":
            h, p = self.packets[a[1]]
            return ("gen", [hex(x) for x in h[:3]] + list(h[3:]), None if p is None else p.hex())
        return a

    def drive(self, cur, p, generate, ready, spos, last_p=-1):
        kw = dict(generate=generate, ready=ready)
        # the header receiver compares the sequence number one cycle after DW3, which can be the request cycle of the next packet
        if self.loop and last_p >= 0: kw["expected_sequence"] = self.packets[last_p][0][3]
        if p >= 0:
            h, _ = self.packets[p]
            kw.update(h_dw0=h[0], h_dw1=h[1], h_dw2=h[2], h_sequence_number=h[3], h_dw3_reserved=h[4], h_hub_depth=h[5],
                      h_delayed=h[6], h_deferred=h[7])
            if self.loop and last_p < 0: kw["expected_sequence"] = h[3]
            sw = self._sink[p]
            if spos < len(sw):
                d, v, f, l = sw[spos]
                kw.update(sink_valid=v, sink_data=d, sink_first=f, sink_last=l)
            else:
                kw.update(sink_valid=0, sink_data=0xEEEEEEEE)
        return cur.step(**kw)

    def apply(self, cur, env, a):
        phase, p, idx, encmask, spos, wait, rx = env
        if a[0] == "gen":
            if p >= 0: self.cover["packet_after_packet"] += 1
            p = a[1]
            encs = self.encodings(p)
            o = self.drive(cur, p, 1, 0, 0, env[1])
            if o.done: raise Violation("tx:done-mismatch", dict(done=1, idle=True))
            if o.valid and not any(e[0] == (o.data, o.ctrl) for e in encs):     # the start word may already be driven (not taken: ready is low)
                raise Violation("tx:header-start", dict(word_index=0, got=[hex(o.data), o.ctrl], in_request_cycle=True))
            if self.loop: rx = self.rx_monitor(o, rx, p, None)
            self.cover["request"] += 1
            return (1, p, 0, (1 << len(encs)) - 1, 0, 0, rx)
        if a[0] == "idle":
            o = self.drive(cur, -1, 0, 1, 0, p)
            if phase == 3:               # last word transferred, `done` still owed
                if o.valid: raise Violation("tx:word-without-request", dict(data=hex(o.data), ctrl=o.ctrl, previous_packet=p))
                if self.loop: rx = self.rx_monitor(o, rx, p, None)
                if o.done: return (2 if p >= self.nclosure else 0, p, 0, 0, 0, 0, rx)
                if wait + 1 > MAXDONE: raise Violation("tx:done-missing", dict(waited=wait + 1))
                return (3, p, 0, 0, 0, wait + 1, rx)
            self.check_idle(o, env)
            if self.loop: rx = self.rx_monitor(o, rx, p, None)
            return (phase, p, 0, 0, 0, wait + 1 if phase == 2 else 0, rx)
        # a packet is in flight
        _, ready, gen = a
        encs = self.encodings(p)
        h, payload = self.packets[p]
        payload = payload or b""
        o = self.drive(cur, p, gen, ready, spos)
        sw = self._sink[p]
        if o.sink_ready and spos < len(sw):
            spos += 1
            self.cover["payload_word_taken"] += 1
        transferred = presented = None
        n = len(encs[0])
        if not o.valid:
            if o.done: raise Violation("tx:done-mismatch", dict(done=1, valid=0, word_index=idx))
            if idx > 0: raise Violation("tx:bubble-in-packet", dict(word_index=idx, of=n))
            if wait + 1 > MAXSTART: raise Violation("tx:packet-not-sent", dict(waited=wait + 1))
            wait += 1
        else:
            got = (o.data, o.ctrl)
            keep = 0
            for i, e in enumerate(encs):
                if (encmask >> i) & 1 and idx < len(e) and e[idx] == got: keep |= 1 << i
            if not keep:
                want = encs[0][idx]
                part = classify_mismatch(h, payload, idx, got, want)
                raise Violation("tx:" + part, dict(word_index=idx, got=[hex(got[0]), got[1]], expected=[hex(want[0]), want[1]],
                                                   header=[hex(x) for x in h[:3]] + list(h[3:]), payload=payload.hex()))
            encmask = keep
            presented = idx
            if idx == 5 and is_data(h) and not h[6]:
                self.cover["dpp_%dB_tail" % (len(payload) % 4)] += 1
                if not payload: self.cover["zlp"] += 1
            last = idx == n - 1
            if o.done and not (ready and last):
                raise Violation("tx:done-mismatch", dict(done=o.done, ready=ready, word_index=idx, last_word=last))
            if last and ready and not o.done and not is_data(h):
                o2 = cur.fork().step(ready=0)
                if o2.valid and (o2.data, o2.ctrl) == ref.DPPSTART:
                    raise Violation("tx:dpp-after-non-data-header", dict(header_type=h[0] & 0x1F, dw0=hex(h[0])))
            if ready:
                transferred = (idx, n)
                idx += 1
            else:
                self.cover["stalled"] += 1
        if self.loop: rx = self.rx_monitor(o, rx, p, transferred, presented)
        if idx == n:
            self.cover["packet_sent"] += 1
            if is_data(h) and h[6]: self.cover["aborted_dpp"] += 1
            self.outcomes.add(p)
            if not o.done: return (3, p, 0, 0, 0, 0, rx)
            return (2 if p >= self.nclosure else 0, p, 0, 0, 0, 0, rx)
        return (1, p, idx, encmask, spos, wait, rx)

    def check_idle(self, o, env):
        if o.valid:
            raise Violation("tx:word-without-request", dict(data=hex(o.data), ctrl=o.ctrl, previous_packet=env[1]))
        if o.done: raise Violation("tx:done-mismatch", dict(done=1, idle=True))

    # ---- receivers (loop only)
    # rx = (hdr_due, dpkt, got, verdict_age, good, good_prev, crc_done, after_abort)   (after_abort: the packet before dpkt was an aborted DPP)
    #   hdr_due: None or (age, packet) - a header report is due          dpkt: the packet the data receiver is (last) concerned with
    #   got: payload bytes delivered so far for dpkt                       verdict_age: None or cycles since the last word of dpkt
    #   good: packet_good seen for dpkt; good_prev: packet_good was high in the previous cycle
    #   crc_done: the word with the last CRC-32 byte of dpkt has been presented
    #   DataPacketReceiver.header is compared with the header sent when packet_good is reported (new_header is only observed:
    #   nothing in the statement depends on it)
    def expected_header_fields(self, p):
        h = self.packets[p][0]
        dw3 = ref.header_words(*h)[4][0]
        return dict(dw0=h[0], dw1=h[1], dw2=h[2], crc16=dw3 & 0xFFFF, sequence_number=h[3], dw3_reserved=h[4], hub_depth=h[5],
                    delayed=h[6], deferred=h[7], crc5=dw3 >> 27)

    def rx_monitor(self, o, rx, p, transferred, presented=None):
        hdr_due, dpkt, got, verdict_age, good, good_prev, crc_done, after_abort = rx
        if dpkt >= 0:
            h, payload = self.packets[dpkt]
            payload = payload or b""
            data_pkt, aborted = is_data(h) and not h[6], is_data(h) and bool(h[6])
        else:
            h, payload, data_pkt, aborted = None, b"", False, False
        if transferred:
            idx, n = transferred
            if idx == 4: hdr_due = (0, p)
            if idx > 4 and dpkt == p and data_pkt and idx == n - 1: verdict_age = 0
        # the word holding the last CRC-32 byte is being presented by the transmitter (a verdict taken while that word is still
        # stalled is early but not wrong: the statement fixes no timing)
        if presented is not None and dpkt == p and data_pkt and presented >= 5 + (len(payload) + 4 + 3) // 4: crc_done = 1
        # header receiver
        if o.bad_packet or o.bad_sequence:
            raise Violation("roundtrip:header-rejected", dict(bad_packet=o.bad_packet, bad_sequence=o.bad_sequence, packet=self.label(("gen", p))))
        if o.new_packet:
            if hdr_due is None: raise Violation("roundtrip:spurious-header-report", dict(packet=p))
            exp = self.expected_header_fields(hdr_due[1])
            gotf = {f: getattr(o, "hp_" + f) for f in HDR_FIELDS}
            if gotf != exp: raise Violation("roundtrip:header-mismatch", dict(sent=exp, received=gotf))
            hdr_due = None
            self.cover["header_round_trip"] += 1
        elif hdr_due:
            if hdr_due[0] >= MAXLAT: raise Violation("roundtrip:header-lost", dict(packet=self.label(("gen", hdr_due[1]))))
            hdr_due = (hdr_due[0] + 1, hdr_due[1])
        # data receiver
        if not aborted:
            what = [nm for nm, v in (("payload", o.rx_valid), ("packet_good", o.packet_good), ("packet_bad", o.packet_bad)) if v]
            if what and not data_pkt:
                raise Violation("roundtrip:spurious-data-packet", dict(strobes=what, packet=self.label(("gen", dpkt)) if dpkt >= 0 else None))
            if o.rx_valid:
                nb = {1: 1, 3: 2, 7: 3, 15: 4}.get(o.rx_valid)
                if nb is None or good: raise Violation("roundtrip:payload-mismatch", dict(valid_mask=o.rx_valid, after_packet_good=good))
                got = got + tuple((o.rx_data >> (8 * i)) & 0xFF for i in range(nb))
                if bytes(got) != payload[:len(got)]:
                    raise Violation("roundtrip:payload-mismatch", dict(sent=payload.hex(), received=bytes(got).hex()))
            if o.packet_bad:
                raise Violation("roundtrip:packet-bad-after-good" if good else "roundtrip:packet-bad", dict(payload=payload.hex(), payload_len=len(payload)))
            if o.packet_good and good_prev:
                raise Violation("roundtrip:packet-good-stuck", dict(payload=payload.hex(), payload_len=len(payload)))
            if o.packet_good and not good:
                if not crc_done: raise Violation("roundtrip:premature-packet-good", dict(payload=payload.hex()))
                if bytes(got) != payload: raise Violation("roundtrip:payload-mismatch", dict(sent=payload.hex(), received=bytes(got).hex(), at="packet_good"))
                dws = [0, 0, 0]
                for f, w, lsb, width in DPH_FIELDS: dws[w] |= (getattr(o, "dh_" + f) & ((1 << width) - 1)) << lsb
                gotf = {f: getattr(o, "dh_" + f) for f in HDR_FIELDS[3:]}
                gotf.update(dw0=dws[0], dw1=dws[1], dw2=dws[2])
                exp = self.expected_header_fields(dpkt)
                if gotf != exp: raise Violation("roundtrip:data-header-mismatch", dict(sent=exp, received=gotf))
                self.cover["data_round_trip_%dB_tail" % (len(payload) % 4)] += 1
                good, got = 1, ()
            if verdict_age is not None:
                if good: verdict_age = None
                elif verdict_age >= MAXVERDICT:
                    raise Violation("roundtrip:no-good-verdict" + (":after-aborted-dpp" if after_abort else ""), dict(payload=payload.hex(), payload_len=len(payload)))
                else: verdict_age += 1
        # the data receiver cannot know anything of a new packet before its DW3: until then strobes belong to the previous one
        if transferred and transferred[0] == 4:
            if verdict_age is not None: raise Violation("roundtrip:no-good-verdict", dict(payload=payload.hex(), payload_len=len(payload)))
            dpkt, got, verdict_age, good, crc_done, after_abort = p, (), None, 0, 0, int(aborted)
        return (hdr_due, dpkt, got, verdict_age, good, int(bool(o.packet_good) and not aborted), crc_done, after_abort)

    def goals(self):
        g = ["request", "packet_sent", "stalled", "payload_word_taken", "zlp", "aborted_dpp", "dpp_0B_tail", "dpp_1B_tail", "dpp_2B_tail", "dpp_3B_tail"]
        if self.mode != "wide": g.append("packet_after_packet")
        if self.loop: g += ["header_round_trip"] + ["data_round_trip_%dB_tail" % i for i in range(4)]
        return g


def make(cfg, tier):
    return PacketSpec(cfg, tier)
