# C09 - GET_DESCRIPTOR returns exactly the requested descriptor bytes.
#
# Two kinds of configuration:
#
#  (a) stand-alone handler (GetDescriptorHandlerBlock / GetDescriptorHandlerDistributed / GetDescriptorHandlerMux with a
#      block handler for the fixed and a distributed handler for the runtime descriptors), driven at its interface
#      (value, length, start, start_position, tx, stall) the way StandardRequestHandler drives it: value/length fixed
#      for a transfer, start_position = 0, mps, 2*mps, ... (advanced when the host ACKs, repeated when it does not),
#      one `start` strobe per IN token.  Hybrid BFS: the host's decisions (which request, continue, retry, abandon
#      for a new request) are macro actions, the response itself is explored per cycle with tx.ready free
#      (at most MAX_STALL consecutive not-ready cycles).
#  (b) device level: USBDevice + USBControlEndpoint + StandardRequestHandler on a UTMI bus; the host reads
#      descriptors packet by packet, with lost ACKs, abandoned transfers and chained transfers.
#
# Oracle (from the statement): with total = min(wLength, len(descriptor)) the packet requested at offset pos carries
# descriptor[pos : min(pos + mps, total)]; a host keeps reading while the packets are full and total is not reached,
# and once more (expecting a zero-length packet) when total is a non-zero multiple of mps below wLength.  Absent
# descriptors: STALL, no data.   `first` must open and `last` must close every packet (that is what the packet
# generator behind the stream turns into the packet boundaries); a zero-length packet is `valid & last & ~first`.
from rtlmc.model import Design, Violation
from rtlmc.explore import Spec
from rtlmc import usbref as U

PROPERTY = "C09"
TECHNIQUE = "hybrid BFS: host decisions as macro actions, handler response per cycle with tx.ready free; device level packet by packet"
LEVEL_TEXT = ("Each descriptor handler variant is elaborated stand-alone for several descriptor collections (sparse indices, empty types, "
              "runtime descriptors, lengths around the packet-size multiples) and max packet sizes 8/16/32/64; every request "
              "(present/absent type and index, wLength around the boundaries) is read packet by packet at every continuation offset a "
              "host can reach, with retries, abandoned and chained transfers and all tx.ready stall patterns (<= 2 consecutive stalls); "
              "the same reads are run on the wire through USBDevice+StandardRequestHandler with lost ACKs.")

MAX_STALL = 2        # consecutive not-ready cycles explored
T_START = 24         # cycles a response may take to begin (no latency is demanded by the statement; liveness bound)
T_TAIL = 4           # quiet cycles checked after a packet / stall
T_ZLP = 8            # a zero-length-packet marker may be held this long


# ---------------------------------------------------------------------------------------------------------------------
# descriptor collections.  Entries: (type, index, length, runtime?)   content = distinguishable pseudo-random bytes
def _content(seed, n):
    return bytes(((seed * 59 + 17) + i * 7 + (i >> 3) * 29 + (i >> 6) * 3) & 0xFF for i in range(n))


def collection_entries(name, mps):
    m = mps
    if name == "sparse":       # sparse string indices, empty types in between, type 15, lengths around the multiples
        e = [(1, 0, 18), (2, 0, 2 * m), (2, 1, m + 1), (3, 0, m), (3, 2, 2 * m + 2), (3, 5, m - 1), (6, 0, 1), (6, 1, 7),
             (15, 0, 3 * m), (15, 3, 3 * m + 1 if m < 64 else 200)]
    elif name == "dense":      # consecutive indices only (no index map in the block handler), type 0 used
        e = [(0, 0, 3), (1, 0, 18), (2, 0, 4 * m), (3, 0, 4), (3, 1, m), (3, 2, m + 2), (3, 3, 2 * m - 1)]
    elif name == "single":     # one descriptor whose length is exactly one packet
        e = [(1, 0, m)]
    elif name == "tiny":       # one-byte descriptor alone (degenerate widths), plus a two-byte one
        e = [(1, 0, 1), (2, 0, 2)]
    elif name == "mixed":      # fixed + runtime descriptors (for the multiplexer / distributed handler)
        e = [(1, 0, 18), (2, 0, 2 * m), (3, 0, 4), (3, 1, m, True), (3, 4, m + 2, True), (3, 6, 2 * m), (6, 0, 10, True)]
    # single-hole families: exactly one index missing in one type (max index == number of descriptors of the type), the other
    # types consecutive -- the borderline between "consecutive" and "sparse" index tables
    elif name == "hole-top":    # strings 0,1,2,4: the hole sits just below the highest index
        e = [(1, 0, 18), (2, 0, m + 1), (3, 0, 4), (3, 1, m), (3, 2, 6), (3, 4, 10)]
    elif name == "hole-bottom": # a type with indices 1,2 only (hole at 0)
        e = [(1, 0, 18), (2, 1, m + 1), (2, 2, 5), (3, 0, 4), (3, 1, 7)]
    elif name == "hole-mid":    # indices 0,2,3 (hole in the middle), in the highest type; a second type with a hole of width two
        e = [(1, 0, 18), (3, 0, 4), (3, 1, m), (6, 0, 3), (6, 2, 9), (6, 3, m + 2)]
    elif name == "hole-wide":   # 0,1,4: two missing below the top (max index > count) next to a single-hole type
        e = [(1, 0, 18), (2, 0, 9), (2, 2, 5), (3, 0, 4), (3, 1, m), (3, 4, 12)]
    elif name == "empty":      # a zero-length descriptor between others (the data stage is then a single zero-length packet)
        e = [(1, 0, 18), (2, 0, 0), (3, 0, 4), (3, 1, 0)]
    elif name == "big":        # several hundred bytes
        e = [(1, 0, 18), (2, 0, 448), (3, 0, 4), (3, 9, 321), (15, 0, 256)]
    else:
        raise KeyError(name)
    out = []
    for k, x in enumerate(e):
        t, i, n = x[:3]
        out.append((t, i, _content(k + 1 + 16 * len(name), n), len(x) > 3))
    return out


def _runtime_factory(data):
    from luna.gateware.stream.generator import StreamSerializer
    from luna.gateware.usb.stream import USBInStreamInterface

    class RuntimeDescriptor(StreamSerializer):
        """a run-time descriptor the way luna's ECP5FlashUIDStringDescriptor is built: a StreamSerializer whose data
        array is driven by logic (here: constants)"""
        def __init__(self):
            super().__init__(len(data), domain="usb", stream_type=USBInStreamInterface, max_length_width=16)
        def elaborate(self, platform):
            m = super().elaborate(platform)
            for i, b in enumerate(data):
                m.d.comb += self.data[i].eq(b)
            return m
    return RuntimeDescriptor


def build_collection(entries, runtime=True, fixed=True):
    from usb_protocol.emitters import DeviceDescriptorCollection
    d = DeviceDescriptorCollection(automatic_language_descriptor=False)
    n = 0
    for t, i, data, rt in entries:
        if rt and runtime:
            d.add_descriptor(_runtime_factory(data), index=i, descriptor_type=t); n += 1
        elif not rt and fixed:
            d.add_descriptor(data, index=i, descriptor_type=t); n += 1
    return d, n


def request_menu(entries, mps, tier):
    """[(type, index, wLength)] : every present descriptor with wLength around the boundaries + absent ones"""
    reqs = []
    for t, i, data, _ in entries:
        n = len(data)
        ws = {1, mps - 1, mps, mps + 1, n - 1, n, n + 1, 2 * mps, 0xFFFF}      # (wLength 0 is never seen by the handler, see assumptions)
        if tier == "thorough": ws |= {2, 2 * mps + 1, 3 * mps, n + mps, 0x7FF, 0x800, 0x100}
        for w in sorted(ws):
            if 0 < w <= 0xFFFF: reqs.append((t, i, w))
    present = {(t, i) for t, i, _, _ in entries}
    types = sorted({t for t, _ in present})
    absent = []
    tmax = max(types)
    empty = [t for t in range(0, tmax + 1) if t not in types]
    absent += [(t, 0) for t in empty[:1] + [t for t in empty if t > types[0]][:1]]    # empty types below / in between
    absent += [(tmax + 1, 0), (0x42, 0), (0xFF, 0xFF)]
    for t in types:
        idx = sorted(i for tt, i in present if tt == t)
        gaps = [c for c in range(0, idx[-1]) if c not in idx]
        absent += [(t, c) for c in gaps[:1] + gaps[-1:]]         # lowest and highest missing index below the top
        absent += [(t, idx[-1] + 1)]
        if t in types[:3] + types[-1:]: absent.append((t, 0xFF))
    seen = set()
    for t, i in absent:
        if (t, i) in present or (t, i) in seen: continue
        seen.add((t, i))
        for w in (mps, 0xFFFF): reqs.append((t, i, w))
    return reqs


def probe_menu(entries, mps, reqs):
    """a small distinguishing subset used after another request (abandoned / chained transfers)"""
    byid = {}
    for t, i, data, rt in entries: byid[(t, i)] = (len(data), rt)
    picks = []
    def pick(pred):
        for k, (t, i, w) in enumerate(reqs):
            if k not in picks and pred(t, i, w, byid.get((t, i))):
                picks.append(k); return
    pick(lambda t, i, w, d: d and d[0] > mps and w == 0xFFFF and d[0] % mps)                 # multi-packet, short final packet
    pick(lambda t, i, w, d: d and d[0] % mps == 0 and w == 0xFFFF)                              # exact multiple -> ZLP
    pick(lambda t, i, w, d: d and d[0] < mps and w == 0xFFFF)                                   # short single packet
    pick(lambda t, i, w, d: d and d[1] and w == 0xFFFF)                                         # runtime descriptor
    pick(lambda t, i, w, d: d and not d[1] and w == 1)                                          # one byte of a fixed one
    pick(lambda t, i, w, d: d and d[0] > mps and w == mps + 1)                                  # cut by wLength
    pick(lambda t, i, w, d: d is None and t <= 15)                                              # absent
    pick(lambda t, i, w, d: d is None and t > 15)                                               # absent, type beyond the table
    return picks


# ---------------------------------------------------------------------------------------------------------------------
def configs(tier):
    cs = []
    def sa(handler, coll, mps, **kw):
        # full2: the second transfer of a path uses the full request menu too (else a reduced probe menu)
        if tier == "thorough":
            kw.setdefault("full2", 1)
            if mps <= 16 and coll != "big": kw.setdefault("transfers", 3)
        elif mps < 64:
            kw.setdefault("full2", 1)
        cs.append(dict(kind="standalone", handler=handler, coll=coll, mps=mps, **kw))
    if tier == "quick":
        sa("block", "sparse", 8); sa("dist", "sparse", 8)
        sa("block", "sparse", 64); sa("dist", "sparse", 64)
        sa("block", "dense", 16); sa("dist", "dense", 32)
        sa("mux", "mixed", 8); sa("mux", "mixed", 16); sa("dist", "mixed", 16)
        sa("block", "hole-top", 8); sa("block", "hole-bottom", 16); sa("block", "hole-mid", 8)
        sa("block", "empty", 8)
        cs.append(dict(kind="device", handler="block", gap=1, pace=1, transfers=2, lost=1))
        cs.append(dict(kind="device", handler="dist", gap=1, pace=1, transfers=2, lost=1))
        cs.append(dict(kind="device", handler="mux", gap=1, pace=1, transfers=2, lost=1))
    else:
        for mps in (8, 16, 32, 64):
            for coll in ("sparse", "dense"):
                sa("block", coll, mps); sa("dist", coll, mps)
            sa("mux", "mixed", mps); sa("dist", "mixed", mps)
        for h in ("block", "dist"):
            sa(h, "single", 8); sa(h, "single", 64); sa(h, "tiny", 8); sa(h, "big", 64); sa(h, "big", 32); sa(h, "empty", 8)
        for coll in ("hole-top", "hole-bottom", "hole-mid", "hole-wide"):
            for mps in (8, 16):
                sa("block", coll, mps); sa("dist", coll, mps)
        for h in ("block", "dist", "mux"):
            cs.append(dict(kind="device", handler=h, gap=1, pace=1, transfers=2, lost=2))
            cs.append(dict(kind="device", handler=h, gap=3, pace=2, transfers=2, lost=1))
    return cs


# ---------------------------------------------------------------------------------------------------------------------
class Reference:
    """what a GET_DESCRIPTOR read must return (written from the statement)"""
    def __init__(self, descs, mps):
        self.descs, self.mps = descs, mps          # {(type, index): bytes}

    def packet(self, t, i, w, pos):
        """expected payload of the packet at offset pos, or None if the descriptor does not exist"""
        d = self.descs.get((t, i))
        if d is None: return None
        total = min(w, len(d))
        return d[pos:min(pos + self.mps, total)]

    def more(self, t, i, w, pos):
        """after the packet at pos was received: does a host go on reading (at pos + mps)?"""
        d = self.descs[(t, i)]
        total = min(w, len(d))
        got = len(self.packet(t, i, w, pos))
        if got < self.mps: return False            # short packet (or ZLP) ends the stage
        return pos + got < w                       # full packet: done only if wLength is exhausted
        # (pos + got == total < wLength -> one more read, which must be answered by a ZLP)


# phases of the response monitor
W, S, Z, TL = 0, 1, 2, 3      # waiting for the response, streaming (n = byte index), zlp marker, tail (quiet)


class StandaloneSpec(Spec):
    n_validate = 6
    validate_max_cycles = 4000

    def __init__(self, cfg, tier):
        super().__init__(cfg, tier)
        self.mps = cfg["mps"]
        self.entries = collection_entries(cfg["coll"], self.mps)
        h = cfg["handler"]
        # which descriptors does this DUT serve?   block: the fixed ones only (it cannot hold runtime descriptors)
        if h == "block": served = [e for e in self.entries if not e[3]]
        else: served = list(self.entries)
        self.served = served
        self.ref = Reference({(t, i): d for t, i, d, _ in served}, self.mps)
        self.reqs = request_menu(self.entries if h != "block" else served, self.mps, tier)
        self.probes = probe_menu(served, self.mps, self.reqs)
        self.transfers = cfg.get("transfers", 2)
        self.retries = cfg.get("retries", 1 if tier == "quick" else 2)
        self.time_budget = 300 if tier == "quick" else 850      # a cap, not a target (the machine is shared; compilation counts too)
        self.max_states = 3_000_000

    def build(self):
        from luna.gateware.usb.usb2.descriptor import GetDescriptorHandlerBlock, GetDescriptorHandlerDistributed, GetDescriptorHandlerMux
        h = self.cfg["handler"]
        if h == "block":
            coll, _ = build_collection(self.entries, runtime=False)
            dut = GetDescriptorHandlerBlock(coll, max_packet_length=self.mps)
        elif h == "dist":
            coll, _ = build_collection(self.entries)
            dut = GetDescriptorHandlerDistributed(coll, max_packet_length=self.mps)
        else:
            fixed, _ = build_collection(self.entries, runtime=False)
            runtime, n = build_collection(self.entries, fixed=False)
            assert n
            dut = GetDescriptorHandlerMux()
            dut.add_descriptor_handler(GetDescriptorHandlerBlock(fixed, max_packet_length=self.mps))
            dut.add_descriptor_handler(GetDescriptorHandlerDistributed(runtime, max_packet_length=self.mps))
        ins = dict(value=dut.value, length=dut.length, start=dut.start, start_position=dut.start_position, ready=dut.tx.ready)
        obs = dict(valid=dut.tx.valid, first=dut.tx.first, last=dut.tx.last, payload=dut.tx.payload, stall=dut.stall)
        return Design(dut, ins, obs)

    def assumptions(self):
        return ["value/length/start_position are stable from two cycles before the start strobe until the response is over (in StandardRequestHandler "
                "they are registers that only change on SETUP reception / on the host's ACK)",
                "start is a one-cycle strobe, only issued while no response is in progress (one per IN token)",
                "start_position takes the values a host reading in max-packet-size pieces produces: 0, mps, ... while data remains, plus the "
                "offset equal to the total when that is a non-zero multiple of mps below wLength; a packet may be re-requested (lost ACK)",
                "wLength >= 1 (with wLength = 0 the control endpoint has no data stage and never strobes start)",
                f"tx.ready is free in every cycle except that at most {MAX_STALL} consecutive not-ready cycles occur while data is offered",
                f"a response must begin within {T_START} cycles of the start strobe (liveness bound; no particular latency demanded)"]

    def goals(self):
        g = ["packet-delivered", "stall-absent", "retry", "chained-transfer"]
        lens = [len(d) for _, _, d, _ in self.served]
        if any(n > self.mps for n in lens): g += ["multi-packet", "abandoned-transfer"]
        if any(n % self.mps == 0 for n in lens): g.append("zlp")
        if any(n % self.mps for n in lens): g.append("short-final-packet")
        return g

    # env = (phase, sub, n, run, req, pos, retries_left, transfers_left)
    #   phase 0: host decides (req = -1: no transfer yet / last one finished with a stall)      phase 1: response monitored per cycle
    def env0(self):
        return (0, 0, 0, 0, -1, 0, self.retries, self.transfers)

    def actions(self, env):
        phase, sub, n, run, req, pos, retries, transfers = env
        if phase == 1:
            if sub == S and run >= MAX_STALL: return [1]
            return [0, 1]
        acts = []
        if req >= 0:
            t, i, w = self.reqs[req]
            if self.ref.packet(t, i, w, pos) is not None:
                if self.ref.more(t, i, w, pos): acts += [("next", 0), ("next", 1)]
                if retries: acts += [("retry", 0), ("retry", 1)]
        if transfers:
            menu = range(len(self.reqs)) if ((req < 0 and transfers == self.transfers) or self.cfg.get("full2")) else self.probes
            for k in menu: acts += [("req", k, 0), ("req", k, 1)]
        return acts

    def label(self, a):
        if isinstance(a, tuple) and a[0] == "req":
            t, i, w = self.reqs[a[1]]
            return ["request", dict(type=t, index=i, wLength=w, ready_while_idle=a[2])]
        return a

    def apply(self, cur, env, a):
        phase, sub, n, run, req, pos, retries, transfers = env
        if phase == 0:
            kind = a[0]
            if kind == "req":
                if req >= 0:
                    t, i, w = self.reqs[req]
                    p = self.ref.packet(t, i, w, pos)
                    if p is not None and self.ref.more(t, i, w, pos): self.cover["abandoned-transfer"] += 1
                    else: self.cover["chained-transfer"] += 1
                req, pos, transfers, rdy = a[1], 0, transfers - 1, a[2]
            elif kind == "next":
                pos, rdy = pos + self.mps, a[1]
            else:
                retries, rdy = retries - 1, a[1]
                self.cover["retry"] += 1
            t, i, w = self.reqs[req]
            v = (t << 8) | i
            for _ in range(2):
                o = cur.step(value=v, length=w, start_position=pos, ready=rdy)
                if o.valid or o.stall:
                    raise Violation("unsolicited-output", dict(valid=o.valid, stall=o.stall, request=(t, i, w), pos=pos))
            o = cur.step(value=v, length=w, start_position=pos, ready=rdy, start=1)
            sub, n, run = self._monitor(W, 0, 0, (t, i, w), pos, o, rdy)
            return (1, sub, n, run, req, pos, retries, transfers)
        # phase 1: one response cycle
        t, i, w = self.reqs[req]
        o = cur.step(value=(t << 8) | i, length=w, start_position=pos, ready=a)
        sub, n, run = self._monitor(sub, n, run, (t, i, w), pos, o, a)
        if sub == TL and n >= T_TAIL:
            exp = self.ref.packet(t, i, w, pos)
            if exp is None:
                return (0, 0, 0, 0, -1, 0, retries, transfers)
            return (0, 0, 0, 0, req, pos, retries, transfers)
        return (1, sub, n, run, req, pos, retries, transfers)

    def _monitor(self, sub, n, run, rq, pos, o, rdy):
        """one observed cycle of the response to request rq at offset pos.  returns the new (sub, n, run)"""
        t, i, w = rq
        exp = self.ref.packet(t, i, w, pos)
        ctx = dict(type=t, index=i, wLength=w, start_position=pos, mps=self.mps)
        if exp is None:                                           # absent descriptor: STALL, never data
            if o.valid: raise Violation("absent-descriptor:data-sent", dict(ctx, byte=o.payload))
            if sub == W:
                if o.stall:
                    self.cover["stall-absent"] += 1
                    return TL, 0, 0
                if n + 1 >= T_START: raise Violation("absent-descriptor:not-stalled", ctx)
                return W, n + 1, 0
            return TL, n + 1, 0                                   # stall may be held or repeated; no data is what matters
        ctx["expected_packet_len"] = len(exp)
        if o.stall: raise Violation("existing-descriptor:stalled", ctx)
        if sub == W:
            if not o.valid:
                if n + 1 >= T_START: raise Violation("no-response", ctx)
                return W, n + 1, 0
            if len(exp) == 0:
                if o.first or not o.last: raise Violation("zlp-expected:data-sent", dict(ctx, first=o.first, last=o.last, byte=o.payload))
                self.cover["zlp"] += 1
                return Z, 1, 0
            if not o.first:
                if o.last: raise Violation("data-expected:zlp-sent", ctx)
                raise Violation("packet-without-first", ctx)
            sub, n, run = S, 0, 0                                 # fall through: this cycle offers byte 0
        if sub == S:
            if not o.valid: raise Violation("valid-dropped-mid-packet", dict(ctx, at_byte=n))
            if not rdy: return S, n, run + 1
            if o.payload != exp[n]: raise Violation("wrong-byte", dict(ctx, at_byte=n, expected=exp[n], got=o.payload))
            if n == len(exp) - 1:
                if not o.last: raise Violation("packet-too-long:last-missing", dict(ctx, at_byte=n))
                self.cover["packet-delivered"] += 1
                if pos: self.cover["multi-packet"] += 1
                if len(exp) < self.mps: self.cover["short-final-packet"] += 1
                self.outcomes.add((t, i, w, pos, len(exp)))
                return TL, 0, 0
            if o.last: raise Violation("packet-too-short:last-early", dict(ctx, at_byte=n))
            return S, n + 1, 0
        if sub == Z:
            if not o.valid: return TL, 1, 0
            if o.first or not o.last: raise Violation("data-after-zlp", ctx)
            if n + 1 > T_ZLP: raise Violation("zlp-marker-held", ctx)
            return Z, n + 1, 0
        # tail
        if o.valid: raise Violation("data-after-packet-end", dict(ctx, byte=o.payload, first=o.first, last=o.last))
        return TL, n + 1, 0


# ---------------------------------------------------------------------------------------------------------------------
# device level
def device_descriptors(mps, runtime):
    """18-byte device descriptor (3 packets at mps 8), 32-byte configuration descriptor (exact multiple), strings of 4, 10,
    16 (exact multiple) bytes; sparse string index 5;  with runtime=True string 2 is a runtime descriptor"""
    from usb_protocol.emitters import DeviceDescriptorCollection
    from usb_protocol.emitters.descriptors.standard import get_string_descriptor
    d = DeviceDescriptorCollection()
    with d.DeviceDescriptor() as x:
        x.idVendor = 0x16d0; x.idProduct = 0xf3b; x.bMaxPacketSize0 = mps
        x.iManufacturer = "LUNA"; x.iProduct = 2; x.iSerialNumber = 5
        x.bNumConfigurations = 1
    with d.ConfigurationDescriptor() as c:
        with c.InterfaceDescriptor() as i:
            i.bInterfaceNumber = 0
            with i.EndpointDescriptor() as e:
                e.bEndpointAddress = 0x81; e.wMaxPacketSize = 4
            with i.EndpointDescriptor() as e:
                e.bEndpointAddress = 0x01; e.wMaxPacketSize = 4
    s2 = bytes(get_string_descriptor("mc"))          # 6 bytes
    s5 = bytes(get_string_descriptor("serial7"))     # 16 bytes: two full packets
    s6 = bytes(get_string_descriptor("elevenchars"))  # 24 bytes: three full packets, not a power of two
    ref = {}
    if runtime:
        d.add_descriptor(_runtime_factory(s2), index=2, descriptor_type=3)
    else:
        d.add_descriptor(s2, index=2, descriptor_type=3)
    d.add_descriptor(s5, index=5, descriptor_type=3)
    d.add_descriptor(s6, index=6, descriptor_type=3)
    for t, i, raw in d:
        ref[(int(t), i)] = bytes(raw) if isinstance(raw, (bytes, bytearray)) else None
    ref[(3, 2)] = s2
    return d, ref


DEV_REQS = [(1, 0, 18), (1, 0, 64), (1, 0, 8), (2, 0, 9), (2, 0, 32), (2, 0, 255), (3, 0, 255), (3, 1, 255), (3, 2, 255), (3, 5, 255), (3, 5, 16), (3, 5, 2),
            (3, 3, 255), (6, 0, 10), (0x21, 0, 9), (3, 6, 255), (3, 6, 24)]


class DeviceSpec(Spec):
    n_validate = 4
    validate_max_cycles = 3000

    def __init__(self, cfg, tier):
        super().__init__(cfg, tier)
        from rtlmc.env.usb2_host import Host
        self.mps = 8
        self.host = Host(gap=cfg["gap"], pace=cfg["pace"], extra=dict(connect=1))
        self.time_budget = 300 if tier == "quick" else 850
        self._ref = None

    def _descs(self):
        if self._ref is None:
            self._ref = Reference(device_descriptors(self.mps, self.cfg["handler"] == "mux")[1], self.mps)
        return self._ref

    def build(self):
        from harness._usb2dev import build_device
        d, _ = device_descriptors(self.mps, self.cfg["handler"] == "mux")
        design, h = build_device(control="standard", ep0_mps=self.mps, descriptors=d, avoid_blockram=(self.cfg["handler"] == "dist"))
        return design

    def assumptions(self):
        return self.host.assumptions() + [
            "legal host at control-transfer level: after SETUP(GET_DESCRIPTOR) it issues IN tokens while the data stage is incomplete from its point of view, "
            "then the status stage (OUT + zero-length DATA1); it may abandon a transfer by sending a new SETUP",
            "a transaction whose ACK is lost is indistinguishable for the device from one the host did not ACK; afterwards the host either repeats the IN or, "
            "if that was the final packet, moves on to the status stage",
            "the status stage is executed but not judged (C07)"]

    def goals(self):
        return ["dev:multi-packet-read", "dev:zlp", "dev:retransmission", "dev:stall-absent", "dev:chained", "dev:abandoned", "dev:status-after-lost-ack"]

    # env = (req, pos, toggle, stage, lost_left, transfers_left, may_status)
    #   stage 0 idle, 1 data stage (IN expected), 2 status stage expected
    def env0(self):
        return (-1, 0, 1, 0, self.cfg["lost"], self.cfg["transfers"], 0)

    def actions(self, env):
        req, pos, tog, stage, lost, transfers, may_status = env
        acts = []
        if stage == 1:
            acts.append(("in", 1))
            if lost: acts.append(("in", 0))
        if stage == 2 or may_status == 1:
            acts.append(("status",))
        if transfers:
            first = stage == 0 and transfers == self.cfg["transfers"]
            for k in range(len(DEV_REQS)):
                if first or k in (0, 5, 8, 9, 12, 15): acts.append(("setup", k))
        return acts

    def label(self, a):
        if a[0] == "setup":
            t, i, w = DEV_REQS[a[1]]
            return ["setup GET_DESCRIPTOR", dict(type=t, index=i, wLength=w)]
        return a

    def apply(self, cur, env, a):
        from rtlmc.env.usb2_host import PruneCollision
        try:
            return self._do(cur, env, a)
        except PruneCollision:
            return None

    def _do(self, cur, env, a):
        req, pos, tog, stage, lost, transfers, may_status = env
        host, ref = self.host, self._descs()
        if a[0] == "setup":
            if stage == 1: self.cover["dev:abandoned"] += 1
            elif req >= 0: self.cover["dev:chained"] += 1
            t, i, w = DEV_REQS[a[1]]
            host.send(cur, U.token(U.SETUP, 0, 0), False)
            r = host.send(cur, U.data_packet(U.DATA0, U.setup_bytes(0x80, 6, (t << 8) | i, 0, w)), True)
            if r is None or U.classify_device_packet(r) != ("hs", U.ACK):
                raise Violation("dev:setup-not-acked", dict(request=(t, i, w), response=r))
            return (a[1], 0, 1, 1, lost, transfers - 1, 0)
        if a[0] == "status":
            if may_status == 1 and stage == 1: self.cover["dev:status-after-lost-ack"] += 1
            host.send(cur, U.token(U.OUT, 0, 0), False)
            host.send(cur, U.data_packet(U.DATA1, ()), True)
            return (req, 0, 1, 0, lost, transfers, 0)
        # IN token in the data stage
        t, i, w = DEV_REQS[req]
        exp = ref.packet(t, i, w, pos)
        ctx = dict(type=t, index=i, wLength=w, offset=pos)
        resp = host.send(cur, U.token(U.IN, 0, 0), True)
        kind = U.classify_device_packet(resp) if resp is not None else None
        if exp is None:
            if kind == ("hs", U.STALL):
                self.cover["dev:stall-absent"] += 1
                return (req, 0, 1, 0, lost, transfers, 0)
            if kind is not None and kind[0] == "data": raise Violation("dev:absent-descriptor:data-sent", dict(ctx, response=resp))
            raise Violation("dev:absent-descriptor:not-stalled", dict(ctx, response=resp))
        if kind is None: raise Violation("dev:in-not-answered", ctx)
        if kind == ("hs", U.NAK): return env                         # host retries later; no progress
        if kind[0] != "data":
            raise Violation("dev:existing-descriptor:stalled" if kind == ("hs", U.STALL) else "dev:bad-packet", dict(ctx, response=resp, seen=kind))
        _, pid, payload = kind
        want_pid = U.DATA1 if tog else U.DATA0
        if len(payload) > self.mps: raise Violation("dev:packet-longer-than-mps", dict(ctx, length=len(payload)))
        if bytes(payload) != exp:
            if len(exp) == 0: raise Violation("dev:zlp-expected:data-sent", dict(ctx, got=list(payload)))
            raise Violation("dev:wrong-data", dict(ctx, expected=list(exp), got=list(payload)))
        if pid != want_pid: raise Violation("dev:wrong-data-pid", dict(ctx, expected=U.PIDNAME[want_pid], got=U.PIDNAME[pid]))
        if env[6]: self.cover["dev:retransmission"] += 1
        if pos: self.cover["dev:multi-packet-read"] += 1
        if len(exp) == 0: self.cover["dev:zlp"] += 1
        self.outcomes.add((t, i, w, pos, len(payload)))
        more = ref.more(t, i, w, pos)
        if a[1]:
            host.send(cur, U.handshake(U.ACK), False)
            if more: return (req, pos + self.mps, tog ^ 1, 1, lost, transfers, 0)
            return (req, pos, tog, 2, lost, transfers, 0)
        # ACK lost (or data lost on the way to the host): the device must repeat; a host that got the final packet may go to status
        return (req, pos, tog, 1, lost - 1, transfers, 2 if more else 1)     # 1: status stage allowed next, 2: not

    def canon(self, env):
        req, pos, tog, stage, lost, transfers, may_status = env
        return env if stage == 1 else (-1, 0, 1, stage, lost, transfers, 0)


def make(cfg, tier):
    return DeviceSpec(cfg, tier) if cfg["kind"] == "device" else StandaloneSpec(cfg, tier)
