# C57 - The ready-made USB serial (CDC-ACM) device enumerates under a standard host sequence, accepts
#       SET_LINE_CODING, STALLs the other class and vendor requests, and carries bytes both ways in order.
#
# DUT: USBSerialDevice(bus=UTMIInterface(), idVendor, idProduct, max_packet_size=mps) - the complete device (USBDevice,
# standard control endpoint with the descriptors of create_descriptors(), ACMRequestHandlers, vendor/reserved stall
# handler, interrupt IN endpoint 3, bulk OUT/IN endpoint 4), driven packet by packet through the UTMI wire by a
# reference host; the application side (producer of the `tx` stream, consumer of the `rx` stream) is part of the
# environment.  Macro-step mode: one action = one host transaction ("txn" granularity: SETUP / control IN / control
# OUT / bulk OUT / bulk IN ...) or one complete control transfer ("xfer" granularity), or one application-side action
# (push bytes into tx, drain rx).
#
# Oracle (reference host written from USB 2.0 ch. 8/9 and CDC PSTN 1.2, not from the implementation):
#   * every SETUP transaction is ACKed; GET_DESCRIPTOR data stages return exactly the bytes of create_descriptors()
#     (truncated to wLength, DATA1 first, toggling, 64-byte packets), absent descriptors are STALLed, the status stage is
#     ACKed; completely read device/configuration descriptors are additionally parsed the way a host's CDC-ACM driver
#     does (ids, two interfaces, union/call-management, interrupt IN + bulk IN + bulk OUT endpoints of max_packet_size);
#   * SET_ADDRESS / SET_CONFIGURATION answer their status stage with a DATA1 ZLP and the device then answers at the new
#     address (all later traffic uses it);
#   * SET_LINE_CODING: the 7-byte OUT data stage is ACKed and the status stage answered with a DATA1 ZLP;
#   * every other class request and every vendor request ends with a STALL handshake (in its data or status stage);
#     silence or a success status is a violation;
#   * rx: the bytes taken from the rx stream (during the action + lookahead drain) equal, in order, the payloads of the
#     bulk OUT packets the device ACKed (a packet with the toggle the host expects); a valid packet must be answered,
#     and NAK is only admitted while undelivered bytes are still buffered;
#   * tx: the bytes the host accepts from bulk IN packets (toggle as expected) are, in order, the bytes the tx stream
#     accepted (valid & ready); every accepted byte up to the last one flagged `last` reaches a polling host (lookahead).
from collections import namedtuple
from rtlmc.model import Design, Violation
from rtlmc.explore import Spec
from rtlmc import usbref as U
from rtlmc.env.usb2_host import Host, PruneCollision, utmi_design_ports, UTMI_DEFAULTS, J, K

PROPERTY = "C57"
LEVEL_TEXT = ("All orders (up to the depth bound) of host control requests (GET_DESCRIPTOR device/configuration/strings/absent ones, "
              "SET_ADDRESS, SET_CONFIGURATION, SET_LINE_CODING, other class requests and vendor requests with no / IN / OUT data stage) - as "
              "whole transfers or transaction by transaction with interleaved bulk traffic, abandoned transfers and lost ACKs - together with bulk "
              "OUT packets of every size class, bulk IN polls (ACKed, ACK lost, not received), interrupt polls, tx-stream pushes and rx-stream "
              "back-pressure are enumerated on the real USBSerialDevice netlist behind its UTMI wire; every response is compared with a "
              "reference host, and after every action the complete rx stream content (lookahead drain) and the deliverability of the tx "
              "bytes (lookahead polling) are compared with reference queues.")
TECHNIQUE = "explicit-state BFS over the elaborated netlist, macro-step (transaction / transfer level) actions, reference host + lookahead probes"

VID, PRODUCT = 0x16d0, 0x0f3b
EP0_MPS = 64
DATA_EP, STATUS_EP = 4, 3
LINE_CODING = (0x00, 0xC2, 0x01, 0x00, 0x00, 0x00, 0x08)      # 115200 8N1
OTHER_DATA = (0x11, 0x22, 0x33, 0x44)

#  name: ((bmRequestType, bRequest, wValue, wIndex, wLength), category, expectation)
REQS = {
    # standard enumeration
    "GDD64":  ((0x80, 6, 0x0100, 0, 64),       "enum", ("desc", 1, 0)),
    "GDD18":  ((0x80, 6, 0x0100, 0, 18),       "enum", ("desc", 1, 0)),
    "GDD8":   ((0x80, 6, 0x0100, 0, 8),        "enum", ("desc", 1, 0)),
    "GDC9":   ((0x80, 6, 0x0200, 0, 9),        "enum", ("desc", 2, 0)),
    "GDC64":  ((0x80, 6, 0x0200, 0, 64),       "enum", ("desc", 2, 0)),      # exactly one full packet, no ZLP
    "GDC255": ((0x80, 6, 0x0200, 0, 255),      "enum", ("desc", 2, 0)),      # two packets
    "GDS0":   ((0x80, 6, 0x0300, 0, 255),      "enum", ("desc", 3, 0)),
    "GDS1":   ((0x80, 6, 0x0301, 0x0409, 255), "enum", ("desc", 3, 1)),
    "GDS2":   ((0x80, 6, 0x0302, 0x0409, 255), "enum", ("desc", 3, 2)),
    "GDS3":   ((0x80, 6, 0x0303, 0x0409, 255), "enum", ("desc", 3, 3)),
    "GDS2S":  ((0x80, 6, 0x0302, 0x0409, 2),   "enum", ("desc", 3, 2)),      # length probe hosts do first
    "GDSEE":  ((0x80, 6, 0x03EE, 0, 18),       "enum", ("nodesc",)),         # Microsoft OS string descriptor probe
    "GDQ":    ((0x80, 6, 0x0600, 0, 10),       "enum", ("nodesc",)),         # device qualifier
    "SA33":   ((0x00, 5, 0x33, 0, 0),          "enum", ("addr", 0x33)),
    "SA35":   ((0x00, 5, 0x35, 0, 0),          "enum", ("addr", 0x35)),
    "SC1":    ((0x00, 9, 1, 0, 0),             "enum", ("config", 1)),
    "SC0":    ((0x00, 9, 0, 0, 0),             "enum", ("config", 0)),
    "GC":     ((0x80, 8, 0, 0, 1),             "enum", ("cfgbyte",)),
    # CDC-ACM class requests
    "SLC":    ((0x21, 0x20, 0, 0, 7),          "set-line-coding", ("accept",)),
    "SCLS":   ((0x21, 0x22, 3, 0, 0),          "class", ("stall",)),          # SET_CONTROL_LINE_STATE, no data stage
    "SBRK":   ((0x21, 0x23, 0xFFFF, 0, 0),     "class", ("stall",)),          # SEND_BREAK
    "GLC":    ((0xA1, 0x21, 0, 0, 7),          "class", ("stall",)),          # GET_LINE_CODING, IN data stage
    "SEC":    ((0x21, 0x00, 0, 0, 4),          "class", ("stall",)),          # SEND_ENCAPSULATED_COMMAND, OUT data stage
    "C20IN":  ((0xA1, 0x20, 0, 0, 7),          "class", ("stall",)),          # request code 0x20 in the device-to-host direction
    # vendor requests
    "VND0":   ((0x40, 1, 0, 0, 0),             "vendor", ("stall",)),
    "VIN":    ((0xC0, 1, 0, 0, 4),             "vendor", ("stall",)),
    "VOUT":   ((0x40, 1, 0, 0, 4),             "vendor", ("stall",)),
    "VIN1":   ((0xC1, 0x20, 0, 0, 7),          "vendor", ("stall",)),         # vendor request reusing code 0x20, interface recipient
}

ENUM = ["GDD64", "GDD18", "GDD8", "GDC9", "GDC64", "GDC255", "GDS0", "GDS1", "GDS2", "GDS3", "GDS2S", "GDSEE", "GDQ", "SA33", "SA35", "SC1", "SC0", "GC"]
CLASS = ["SLC", "SCLS", "SBRK", "GLC", "SEC", "C20IN", "VND0", "VIN", "VOUT", "VIN1"]
ALL = ENUM + CLASS
NOLIMIT = 99        # control-only alphabets reach a fixpoint: the exploration is exhaustive for request sequences of any length


def configs(tier):
    if tier == "quick":
        cs = [
            # control requests only: whole transfers in every order / transaction by transaction with abandoned transfers,
            # lost ACKs, early status stages and SOFs
            dict(name="ctl-xfer-enum", mps=64, gap=1, pace=1, gran="xfer", reqs=ENUM, depth=NOLIMIT),
            dict(name="ctl-xfer-class", mps=8, gap=3, pace=2, gran="xfer", reqs=CLASS + ["GDD18", "GDC255", "SA33", "SC1"], depth=NOLIMIT),
            dict(name="ctl-txn-enum", mps=64, gap=1, pace=1, gran="txn", reqs=["GDD18", "GDC255", "GDS2", "GDQ", "SA33", "SC1"], abandon=1, lost=1, early=1, sof=1, depth=NOLIMIT),
            dict(name="ctl-txn-class", mps=8, gap=2, pace=1, gran="txn", reqs=["SLC", "SCLS", "GLC", "SEC", "C20IN", "VIN", "VOUT", "SC1"], abandon=1, lost=1, sof=1, depth=NOLIMIT),
            # control requests and data traffic
            dict(name="class-xfer-data", mps=2, gap=1, pace=1, gran="xfer", reqs=["SC1", "SLC", "SCLS", "GLC", "SEC", "C20IN", "VIN", "VOUT", "GDC255"], depth=4,
                 data=dict(sizes=[1, 2], push=[1], inmodes=["ack"])),
            dict(name="slc-txn-data", mps=2, gap=1, pace=1, gran="txn", reqs=["SLC", "GLC"], depth=5, pre=["SA33", "SC1"],
                 data=dict(sizes=[1, 2], push=[1], inmodes=["ack"])),
            dict(name="enum-txn-data", mps=3, gap=2, pace=1, gran="txn", reqs=["GDC255", "VOUT"], abandon=1, depth=5, pre=["SC1"],
                 data=dict(sizes=[3], push=[1], inmodes=["ack"])),
            # data both ways
            dict(name="data-m2", mps=2, gap=1, pace=1, gran="xfer", reqs=["SLC"], depth=5, pre=["SA33", "SC1"],
                 data=dict(sizes=[0, 1, 2], push=[0, 1], inmodes=["ack", "lost", "noack"], feed=2, rep=1, in3=1)),
            dict(name="data-m3", mps=3, gap=2, pace=1, gran="xfer", reqs=[], depth=5, pre=["SC1"],
                 data=dict(sizes=[1, 2, 3], push=[0, 1], inmodes=["ack", "lost"], feed=3, sof=1)),
            dict(name="data-m4-pace", mps=4, gap=1, pace=2, gran="xfer", reqs=["SLC"], depth=4, pre=["SA33", "SC1"],
                 data=dict(sizes=[0, 3, 4], push=[0, 1], burst=4, inmodes=["ack", "lost"])),
            dict(name="data-m64", mps=64, gap=1, pace=1, gran="xfer", reqs=["SLC"], depth=4, pre=["SA33", "SC1"],
                 data=dict(sizes=[0, 1, 63, 64], push=[1], burst=64, inmodes=["ack", "lost"])),
            dict(name="reconf", mps=2, gap=1, pace=1, gran="xfer", reqs=["SC1", "SC0"], depth=6, pre=["SC1"],
                 data=dict(sizes=[1], push=[1], inmodes=["ack"])),
            # non-default max_packet_size above 64 (the class documents 256/512; this wire model stays at full speed):
            # OUT packets around the 64/128/mps boundaries, IN bursts longer than 64 bytes, descriptors re-read
            dict(name="big-m128", mps=128, gap=1, pace=1, gran="xfer", reqs=["GDC255"], depth=3, pre=["SA33", "SC1"],
                 data=dict(sizes=[64, 65, 127, 128], push=[], burst=[100, 128], inmodes=["ack"])),
            dict(name="big-m512", mps=512, gap=1, pace=1, gran="xfer", reqs=["GDC255"], depth=3, pre=["SC1"],
                 data=dict(sizes=[63, 128, 511, 512], push=[], burst=[300, 512], inmodes=["ack"])),
        ]
    else:
        cs = [
            dict(name="ctl-xfer-all", mps=64, gap=1, pace=1, gran="xfer", reqs=ALL, depth=NOLIMIT),
            dict(name="ctl-xfer-all-b", mps=8, gap=4, pace=2, gran="xfer", reqs=ALL, depth=NOLIMIT),
            dict(name="ctl-txn-enum", mps=64, gap=1, pace=1, gran="txn", reqs=[r for r in ENUM if r not in ("GDD8", "GDS1", "GDS3", "GDS2S")], abandon=1, lost=1, early=1, sof=1, depth=NOLIMIT),
            dict(name="ctl-txn-class", mps=8, gap=3, pace=2, gran="txn", reqs=CLASS + ["SA33", "SC1", "GDC255"], abandon=1, lost=1, early=1, sof=1, depth=NOLIMIT),
            dict(name="ctl-txn-mix", mps=2, gap=6, pace=1, gran="txn", reqs=["GDD64", "GDC9", "GDS0", "GDSEE", "SA35", "SC1", "SC0", "SLC", "SBRK", "GLC", "VND0", "VOUT"], abandon=1, lost=1, early=1, depth=NOLIMIT),
            dict(name="all-xfer-data", mps=4, gap=1, pace=1, gran="xfer", reqs=["GDD18", "GDC255", "SA33", "SC1", "SLC", "SCLS", "GLC", "SEC", "C20IN", "VND0", "VIN", "VOUT"], depth=5,
                 data=dict(sizes=[1, 4], push=[1], inmodes=["ack"])),
            dict(name="class-xfer-data", mps=2, gap=2, pace=1, gran="xfer", reqs=["SC1", "SLC", "SCLS", "GLC", "SEC", "VND0", "VIN", "VOUT"], depth=6,
                 data=dict(sizes=[1, 2], push=[0, 1], inmodes=["ack", "lost"])),
            dict(name="slc-txn-data", mps=2, gap=1, pace=1, gran="txn", reqs=["SLC", "GLC", "VOUT"], lost=1, depth=6, pre=["SA33", "SC1"],
                 data=dict(sizes=[1, 2], push=[0, 1], inmodes=["ack", "lost"])),
            dict(name="enum-txn-data", mps=3, gap=1, pace=1, gran="txn", reqs=["GDC255", "SC1", "VOUT"], abandon=1, depth=6, pre=["SA33", "SC1"],
                 data=dict(sizes=[2, 3], push=[1], inmodes=["ack"], sof=1)),
            dict(name="data-m2", mps=2, gap=1, pace=1, gran="xfer", reqs=["SLC"], depth=7, pre=["SA33", "SC1"],
                 data=dict(sizes=[0, 1, 2], push=[0, 1], inmodes=["ack", "lost", "noack"], feed=2, rep=1, in3=1)),
            dict(name="data-m2-gap", mps=2, gap=3, pace=2, gran="xfer", reqs=["VIN"], depth=6, pre=["SC1"],
                 data=dict(sizes=[0, 1, 2], push=[0, 1], inmodes=["ack", "lost"], feed=3, rep=1, sof=1)),
            dict(name="data-m3", mps=3, gap=2, pace=1, gran="xfer", reqs=[], depth=6, pre=["SC1"],
                 data=dict(sizes=[1, 2, 3], push=[0, 1], inmodes=["ack", "lost", "noack"], feed=3, sof=1)),
            dict(name="data-m4-pace", mps=4, gap=1, pace=2, gran="xfer", reqs=["SLC"], depth=6, pre=["SA33", "SC1"],
                 data=dict(sizes=[0, 1, 3, 4], push=[0, 1], burst=4, inmodes=["ack", "lost"], rep=1)),
            dict(name="data-m8", mps=8, gap=1, pace=1, gran="xfer", reqs=[], depth=6, pre=["SA35", "SC1"],
                 data=dict(sizes=[1, 7, 8], push=[0, 1], burst=8, inmodes=["ack", "lost"], feed=9)),
            dict(name="data-m64", mps=64, gap=1, pace=1, gran="xfer", reqs=["SLC"], depth=5, pre=["SA33", "SC1"],
                 data=dict(sizes=[0, 1, 63, 64], push=[0, 1], burst=64, inmodes=["ack", "lost"], rep=1)),
            dict(name="reconf", mps=2, gap=1, pace=1, gran="xfer", reqs=["SC1", "SC0", "SA33"], depth=8, pre=["SC1"],
                 data=dict(sizes=[1, 2], push=[1], inmodes=["ack", "lost"])),
            # non-default max_packet_size above 64
            dict(name="big-m128", mps=128, gap=1, pace=1, gran="xfer", reqs=["GDC255", "SLC"], depth=4, pre=["SA33", "SC1"],
                 data=dict(sizes=[0, 63, 64, 65, 127, 128], push=[1], burst=[65, 128], inmodes=["ack", "lost"], rep=1)),
            dict(name="big-m256", mps=256, gap=2, pace=1, gran="xfer", reqs=["GDC255"], depth=4, pre=["SC1"],
                 data=dict(sizes=[64, 65, 127, 128, 255, 256], push=[0], burst=[129, 256], inmodes=["ack", "lost"])),
            dict(name="big-m512", mps=512, gap=1, pace=1, gran="xfer", reqs=["GDC255"], depth=4, pre=["SA33", "SC1"],
                 data=dict(sizes=[63, 65, 127, 128, 511, 512], push=[], burst=[300, 512], inmodes=["ack"])),
        ]
    return cs


# ---------------------------------------------------------------------------------------------------------------------
# environment: packet-level host that also plays the application side of the two streams
class SerialHost(Host):
    """Every cycle spent through this host also drives the rx-stream consumer (`s_rx_ready` = self.rdy) and the
    tx-stream producer (offers self.offer[self.idx] while bytes are left) and records the beats that happened."""
    def __init__(self, **kw):
        super().__init__(**kw)
        self.begin()

    def begin(self, rdy=0, offer=()):
        self.rdy = rdy
        self.offer = offer
        self.idx = 0
        self.consumed = []
        self.blocked = 0

    def _cyc(self, cur, **kw):
        if self.rdy: kw["s_rx_ready"] = 1
        presented = self.idx < len(self.offer)
        if presented:
            b, l = self.offer[self.idx]
            kw["s_tx_valid"] = 1; kw["s_tx_payload"] = b; kw["s_tx_last"] = l
        o = cur.step(**kw)
        if self.rdy and o.s_rx_valid: self.consumed.append(o.s_rx_payload)
        if presented:
            if o.s_tx_ready: self.idx += 1
            else: self.blocked += 1
        if self.on_cycle: self.on_cycle(o)
        return o

    def tick(self, cur, n=1):
        """application-side cycles without bus traffic; the line is held out of J so that the bus-idle (suspend) timer of
        the reset sequencer does not make every tick a new state"""
        for _ in range(n):
            self._cyc(cur, line_state=K)

    def settle(self, cur):
        """end an application-side action the way a bus event ends (inter-packet gap in J)"""
        for _ in range(self.gap):
            self._cyc(cur, line_state=J)


E = namedtuple("E", "addr cfgd ctl otog itog rxq txq txcnt dirty lastout inflight")
#   addr, cfgd  address / configuration the reference host has assigned
#   ctl         control transfer in progress: None | (request name, stage, bytes received, expected data PID, NAKs in a row)
#               stage: "din" IN data stage, "dout" OUT data stage, "sin" status IN, "sout" status OUT
#   otog, itog  data toggle the host uses next for bulk OUT / expects next from bulk IN
#   rxq         bytes the device ACKed on bulk OUT that the rx stream has not yet handed over
#   txq         (byte, last) beats the tx stream accepted that the host has not yet received
#   txcnt       number of accepted tx beats mod 4 (tags)
#   dirty       1 once the host reset its toggles by SET_CONFIGURATION after bulk traffic had advanced them
#   lastout     payload size of the last ACKed bulk OUT packet (for retransmissions) or None
#   inflight    1 while the host holds a bulk IN packet whose ACK was lost and the device has not yet seen an ACK for it


def out_payload(length, toggle):
    return tuple((0x10 * length + 0x80 * toggle + i + 1) & 0xFF for i in range(length))


def tx_beat(count, last):
    return (0xC0 | (count & 3) | (last << 4), last)


def parse_descriptors(raw):
    out, i = [], 0
    while i < len(raw):
        n = raw[i]
        if n < 2 or i + n > len(raw): return None
        out.append(bytes(raw[i:i + n])); i += n
    return out


def check_device_descriptor(d):
    """what a host checks in a completely read device descriptor (USB 2.0 table 9-8)"""
    if len(d) != 18 or d[0] != 18 or d[1] != 1: return "length/type"
    if d[7] != EP0_MPS: return "bMaxPacketSize0"
    if (d[8] | d[9] << 8) != VID or (d[10] | d[11] << 8) != PRODUCT: return "idVendor/idProduct"
    if d[17] != 1: return "bNumConfigurations"
    return None


def check_config_descriptor(d, mps):
    """what a host's CDC-ACM driver needs from a completely read configuration descriptor (USB 2.0 9.6.3-9.6.6, CDC 1.2 5.2.3)"""
    ds = parse_descriptors(d)
    if not ds or ds[0][1] != 2 or len(ds[0]) != 9: return "configuration header"
    if (ds[0][2] | ds[0][3] << 8) != len(d): return "wTotalLength"
    if ds[0][4] != 2 or ds[0][5] != 1: return "bNumInterfaces/bConfigurationValue"
    ifaces, cur_if, union, eps = {}, None, None, {}
    for x in ds[1:]:
        if x[1] == 4:
            if len(x) != 9: return "interface descriptor length"
            cur_if = x[2]; ifaces[cur_if] = (x[5], x[6], x[7], x[4]); eps[cur_if] = []
        elif x[1] == 5:
            if len(x) != 7 or cur_if is None: return "endpoint descriptor"
            eps[cur_if].append((x[2], x[3] & 3, x[4] | x[5] << 8))
        elif x[1] == 0x24 and len(x) >= 3 and x[2] == 0x06:
            if len(x) < 5: return "union descriptor"
            union = (x[3], x[4])
    comm = [i for i, c in ifaces.items() if c[0] == 0x02 and c[1] == 0x02]
    data = [i for i, c in ifaces.items() if c[0] == 0x0A]
    if len(comm) != 1 or len(data) != 1: return "communication/data interface"
    if union != (comm[0], data[0]): return "union functional descriptor"
    for i in ifaces:
        if ifaces[i][3] != len(eps[i]): return "bNumEndpoints"
    if sorted(eps[comm[0]]) != [(0x80 | STATUS_EP, 3, mps)]: return "notification endpoint"
    if sorted(eps[data[0]]) != [(DATA_EP, 2, mps), (0x80 | DATA_EP, 2, mps)]: return "bulk endpoints"
    return None


class AcmSpec(Spec):
    n_validate = 4
    validate_max_cycles = 3000

    def __init__(self, cfg, tier):
        super().__init__(cfg, tier)
        self.mps = cfg["mps"]
        self.cap = 2 * self.mps - 1                     # documented default buffer of the OUT endpoint
        self.max_depth = cfg["depth"]
        self.time_budget = 600 if tier == "quick" else 3000      # safety net only: the depth bounds limit the work
        self.gran = cfg["gran"]
        self.reqs = list(cfg["reqs"])
        self.abandon, self.lost, self.early = cfg.get("abandon", 0), cfg.get("lost", 0), cfg.get("early", 0)
        self.data = cfg.get("data")
        self.pre = cfg.get("pre", [])
        self.host = SerialHost(gap=cfg["gap"], pace=cfg["pace"])
        self.phost = SerialHost(gap=cfg["gap"], pace=cfg["pace"])      # used on forks (lookahead probes) only
        self._desc = None

    # ---- DUT
    def _device(self):
        from luna.gateware.usb.devices.acm import USBSerialDevice
        from luna.gateware.interface.utmi import UTMIInterface
        utmi = UTMIInterface()
        return utmi, USBSerialDevice(bus=utmi, idVendor=VID, idProduct=PRODUCT, max_packet_size=self.mps)

    def build(self):
        utmi, dut = self._device()
        ins, obs = utmi_design_ports(utmi)
        ins.update(connect=dut.connect, s_tx_valid=dut.tx.valid, s_tx_payload=dut.tx.payload, s_tx_first=dut.tx.first,
                   s_tx_last=dut.tx.last, s_rx_ready=dut.rx.ready)
        obs.update(s_rx_valid=dut.rx.valid, s_rx_payload=dut.rx.payload, s_tx_ready=dut.tx.ready)
        return Design(dut, ins, obs, dict(UTMI_DEFAULTS, connect=1))

    def descriptor(self, type_number, index):
        if self._desc is None:
            self._desc = {(t, i): bytes(raw) for t, i, raw in self._device()[1].create_descriptors()}
        return self._desc.get((type_number, index))

    def assumptions(self):
        return self.host.assumptions() + [
            "legal host at control-transfer level: endpoint 0 only sees the transactions of the transfer's current stage (or a new SETUP); "
            "an IN data stage may be ended early by the status stage; a stage NAKed three times in a row counts as never answered",
            "the host talks to the address it assigned; it moves data on endpoint 4 only while the device is configured",
            "the host resets its endpoint-4 data toggles to DATA0 when it sends SET_CONFIGURATION [USB 2.0 9.1.1.5]",
            "bulk OUT payloads never exceed max_packet_size; a repeated toggle is only sent as the retransmission of the last ACKed packet",
            "a bulk IN packet is either received (ACK sent), received with the ACK lost on its way, or not received; a packet with an unexpected toggle is ACKed and dropped [USB 2.0 8.6.4]",
            "the host does not send SET_CONFIGURATION between receiving a bulk IN packet whose ACK got lost and acknowledging the device's next packet (resetting the toggles in that window duplicates the packet whatever the device does)",
            "application side: rx `ready` is constant during a bus transaction; the tx producer offers tagged bytes and withdraws an offer that is not accepted by the end of the action",
            "full speed (no high-speed negotiation), no bus reset, no suspend"]

    def goals(self):
        g = []
        kinds = {REQS[r][2][0] for r in self.reqs + self.pre}
        # (requests whose STALL the vacuity guard insists on: no OUT data stage, not the 0x20-in-IN-direction corner)
        cats = {REQS[r][1] for r in self.reqs if REQS[r][2][0] == "stall" and r != "C20IN" and (REQS[r][0][4] == 0 or REQS[r][0][0] & 0x80)}
        if "desc" in kinds: g.append("descriptor-read")
        if "GDC255" in self.reqs: g.append("descriptor-two-packets")
        if "nodesc" in kinds: g.append("absent-descriptor-stalled")
        if "addr" in kinds: g.append("address-set")
        if "config" in kinds: g.append("configured")
        if "accept" in kinds: g.append("set-line-coding-accepted")
        if "class" in cats: g.append("class-request-stalled")
        if "vendor" in cats: g.append("vendor-request-stalled")
        if self.gran == "txn" and self.abandon: g.append("transfer-abandoned")
        if self.gran == "txn" and self.lost: g.append("control-ack-lost")
        if self.data:
            g += ["rx-delivered", "tx-delivered"]
            d = self.data
            if self.max_depth >= 4 and len([s for s in d["sizes"] if s]) and max(d["sizes"]) * 2 > self.cap: g.append("rx-packet-into-full-buffer")
            if "lost" in d["inmodes"]: g.append("tx-retransmission-dropped-by-host")
        if self.gran == "txn" and self.reqs and (self.data or self.cfg.get("sof")): g.append("bulk-inside-control-transfer")
        return g

    # ---- exploration interface
    def env0(self):
        return E(0, 0, None, 0, 0, (), (), 0, 0, None, 0)

    def prologue(self, cur):
        self.host.begin()
        self.host.idle(cur, 2)
        env = self.env0()
        try:
            for r in self.pre:
                env = self._xfer(cur, env, r)
        except Violation as v:
            return ("PROLOGUE-FAILED", v.rule, repr(v.detail))
        except PruneCollision:
            return ("PROLOGUE-FAILED", "wire:collision-during-enumeration", "")
        return env

    def actions(self, env):
        if env[0] == "PROLOGUE-FAILED": return [("report-prologue-failure",)]
        acts = []
        ctl = env.ctl
        reqs = self.reqs if not env.inflight else [r for r in self.reqs if REQS[r][2][0] != "config"]
        configuring = ctl is not None and REQS[ctl[0]][2][0] == "config"
        if self.gran == "xfer":
            acts += [("xfer", r) for r in reqs]
        else:
            if ctl is None or self.abandon:
                acts += [("setup", r) for r in reqs]
            if ctl is not None:
                stage = ctl[1]
                if stage in ("din", "sin"):
                    acts.append(("cin", "ack"))
                    if self.lost: acts.append(("cin", "lost"))
                if stage in ("dout", "sout") or (stage == "din" and self.early and ctl[2] > 0):
                    acts.append(("cout",))
        d = self.data
        if self.cfg.get("sof") or (d and d.get("sof")): acts.append(("sof",))
        if d and env.cfgd:
            for L in d["sizes"]:
                acts.append(("out", L, 0)); acts.append(("out", L, 1))
            if d.get("rep") and env.lastout is not None: acts.append(("outrep", env.lastout))
            for mo in d["inmodes"]:
                if mo != "lost" or not configuring: acts.append(("in", mo))
            if d.get("feed"): acts.append(("infeed", d["feed"]))
            for l in d["push"]: acts.append(("push", 1, l))
            b = d.get("burst") or []
            for n in (b if isinstance(b, list) else [b]): acts.append(("push", n, 1))
            if env.rxq:
                acts.append(("drain", 1))
                if len(env.rxq) > 1: acts.append(("drain", 0))
            if d.get("in3"): acts.append(("in3",))
        return acts

    def label(self, a): return list(a)

    def apply(self, cur, env, a):
        if a[0] == "report-prologue-failure":
            raise Violation(env[1], dict(during="standard enumeration sequence %s run before the exploration" % (self.pre,), detail=env[2]))
        try:
            return self._apply(cur, env, a)
        except PruneCollision:
            self.cover["pruned-collision"] += 1
            return None

    def _apply(self, cur, env, a):
        host = self.host
        kind = a[0]
        host.begin()
        if kind == "xfer":
            new = self._xfer(cur, env, a[1])
        elif kind == "setup":
            if env.ctl is not None: self.cover["transfer-abandoned"] += 1
            new = self._setup(cur, env, a[1])
        elif kind == "cin":
            new = self._cin(cur, env, a[1])
        elif kind == "cout":
            new = self._cout(cur, env)
        elif kind in ("out", "outrep"):
            new = self._bulk_out(cur, env, a)
        elif kind in ("in", "infeed"):
            new = self._bulk_in(cur, env, a)
        elif kind == "push":
            _, n, last = a
            offer = tuple(tx_beat(env.txcnt + i, 1 if (last and i == n - 1) else 0) for i in range(n))
            host.begin(0, offer)
            host.tick(cur, n + 1)
            host.settle(cur)
            new = self._account_offer(env)
        elif kind == "drain":
            n = a[1] if a[1] else len(env.rxq) + 4
            host.begin(1)
            host.tick(cur, n)
            host.rdy = 0
            host.settle(cur)
            new = env
        elif kind == "sof":
            host.send(cur, U.sof(0x2A5), False)
            self.cover["sof"] += 1
            new = env
        elif kind == "in3":
            resp = host.send(cur, U.token(U.IN, env.addr, STATUS_EP), True)
            k = U.classify_device_packet(resp) if resp is not None else None
            if k and k[0] == "data": host.send(cur, U.handshake(U.ACK), False)
            if k == ("hs", U.NAK): self.cover["notification-endpoint-nak"] += 1
            new = env
        else:
            raise AssertionError(a)
        if kind in ("out", "outrep", "in", "infeed", "in3", "sof") and env.ctl is not None: self.cover["bulk-inside-control-transfer"] += 1
        new = self._check_rx(cur, env, new, a)
        self._check_tx_deliverable(cur, new, a)
        self.outcomes.add((kind, a[1] if len(a) > 1 else None, new.ctl[1] if new.ctl else None, len(new.rxq), len(new.txq)))
        return new

    # ---- stream side
    def _sfx(self, env):
        return ":after-repeated-set-configuration" if env.dirty else ""

    def _account_offer(self, env):
        """beats the tx stream accepted during this action join the reference queue"""
        host = self.host
        n = host.idx
        if host.blocked: self.cover["tx-backpressure"] += 1
        if n == 0: return env
        return env._replace(txq=env.txq + tuple(host.offer[:n]), txcnt=(env.txcnt + n) & 3)

    def _check_rx(self, cur, old, new, a):
        """rx stream content = reference queue: beats taken during the action + lookahead drain"""
        consumed = tuple(self.host.consumed)
        ph = self.phost
        f = cur.fork()
        ph.begin(1)
        quiet = 0
        for _ in range(2 * self.cap + 16):
            n0 = len(ph.consumed)
            ph._cyc(f, line_state=K)
            quiet = quiet + 1 if len(ph.consumed) == n0 else 0
            if quiet >= 4: break
        observed = consumed + tuple(ph.consumed)
        expected = new.rxq
        if observed != expected:
            added = len(new.rxq) > len(old.rxq)
            if added and observed == old.rxq: rule = "rx:acked-packet-not-delivered"
            elif len(observed) > len(expected) and observed[:len(expected)] == expected: rule = "rx:bytes-delivered-that-were-not-acked"
            else: rule = "rx:stream-differs-from-acked-bytes"
            raise Violation(rule + self._sfx(new), dict(action=a, expected=expected, observed=observed, queue_before=old.rxq))
        if consumed: self.cover["rx-consumed-during-action"] += 1
        return new._replace(rxq=expected[len(consumed):])

    def _in4(self, cur, host, env, mode, a):
        """one bulk IN transaction of the reference host; returns the new env"""
        resp = host.send(cur, U.token(U.IN, env.addr, DATA_EP), True)
        if resp is None:
            raise Violation("tx:in-token-unanswered", dict(action=a))
        k = U.classify_device_packet(resp)
        is_data = k[0] == "data" and k[1] in (U.DATA0, U.DATA1)
        if is_data and mode == "ack": host.send(cur, U.handshake(U.ACK), False)
        if host.offer: env = self._account_offer(env)       # beats the tx stream accepted while the transaction ran
        if k == ("hs", U.NAK): return env
        if not is_data:
            raise Violation("tx:bad-response-to-in", dict(action=a, response=k))
        if mode == "noack": return env
        tog = 1 if k[1] == U.DATA1 else 0
        if mode == "ack": env = env._replace(inflight=0)
        elif tog == env.itog: env = env._replace(inflight=1)
        if tog != env.itog:
            if host is self.host: self.cover["tx-retransmission-dropped-by-host"] += 1
            return env
        p = k[2]
        want = tuple(b for b, _ in env.txq[:len(p)])
        if len(p) > self.mps:
            raise Violation("tx:packet-longer-than-max-packet-size", dict(action=a, got=p))
        if p != want:
            raise Violation("tx:host-received-bytes-differ-from-stream" + self._sfx(env), dict(action=a, got=p, pending=env.txq))
        if host is self.host:
            if p: self.cover["tx-delivered"] += 1
            else: self.cover["tx-zlp"] += 1
            if len(p) == self.mps: self.cover["tx-full-packet"] += 1
        return env._replace(txq=env.txq[len(p):], itog=1 - env.itog)

    def _bulk_in(self, cur, env, a):
        host = self.host
        if a[0] == "infeed":
            offer = tuple(tx_beat(env.txcnt + i, 0) for i in range(a[1]))
            host.begin(0, offer)
            return self._in4(cur, host, env, "ack", a)
        return self._in4(cur, host, env, a[1], a)

    def _check_tx_deliverable(self, cur, env, a):
        must = 0
        for i, (_, l) in enumerate(env.txq):
            if l: must = i + 1
        if not must: return
        ph = self.phost
        f = cur.fork()
        ph.begin()
        e = env
        target = len(env.txq) - must
        for _ in range(2 * must + 4):
            e = self._in4(f, ph, e, "ack", a)
            if len(e.txq) <= target: return
        raise Violation("tx:bytes-not-delivered" + self._sfx(env),
                        dict(action=a, pending=env.txq, still_pending_after_polling=e.txq, polls=2 * must + 4))

    def _bulk_out(self, cur, env, a):
        host = self.host
        if a[0] == "outrep":
            L, rdy, tog, rep = a[1], 0, 1 - env.otog, True
        else:
            _, L, rdy = a
            tog, rep = env.otog, False
        host.begin(rdy)
        host.send(cur, U.token(U.OUT, env.addr, DATA_EP), False)
        resp = host.send(cur, U.data_packet(U.DATA1 if tog else U.DATA0, out_payload(L, tog)), True)
        host.rdy = 0
        k = U.classify_device_packet(resp) if resp is not None else None
        if not rep and len(env.rxq) + L > self.cap: self.cover["rx-packet-into-full-buffer"] += 1
        if k == ("hs", U.ACK):
            if rep:
                self.cover["rx-retransmission-acked"] += 1
                return env
            self.cover["rx-delivered" if L else "rx-zlp"] += 1
            return env._replace(rxq=env.rxq + out_payload(L, tog), otog=1 - env.otog, lastout=L)
        if k == ("hs", U.NAK):
            if not env.rxq:
                raise Violation("rx:nak-with-empty-buffer", dict(action=a))
            self.cover["rx-nak-backpressure"] += 1
            return env
        raise Violation("rx:valid-packet-unanswered" if k is None else "rx:bad-response-to-out", dict(action=a, response=k))

    # ---- control transfers
    def _xfer(self, cur, env, r):
        env = self._setup(cur, env, r)
        for _ in range(12):
            if env.ctl is None: return env
            env = self._cin(cur, env, "ack") if env.ctl[1] in ("din", "sin") else self._cout(cur, env)
        raise Violation("control:transfer-does-not-end", dict(request=r, ctl=env.ctl))

    def _setup(self, cur, env, r):
        host = self.host
        req = REQS[r][0]
        host.send(cur, U.token(U.SETUP, env.addr, 0), False)
        resp = host.send(cur, U.data_packet(U.DATA0, U.setup_bytes(*req)), True)
        if resp is None or U.classify_device_packet(resp) != ("hs", U.ACK):
            raise Violation("control:setup-not-acked", dict(request=r, address=env.addr, response=resp))
        bm, _, _, _, wlen = req
        stage = "sin" if wlen == 0 else ("din" if bm & 0x80 else "dout")
        return env._replace(ctl=(r, stage, 0, 1, 0))

    def _nak(self, env, what):
        r, stage, sent, tog, naks = env.ctl
        if naks >= 2:
            raise Violation("control:stage-never-answered", dict(request=r, stage=stage, what=what))
        return env._replace(ctl=(r, stage, sent, tog, naks + 1))

    def _expected_data(self, env, r):
        req, cat, exp = REQS[r]
        if exp[0] == "desc":
            d = self.descriptor(exp[1], exp[2])
            if d is None: raise AssertionError(f"create_descriptors() has no descriptor {exp}")
            return d[:req[4]], d
        if exp[0] == "cfgbyte": return bytes([env.cfgd]), None
        return None, None

    def _complete(self, env, r):
        """effects of a successfully completed transfer on the reference host"""
        req, cat, exp = REQS[r]
        env = env._replace(ctl=None)
        if exp[0] == "addr":
            self.cover["address-set"] += 1
            return env._replace(addr=exp[1])
        if exp[0] == "config":
            self.cover["configured"] += 1
            dirty = 1 if (env.dirty or env.otog or env.itog) else 0
            if dirty and not env.dirty: self.cover["toggles-reset-by-set-configuration"] += 1
            return env._replace(cfgd=exp[1], otog=0, itog=0, lastout=None, dirty=dirty)
        if exp[0] == "accept": self.cover["set-line-coding-accepted"] += 1
        return env

    def _stalled(self, env, r):
        cat, exp = REQS[r][1], REQS[r][2]
        if exp[0] == "nodesc": self.cover["absent-descriptor-stalled"] += 1
        else: self.cover[cat + "-request-stalled"] += 1
        return env._replace(ctl=None)

    def _cin(self, cur, env, mode):
        host = self.host
        r, stage, sent, tog, naks = env.ctl
        req, cat, exp = REQS[r]
        resp = host.send(cur, U.token(U.IN, env.addr, 0), True)
        k = U.classify_device_packet(resp) if resp is not None else None
        is_data = k is not None and k[0] == "data"
        if is_data and mode == "ack": host.send(cur, U.handshake(U.ACK), False)
        if is_data and mode == "lost": self.cover["control-ack-lost"] += 1
        unsupported = exp[0] in ("stall", "nodesc")
        notstalled = "enum:absent-descriptor-not-stalled" if exp[0] == "nodesc" else cat + ":not-stalled"
        det = dict(request=r, setup=req, stage=stage, response=k)
        if k == ("hs", U.NAK): return self._nak(env, "IN")
        if stage == "din":
            if unsupported:
                if k == ("hs", U.STALL): return self._stalled(env, r)
                raise Violation(notstalled + (":in-data-stage-unanswered" if k is None else ":in-data-stage-answered"), det)
            want_all, full = self._expected_data(env, r)
            if k == ("hs", U.STALL): raise Violation(cat + ":supported-request-stalled", det)
            if not is_data: raise Violation(cat + ":in-data-stage-unanswered", det)
            want = tuple(want_all[sent:sent + EP0_MPS])
            if k[1] != (U.DATA1 if tog else U.DATA0):
                raise Violation(cat + ":data-stage-pid-wrong", dict(det, expected_pid=U.PIDNAME[U.DATA1 if tog else U.DATA0]))
            if k[2] != want:
                what = {1: "device", 2: "configuration", 3: "string"}.get(exp[1], "data") if exp[0] == "desc" else "get-configuration"
                raise Violation(cat + ":descriptor-data-wrong:" + what, dict(det, offset=sent, expected=want))
            if mode != "ack": return env                      # the device must repeat this packet
            sent += len(want)
            if len(want) < EP0_MPS or sent == req[4]:
                if exp[0] == "desc":
                    self.cover["descriptor-read"] += 1
                    if sent > EP0_MPS: self.cover["descriptor-two-packets"] += 1
                    if full is not None and sent == len(full):
                        bad = check_device_descriptor(full) if exp[1] == 1 else (check_config_descriptor(full, self.mps) if exp[1] == 2 else None)
                        if bad: raise Violation("enum:%s-descriptor-unusable" % ("device" if exp[1] == 1 else "configuration"), dict(field=bad, descriptor=full.hex()))
                return env._replace(ctl=(r, "sout", sent, 1, 0))
            return env._replace(ctl=(r, "din", sent, 1 - tog, 0))
        # status IN
        if unsupported:
            if k == ("hs", U.STALL): return self._stalled(env, r)
            raise Violation(notstalled + (":status-stage-unanswered" if k is None else ":status-stage-succeeded"), det)
        if k == ("hs", U.STALL): raise Violation(cat + ":supported-request-stalled", det)
        if k != ("data", U.DATA1, ()):
            raise Violation(cat + (":status-stage-unanswered" if k is None else ":status-stage-not-data1-zlp"), det)
        if mode != "ack": return env
        return self._complete(env, r)

    def _cout(self, cur, env):
        host = self.host
        r, stage, sent, tog, naks = env.ctl
        req, cat, exp = REQS[r]
        payload = () if stage != "dout" else (LINE_CODING if exp[0] == "accept" else OTHER_DATA)[:req[4]]
        host.send(cur, U.token(U.OUT, env.addr, 0), False)
        resp = host.send(cur, U.data_packet(U.DATA1, payload), True)
        k = U.classify_device_packet(resp) if resp is not None else None
        det = dict(request=r, setup=req, stage=stage, response=k)
        if k == ("hs", U.NAK): return self._nak(env, "OUT")
        if stage == "dout":
            if exp[0] == "accept":
                if k == ("hs", U.ACK): return env._replace(ctl=(r, "sin", len(payload), 1, 0))
                raise Violation(cat + (":data-stage-unanswered" if k is None else ":data-stage-not-acked"), det)
            if k == ("hs", U.STALL): return self._stalled(env, r)
            if k == ("hs", U.ACK): return env._replace(ctl=(r, "sin", len(payload), 1, 0))      # must then STALL the status stage
            raise Violation(cat + ":not-stalled" + (":out-data-stage-unanswered" if k is None else ":out-data-stage-bad-response"), det)
        # status OUT (after an IN data stage, possibly ended early by the host)
        if k == ("hs", U.ACK):
            if stage == "din": self.cover["data-stage-ended-early"] += 1
            return env._replace(ctl=None)
        raise Violation(cat + (":status-out-unanswered" if k is None else ":status-out-not-acked"), det)


def make(cfg, tier):
    return AcmSpec(cfg, tier)
