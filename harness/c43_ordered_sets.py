# C43 - training ordered sets: TSEmitter emits exactly N consecutive correct sets per burst, TSBurstDetector reports once per
# N consecutive well-formed sets (idle gaps allowed), with their configuration bits, and never on other data.
#
# Both classes are instantiated as TSTransceiver does (set contents = the repository's TS1/TS2/TSEQ constants, which are
# therefore under test as well), with burst sizes 1..3.  The oracle's ordered sets come from harness/_usb3ref.ts_words (USB 3.2
# tables 6-3 .. 6-6: TSEQ; TS1/TS2 = COM x4, reserved, link functionality, identifier D10.2 / D5.2 x10).
#
#   emitter   per-cycle closure over start x source.ready (x the three request_* bits, chosen while idle).  A reference of
#             candidate states follows the burst: every word driven must be the expected word of the expected set (config bits
#             in symbol 5), no bubble inside a burst, exactly N sets, `done` with the transfer of the last word, nothing driven
#             without a request.  Open conventions are admitted both ways: a `start` seen while a burst is running may or may
#             not queue another burst; `start` in the very cycle a burst ends may or may not start the next one.
#   detector  per-cycle closure over a word alphabet {every distinct word of the set, config variants, corrupted bytes, wrong
#             ctrl flags, words of another set, not-valid gaps (empty or carrying a set word)}.  Reference: a parser over the
#             valid words; a mismatching word ends the run of sets (and may itself be word 0 of a new run).  One report is due
#             0..MAXLAT cycles after the last word of every Nth consecutive set; flags must equal the configuration of a set of
#             that burst; any other report is spurious.
from rtlmc.model import Design, Violation
from rtlmc.explore import Spec
from harness import _usb3ref as ref

PROPERTY = "C43"
TECHNIQUE = ("explicit-state model checking (per-cycle BFS to closure) of the TSEmitter / TSBurstDetector netlists against a "
             "reference ordered-set encoder / parser written from the USB 3.2 ordered-set tables")

MAXSTART = 5     # cycles after the request cycle by which the first word must be driven (it may also be driven in the request cycle)
MAXDONE = 2      # cycles after the transfer of a burst's last word within which `done` must be seen (normally the same cycle)
MAXLAT = 5       # cycles from the last word of the Nth set to the report

KINDS = {   # kind -> (name of the repository constant, first_word_ctrl, include_config)
    "TS1": ("TS1_SET_DATA", 0b1111, False), "TS2": ("TS2_SET_DATA", 0b1111, True),
    "ITS1": ("INVERTED_TS1_SET_DATA", 0b1111, False), "TSEQ": ("TSEQ_SET_DATA", 0b0001, False),
}
OTHER = {"TS1": "TS2", "TS2": "TS1", "ITS1": "TS1", "TSEQ": "TS1"}


def configs(tier):
    if tier == "quick":
        sel = [("emitter", "TS1", 2), ("emitter", "TS2", 2), ("emitter", "TS2", 3), ("emitter", "TSEQ", 2), ("emitter", "TS1", 1),
               ("detector", "TS1", 2), ("detector", "TS2", 2), ("detector", "TS1", 3), ("detector", "TSEQ", 2), ("detector", "TS1", 1)]
    else:
        sel = [("emitter", k, n) for k in ("TS1", "TS2", "TSEQ", "ITS1") for n in (1, 2, 3)] + \
              [("detector", k, n) for k in ("TS1", "TS2", "TSEQ", "ITS1") for n in (1, 2, 3)] + [("detector", "TS2", 4)]
    return [dict(dut=d, kind=k, burst=n) for d, k, n in sel]


def repo_set_data(kind):
    from luna.gateware.usb.usb3.link import ordered_sets
    return getattr(ordered_sets, KINDS[kind][0])


# ====================================================================================================== emitter
class EmitterSpec(Spec):
    n_validate = 8

    def __init__(self, cfg, tier):
        super().__init__(cfg, tier)
        ref.calibrate()
        self.kind, self.N = cfg["kind"], cfg["burst"]
        self.has_cfg = KINDS[self.kind][2]
        self.time_budget = 40 if tier == "quick" else 600
        self.L = len(ref.ts_words(self.kind))
        self.total = self.L * self.N

    def build(self):
        from luna.gateware.usb.usb3.link.ordered_sets import TSEmitter
        _, fwc, inc = KINDS[self.kind]
        d = TSEmitter(set_data=repo_set_data(self.kind), first_word_ctrl=fwc, transmit_burst_length=self.N, include_config=inc)
        ins = dict(start=d.start, ready=d.source.ready)
        if inc: ins.update(hot_reset=d.request_hot_reset, loopback=d.request_loopback, no_scrambling=d.request_no_scrambling)
        obs = dict(valid=d.source.valid, data=d.source.data, ctrl=d.source.ctrl, first=d.source.first, last=d.source.last, done=d.done)
        return Design(d, ins, obs)

    def assumptions(self):
        return ["the request_* configuration inputs are held constant from the request until the burst is done",
                f"a requested burst must drive its first word in the request cycle or within {MAXSTART} cycles after it; no bubble is allowed inside "
                f"a burst; `done` comes with the transfer of the burst's last word or at most {MAXDONE} cycles later, never otherwise",
                "a `start` seen while a burst is running may or may not queue one more burst; `start` in the cycle a burst ends may or "
                "may not start the next burst (both conventions admitted)"]

    # env = (config bits, candidates); candidate = (state, owe): state = ("I", just_ended) | ("S", waited) | ("B", pos, queued);
    # owe = 0, or k > 0: the last word of a burst was transferred k cycles ago and `done` has not been seen yet
    def env0(self):
        return (0, frozenset([(("I", 0), 0)]))

    def actions(self, env):
        cfgs = [env[0]]
        if self.has_cfg and all(c[0][0] == "I" and not c[1] for c in env[1]): cfgs = range(8)
        return [(s, r, c) for s in (0, 1) for r in (0, 1) for c in cfgs]

    def expected_word(self, pos, cfgbits):
        config = (cfgbits & 1) | ((cfgbits >> 1 & 1) << 2) | ((cfgbits >> 2 & 1) << 3)     # hot reset bit0, loopback bit2, no scrambling bit3
        return ref.ts_words(self.kind, config)[pos % self.L]

    def advance(self, c, o, start, ready, cfgbits, why):
        """successors of reference state c under this cycle's observation: list of (state, burst_ends_now)"""
        if c[0] == "I":
            if not o.valid:
                return [((("S", 1) if start else ("I", 0)), False)]
            if not start:
                why.append(("emitter:burst-too-long" if c[1] else "emitter:word-without-request", dict(data=hex(o.data), ctrl=o.ctrl)))
                return []
            c = ("B", 0, 0)                 # first word already in the request cycle
        if c[0] == "S":
            if not o.valid:
                if c[1] + 1 > MAXSTART:
                    why.append(("emitter:burst-not-started", dict(waited=c[1] + 1)))
                    return []
                return [(("S", c[1] + 1), False)]
            c = ("B", 0, 0)
        _, pos, queued = c
        if not o.valid:
            rule = "emitter:burst-too-short" if pos % self.L == 0 else "emitter:bubble-in-burst"
            why.append((rule, dict(word_index=pos, sets_sent=pos // self.L, sets_expected=self.N)))
            return []
        exp = self.expected_word(pos, cfgbits)
        if (o.data, o.ctrl) != exp:
            rule = "emitter:wrong-config-bits" if (self.has_cfg and pos % self.L == 1 and o.ctrl == exp[1] and (o.data ^ exp[0]) & ~0xFF00 == 0) else "emitter:wrong-word"
            why.append((rule, dict(word_index=pos, got=[hex(o.data), o.ctrl], expected=[hex(exp[0]), exp[1]], request_bits=cfgbits)))
            return []
        is_last = pos == self.total - 1
        if not ready:
            self.cover["stalled"] += 1
            return [(("B", pos, queued | start), False)]
        if not is_last:
            if (pos + 1) % self.L == 0: self.cover["set_complete"] += 1
            return [(("B", pos + 1, queued | start), False)]
        self.cover["burst_complete"] += 1
        out = [(("I", 1), True)]
        if start or queued:
            out.append((("S", 0), True))
            self.cover["start_at_end_or_queued"] += 1
        return out

    def apply(self, cur, env, a):
        start, ready, cfgbits = a
        kw = dict(start=start, ready=ready)
        if self.has_cfg: kw.update(hot_reset=cfgbits & 1, loopback=cfgbits >> 1 & 1, no_scrambling=cfgbits >> 2 & 1)
        o = cur.step(**kw)
        nxt, why = set(), []
        for c, owe in env[1]:
            for c2, ends in self.advance(c, o, start, ready, cfgbits, why):
                # `done` belongs to the transfer of the last word of a burst: in that cycle or at most MAXDONE cycles later
                if o.done:
                    if not (ends or owe):
                        why.append(("emitter:done-mismatch", dict(done=1, state=list(c), burst_ends_now=ends)))
                        continue
                    owe2 = 0
                elif ends:
                    owe2 = 1
                elif owe:
                    if owe + 1 > MAXDONE + 1:
                        why.append(("emitter:done-missing", dict(waited=owe)))
                        continue
                    owe2 = owe + 1
                else:
                    owe2 = 0
                nxt.add((c2, owe2))
        if not nxt:
            prio = ["emitter:wrong-word", "emitter:wrong-config-bits", "emitter:burst-too-short", "emitter:burst-too-long", "emitter:bubble-in-burst",
                    "emitter:done-mismatch", "emitter:done-missing", "emitter:burst-not-started", "emitter:word-without-request"]
            why.sort(key=lambda w: prio.index(w[0]))
            raise Violation(why[0][0], dict(why[0][1], candidates=sorted(env[1]), inputs=dict(start=start, ready=ready)))
        self.outcomes.add((o.valid, o.data, o.ctrl, o.done))
        if cfgbits and any(c[0] == "B" and c[1] % self.L == 2 for c, _ in nxt): self.cover["config_sent"] += 1
        return (cfgbits, frozenset(nxt))

    def goals(self):
        g = ["stalled", "burst_complete", "start_at_end_or_queued"]
        if self.N > 1: g.append("set_complete")
        if self.has_cfg: g.append("config_sent")
        return g


# ====================================================================================================== detector
def corrupt(word, byte, flip=0x01):
    return (word[0] ^ (flip << (8 * byte)), word[1])


class DetectorSpec(Spec):
    n_validate = 8

    def __init__(self, cfg, tier):
        super().__init__(cfg, tier)
        ref.calibrate()
        self.kind, self.N = cfg["kind"], cfg["burst"]
        self.has_cfg = KINDS[self.kind][2]
        self.time_budget = 45 if tier == "quick" else 800
        self.words = ref.ts_words(self.kind)
        self.L = len(self.words)
        cfgvals = [0x00]
        if self.has_cfg: cfgvals = [0x00, 0x0D, 0x01] if tier == "quick" else [0x00, 0x01, 0x04, 0x08, 0x0D]
        self.cfgvals = cfgvals
        alpha = {}
        distinct = []
        for i, w in enumerate(self.words):
            if w not in distinct: distinct.append(w)
        for w in distinct:
            i = self.words.index(w)
            if self.has_cfg and i == 1:
                for c in cfgvals: alpha[f"w1_cfg{c:02x}"] = (1,) + ref.ts_words(self.kind, c)[1]
            else:
                alpha[f"w{i}"] = (1,) + w
        w0, w1, wl = self.words[0], self.words[1], self.words[-1]
        alpha["w0_bad_byte0"] = (1,) + corrupt(w0, 0)
        alpha["w0_bad_ctrl"] = (1, w0[0], w0[1] ^ 0b1000 if w0[1] == 0b1111 else w0[1] ^ 0b0010)
        alpha["w1_bad_byte3"] = (1,) + corrupt(w1, 3, 0x80)
        alpha["wl_bad_byte1"] = (1,) + corrupt(wl, 1, 0x10)
        alpha["wl_bad_ctrl"] = (1, wl[0], 0b0001)
        other = ref.ts_words(OTHER[self.kind])
        alpha["other_w1"] = (1,) + other[1]
        alpha["other_ident"] = (1,) + other[-1]
        alpha["gap"] = (0, 0, 0)
        alpha["gap_w0"] = (0,) + w0
        alpha["idle"] = (1, 0, 0)
        self.alpha = alpha

    def build(self):
        from luna.gateware.usb.usb3.link.ordered_sets import TSBurstDetector
        _, fwc, inc = KINDS[self.kind]
        d = TSBurstDetector(set_data=repo_set_data(self.kind), first_word_ctrl=fwc, sets_in_burst=self.N, include_config=inc)
        ins = dict(valid=d.sink.valid, data=d.sink.data, ctrl=d.sink.ctrl)
        obs = dict(detected=d.detected)
        if inc: obs.update(hot_reset=d.hot_reset, loopback=d.loopback_requested, no_scrambling=d.scrambling_disabled)
        return Design(d, ins, obs)

    def assumptions(self):
        return ["words with sink.valid low carry nothing and may fall anywhere (idle gaps inside and between sets are allowed)",
                "the first word arrives no earlier than the second cycle after reset",
                f"a report is a `detected` strobe 0..{MAXLAT} cycles after the last word of the Nth consecutive set; the flag outputs are "
                "compared during the strobe and must equal the configuration symbol of one of the sets of that burst",
                "reserved fields of TS2 (symbol 4, undefined bits of symbol 5) are ignored: a set is well formed whatever they carry; "
                "the flags are bits 0 / 2 / 3 of symbol 5"]

    def prologue(self, cur):
        cur.step(valid=0, data=0, ctrl=0)
        return self.env0()

    # env = (k, count, in_sets, arm, dirty, total, cur_cfg, cfgs, pending)
    #   k: index of the next expected word of the set in progress; count: complete consecutive sets since the last report / break
    #   in_sets: the previous valid word belonged to a set; arm: the previous valid word was a mismatch right after set words
    #   dirty: the current run of sets began directly at / after such a mismatch; total: well-formed sets since the last report
    #   (breaks ignored, capped at N); cur_cfg / cfgs: configuration symbols of the set in progress / of the counted sets
    #   pending: reports due: (age, cfg set, dirty)
    def env0(self):
        return (0, 0, 0, 0, 0, 0, 0, frozenset(), ())

    def actions(self, env):
        return list(self.alpha)

    def matches(self, k, data, ctrl):
        w = self.words[k]
        if self.has_cfg and k == 1:
            # symbol 4 is reserved and symbol 5 carries the link configuration (bits 1, 4..7 reserved): receivers ignore reserved
            # fields (USB 3.2 ch. 1 conventions), so only the two identifier symbols decide whether this is word 1 of the set
            return ctrl == 0 and (data >> 16) == (w[0] >> 16)
        return (data, ctrl) == w

    def apply(self, cur, env, a):
        valid, data, ctrl = self.alpha[a]
        o = cur.step(valid=valid, data=data, ctrl=ctrl)
        k, count, in_sets, arm, dirty, total, cur_cfg, cfgs, pending = env
        N, L = self.N, self.L
        if valid:
            if self.matches(k, data, ctrl):
                if k == 0 and count == 0:
                    dirty = arm
                    cfgs = frozenset()
                arm, in_sets = 0, 1
                if k == 1: cur_cfg = (data >> 8) & 0xFF if self.has_cfg else 0
                k += 1
                if k == L:
                    k = 0
                    count += 1
                    total = min(total + 1, N)
                    cfgs = cfgs | {cur_cfg}
                    self.cover["set_complete"] += 1
                    if count == N:
                        pending = pending + ((0, cfgs, dirty),)
                        count = total = 0
                        self.cover["burst_complete"] += 1
                        if dirty: self.cover["burst_after_broken_set"] += 1
            else:
                was_in = in_sets or k > 0 or count > 0
                if k > 0 or count > 0: self.cover["run_broken"] += 1
                count = 0
                if self.matches(0, data, ctrl):       # the offending word starts a new set
                    k, in_sets, arm = 1, 1, 0
                    dirty = 1 if was_in else 0
                    cfgs = frozenset()
                    self.cover["resync_on_word0"] += 1
                else:
                    k, in_sets = 0, 0
                    arm = 1 if was_in else 0
        else:
            self.cover["gap"] += 1
            if k > 0: self.cover["gap_inside_set"] += 1
        if o.detected:
            if not pending:
                rule = "detector:report-on-non-consecutive-sets" if total >= N and N > 1 else "detector:spurious-report"
                raise Violation(rule, dict(well_formed_sets_since_last_report=total, consecutive=count, word_index=k, threshold=N, action=a))
            (age, pc, pd), pending = pending[0], pending[1:]
            if self.has_cfg:
                got = o.hot_reset | (o.loopback << 2) | (o.no_scrambling << 3)
                # a late report may already show the configuration of a set that follows the burst
                later = set(cfgs) | ({cur_cfg} if k >= 2 else set())
                if got not in {c & 0x0D for c in set(pc) | later}:
                    raise Violation("detector:wrong-config-flags", dict(flags=dict(hot_reset=o.hot_reset, loopback=o.loopback, no_scrambling=o.no_scrambling),
                                                                        config_symbols_of_burst=sorted(pc)))
                if got: self.cover["config_flags_reported"] += 1
            self.cover["reported"] += 1
        aged = []
        for age, pc, pd in pending:
            if age + 1 > MAXLAT:
                raise Violation("detector:missed-burst:after-broken-set" if pd else "detector:missed-burst", dict(threshold=N, config=sorted(pc)))
            aged.append((age + 1, pc, pd))
        self.outcomes.add((a, tuple(o)))
        return (k, count, in_sets, arm, dirty, total, cur_cfg if k >= 2 else 0, cfgs if (count or k) else frozenset(), tuple(aged))

    def goals(self):
        g = ["set_complete", "burst_complete", "reported", "run_broken", "resync_on_word0", "gap", "gap_inside_set", "burst_after_broken_set"]
        if self.has_cfg: g.append("config_flags_reported")
        return g


def make(cfg, tier):
    return (EmitterSpec if cfg["dut"] == "emitter" else DetectorSpec)(cfg, tier)
