# C48 - SuperSpeed control requests are decoded and answered exactly.
#
# Two DUTs, each explored to closure:
#
# (a) SuperSpeedSetupDecoder, packet-level steps.  The environment plays the role of the link-layer data-packet receiver:
#     one action = one received data packet (header `setup` flag, payload length, payload id, inter-word gap, ending).
#     Word framing follows the receiver's documented stream (first on the first word, last on the word holding the
#     final bytes, per-byte valid mask), then exactly one of rx_good / rx_bad (after a delay, or rx_bad together with
#     a word = packet aborted there).
#     Oracle (statement): `packet.received` strobes iff the packet was good, had the setup flag and carried exactly
#     eight bytes; at the strobe the fields equal those eight bytes (USB 2.0 section 9.3 field layout).
#
# (b) usb3.application.descriptor.GetDescriptorHandler, per-cycle steps.  The environment issues GET_DESCRIPTOR
#     requests (value, wLength, start strobe) and picks tx.ready every cycle.
#     Oracle: accepted bytes == descriptor[:min(wLength, len)], tx_length == that count when the stream becomes valid,
#     first/last framing, nothing after the last word, no stall; unknown (type, index): stall and no data.
import math
from rtlmc.model import Design, Violation, Cursor
from rtlmc.explore import Spec

PROPERTY = "C48"
LEVEL_NOTE = ("Setup decoder: closure over all sequences of data packets from the listed packet alphabet. Descriptor "
              "handler: closure over all chains of requests from the listed menu with every per-cycle tx.ready choice.")

# ------------------------------------------------------------------------------------------------- setup decoder
PAYLOADS = {
    "A": bytes([0x80, 0x06, 0x00, 0x01, 0x00, 0x00, 0x12, 0x00, 0xA1, 0xA2, 0xA3, 0xA4, 0xA5, 0xA6, 0xA7, 0xA8]),   # GET_DESCRIPTOR(device)
    "N": bytes([0x7F, 0xF9, 0xFF, 0xFE, 0xFF, 0xFF, 0xED, 0xFF, 0x5E, 0x5D, 0x5C, 0x5B, 0x5A, 0x59, 0x58, 0x57]),   # bitwise complement of A
    "B": bytes([0x41, 0xAA, 0x11, 0x22, 0x44, 0x33, 0x04, 0x00, 0xB1, 0xB2, 0xB3, 0xB4, 0xB5, 0xB6, 0xB7, 0xB8]),   # vendor / interface / OUT
    "C": bytes([0xA2, 0x55, 0xEE, 0xDD, 0xBB, 0xCC, 0xFB, 0xFF, 0xC1, 0xC2, 0xC3, 0xC4, 0xC5, 0xC6, 0xC7, 0xC8]),   # class / endpoint / IN
}
TRAIL = 3       # idle cycles after the good/bad strobe; a report must fall within [strobe cycle, strobe cycle + TRAIL]


def pkt_class(p):
    if p is None: return "reset"
    flag, length, did, gap, (end, _) = p
    size = "8" if length == 8 else ("short" if length < 8 else "long")
    return ("setup" if flag else "data") + size + "-" + end


def packet_cycles(p):
    """per-cycle stimulus for one packet: list of dict(valid, first, last, data, good, bad)"""
    flag, length, did, gap, (end, arg) = p
    data = PAYLOADS[did][:length]
    nwords = max(1, math.ceil(length / 4))
    cyc = [dict(valid=0, first=1, last=0, data=0, good=0, bad=0)]                # header just accepted, no payload word yet
    for w in range(nwords):
        rem = length - 4 * w
        nb = max(0, min(4, rem))
        word = int.from_bytes(data[4 * w:4 * w + 4].ljust(4, b"\0"), "little")
        fl = dict(first=int(w == 0), last=int(rem <= 4))
        if gap and w > 0:
            cyc.append(dict(valid=0, data=0, good=0, bad=0, **fl))               # receiver saw a not-valid word
        aborted = end == "abort" and arg == w
        cyc.append(dict(valid=(1 << nb) - 1, data=word, good=0, bad=int(aborted), **fl))
        if aborted: break
    if end != "abort":
        for _ in range(arg - 1):
            cyc.append(dict(valid=0, first=0, last=0, data=0, good=0, bad=0))
        cyc.append(dict(valid=0, first=0, last=0, data=0, good=int(end == "good"), bad=int(end == "bad")))
    strobe_at = len(cyc) - 1
    for _ in range(TRAIL):
        cyc.append(dict(valid=0, first=0, last=0, data=0, good=0, bad=0))
    return cyc, strobe_at


class DecoderSpec(Spec):
    n_validate = 8

    def __init__(self, cfg, tier):
        super().__init__(cfg, tier)
        acts = []
        for flag in (1, 0):
            for length in cfg["lengths"]:
                nwords = max(1, math.ceil(length / 4))
                for did in cfg["ids"]:
                    for gap in ((0, 1) if nwords > 1 else (0,)):
                        ends = [("good", d) for d in cfg["delays"]] + [("bad", d) for d in cfg["delays"]]
                        if length > 0:
                            ends += [("abort", k) for k in sorted({0, nwords - 1})]
                        for e in ends:
                            acts.append((flag, length, did, gap, e))
        self._acts = acts
        self.time_budget = 35 if tier == "quick" else 800

    def build(self):
        from luna.gateware.usb.usb3.application.request import SuperSpeedSetupDecoder
        d = SuperSpeedSetupDecoder()
        s, p = d.sink, d.packet
        ins = dict(valid=s.valid, first=s.first, last=s.last, data=s.payload, rx_good=d.rx_good, rx_bad=d.rx_bad,
                   hdr_setup=d.header_in.setup)
        obs = dict(received=p.received, recipient=p.recipient, type=p.type, is_in=p.is_in_request, request=p.request,
                   value=p.value, index=p.index, length=p.length)
        return Design(d, ins, obs)

    def env0(self):
        # class of the most recent setup-flagged packet that was not a regular (good, 8 byte) one since the last correct
        # report, or None; only used to name the rule
        return None

    def actions(self, env):
        return self._acts

    def canon(self, env):
        # The label cannot influence the future; it is kept in the key only so that every
        # (class of irregular setup packet -> later failure) combination gets its own, reproducibly named, rule.
        return env

    def assumptions(self):
        return ["every data packet ends with exactly one of rx_good / rx_bad, at least one cycle after its last word, or with "
                "rx_bad coincident with one of its words (reception aborted there); rx_good and rx_bad are never simultaneous",
                "stream framing as produced by the link-layer data packet receiver: first on the first word, last on the "
                "word containing the final byte, byte-valid mask contiguous from byte 0, possibly not-valid cycles between words",
                "header_in.setup changes only when a new packet starts and is stable until the next one",
                f"packets are separated by at least {TRAIL} idle cycles; a report may come anywhere from the rx_good cycle to {TRAIL} cycles later",
                "the reported fields are compared in the cycle(s) in which packet.received is high"]

    def run_packet(self, cur, p):
        """drive one packet and judge it; returns None or (failure kind, detail)"""
        flag, length, did, gap, (end, arg) = p
        cyc, strobe_at = packet_cycles(p)
        expect = bool(flag and length == 8 and end == "good")
        reports = 0
        for n, c in enumerate(cyc):
            o = cur.step(valid=c["valid"], first=c["first"], last=c["last"], data=c["data"], rx_good=c["good"],
                         rx_bad=c["bad"], hdr_setup=flag)
            if o.received:
                if not expect or n < strobe_at:
                    return "spurious-setup-report", dict(packet=p, packet_class=pkt_class(p), cycle=n, reported=tuple(o))
                reports += 1
                if reports > 1:
                    return "setup-reported-twice", dict(packet=p)
                b = PAYLOADS[did]
                want = dict(recipient=b[0] & 0x1F, type=(b[0] >> 5) & 3, is_in=b[0] >> 7, request=b[1],
                            value=b[2] | b[3] << 8, index=b[4] | b[5] << 8, length=b[6] | b[7] << 8)
                got = {k: getattr(o, k) for k in want}
                if got != want:
                    bad = sorted(k for k in want if got[k] != want[k])
                    return "setup-fields-wrong", dict(packet=p, fields=bad, got=got, want=want)
        if expect and not reports:
            return "setup-not-reported", dict(packet=p)
        return None

    def apply(self, cur, env, p):
        flag, length = p[0], p[1]
        expect = bool(flag and length == 8 and p[4][0] == "good")
        fail = self.run_packet(cur, p)
        if fail:
            tag = env
            if tag is not None:
                # does the same packet fail in the same way straight after reset?  then history is not the cause
                f0 = self.run_packet(Cursor(cur.model), p)
                if f0 and f0[0] == fail[0]: tag = None
            raise Violation(fail[0] + ":after:" + (tag or "regular-traffic"), fail[1])
        self.cover["reported" if expect else "ignored:" + pkt_class(p)] += 1
        self.outcomes.add((pkt_class(p), int(expect)))
        if expect: return None
        return pkt_class(p) if flag else env

    def goals(self):
        return ["reported", "ignored:setup8-bad", "ignored:data8-good", "ignored:setupshort-good", "ignored:setuplong-good",
                "ignored:setup8-abort"]


# ------------------------------------------------------------------------------------------- descriptor handler
def collection_entries(name):
    """(type, index) -> bytes, written out by hand (reference data of the oracle)"""
    if name == "lengths":
        # raw descriptors of every length 1..9, 12 and 17 with position-tagged bytes; sparse indices and an empty type
        ent = {}
        for t, i, n in ((0x21, 0, 1), (0x21, 1, 2), (0x21, 3, 3), (0x22, 0, 4), (0x22, 1, 5), (0x24, 0, 6), (0x24, 2, 7),
                        (0x24, 5, 8), (0x06, 0, 9), (0x0F, 0, 12), (0x01, 0, 17)):
            ent[(t, i)] = bytes(((t * 7 + i * 29 + k * 37 + 1) & 0xFF) or 0x5A for k in range(n))
        ent[(3, 0)] = bytes([4, 3, 0x09, 0x04])
        return ent
    if name == "realistic":
        dev = bytes([18, 1, 0x20, 0x03, 0, 0, 0, 9, 0x09, 0x12, 0x01, 0x00, 0x01, 0x00, 1, 2, 3, 1])
        cfg = bytes([9, 2, 31, 0, 1, 1, 0, 0x80, 50,   9, 4, 0, 0, 2, 0xFF, 0xFF, 0xFF, 0,
                     7, 5, 0x81, 2, 0x00, 0x04, 0,   6, 0x30, 0, 0, 0, 0])
        bos = bytes([5, 15, 22, 0, 2,   7, 16, 2, 2, 0, 0, 0,   10, 16, 3, 0, 0x0E, 0, 3, 0, 0, 0])
        def s(txt): e = txt.encode("utf-16-le"); return bytes([len(e) + 2, 3]) + e
        return {(1, 0): dev, (2, 0): cfg, (15, 0): bos, (3, 0): bytes([4, 3, 0x09, 0x04]), (3, 1): s("LUNA"),
                (3, 2): s("verif"), (3, 3): s("0")}
    raise KeyError(name)


def build_collection(name):
    from usb_protocol.emitters.descriptors import DeviceDescriptorCollection
    c = DeviceDescriptorCollection()
    for (t, i), b in collection_entries(name).items():
        c.add_descriptor(b, index=i, descriptor_type=t)
    return c


COOLDOWN = 4     # idle cycles between the end of a response and the next request


class DescriptorSpec(Spec):
    n_validate = 8

    def __init__(self, cfg, tier):
        super().__init__(cfg, tier)
        self.ent = collection_entries(cfg["collection"])
        known = sorted(self.ent)
        types = sorted({t for t, _ in known})
        unknown = {(0, 0), (0xFF, 0xFF), (types[0], 0xFF)}
        for t in types:
            idx = [i for tt, i in known if tt == t]
            unknown.add((t, max(idx) + 1))
            for j in range(max(idx)):
                if j not in idx: unknown.add((t, j)); break
        for t in range(1, 0x30):
            if t not in types: unknown.add((t, 0)); break
        reqs = []
        for (t, i) in known:
            n = len(self.ent[(t, i)])
            wl = {0, 1, 3, 4, 5, 8, n - 1, n, n + 1, 0xFF, 0x100, 0x100 + n - 1, 0xFFFF} if tier == "thorough" or cfg.get("full") \
                else {0, 1, 4, 5, n - 1, n, n + 1, 0x100, 0xFFFF}
            for w in sorted(x for x in wl if x >= 0):
                reqs.append((t << 8 | i, w))
        for (t, i) in sorted(unknown):
            if (t, i) not in self.ent:
                for w in (0, 4, 0xFFFF):
                    reqs.append((t << 8 | i, w))
        self._reqs = [("req", v, w, r) for v, w in reqs for r in (0, 1)]
        self.time_budget = 35 if tier == "quick" else 800

    def build(self):
        from luna.gateware.usb.usb3.application.descriptor import GetDescriptorHandler
        d = GetDescriptorHandler(build_collection(self.cfg["collection"]))
        ins = dict(value=d.value, length=d.length, start=d.start, ready=d.tx.ready)
        obs = dict(valid=d.tx.valid, first=d.tx.first, last=d.tx.last, data=d.tx.payload, tx_length=d.tx_length, stall=d.stall)
        return Design(d, ins, obs)

    def env0(self):
        return ("idle",)

    def actions(self, env):
        if env[0] == "idle": return self._reqs
        return [("rdy", 0), ("rdy", 1)]

    def assumptions(self):
        return ["value and length are held stable from the start strobe until the response has been transferred completely",
                f"a new request starts no earlier than {COOLDOWN} cycles after the last word of the previous response was accepted "
                "(or after the stall), and never while a response is in progress",
                "tx_length is compared in the cycle in which tx first becomes valid (when the data-packet transmitter latches it)",
                "a stall for an unknown descriptor may be signalled in the start cycle or up to 2 cycles later",
                "liveness bound: with tx.ready held high a response completes within words+8 cycles"]

    def expected(self, value, wlen):
        d = self.ent.get((value >> 8, value & 0xFF))
        return None if d is None else d[:min(wlen, len(d))]

    def quiet(self, cur, value, wlen, n, what):
        """n cycles with ready=1 in which no data may appear"""
        for _ in range(n):
            o = cur.step(value=value, length=wlen, ready=1)
            if o.valid: raise Violation(what, dict(value=hex(value), wLength=wlen, data=hex(o.data)))
            if o.stall: raise Violation("stall-without-start", dict(value=hex(value)))

    def word(self, o, value, wlen, got, seen, ready, exp):
        """check one busy cycle; returns (got, seen, done)"""
        if o.stall:
            raise Violation("descriptor-stall-on-known", dict(value=hex(value), wLength=wlen))
        if not o.valid:
            return got, seen, False
        if not seen and o.tx_length != len(exp):
            raise Violation("descriptor-tx-length", dict(value=hex(value), wLength=wlen, got=o.tx_length, want=len(exp)))
        if o.valid not in (1, 3, 7, 15):
            raise Violation("descriptor-valid-mask", dict(value=hex(value), wLength=wlen, mask=o.valid))
        if not ready:
            return got, True, False
        nb = bin(o.valid).count("1")
        if bool(o.first) != (got == 0):
            raise Violation("descriptor-first-flag", dict(value=hex(value), wLength=wlen, offset=got, first=o.first))
        if got + nb > len(exp):
            raise Violation("descriptor-extra-data", dict(value=hex(value), wLength=wlen, offset=got, bytes=nb, want_total=len(exp)))
        b = o.data.to_bytes(4, "little")[:nb]
        if b != exp[got:got + nb]:
            raise Violation("descriptor-data-mismatch", dict(value=hex(value), wLength=wlen, offset=got, got=b.hex(), want=exp[got:got + nb].hex()))
        got += nb
        if bool(o.last) != (got == len(exp)):
            raise Violation("descriptor-last-flag", dict(value=hex(value), wLength=wlen, offset=got, last=o.last, want_total=len(exp)))
        if not o.last and nb != 4:
            raise Violation("descriptor-partial-word-not-last", dict(value=hex(value), wLength=wlen, offset=got))
        return got, True, got == len(exp)

    def finish(self, cur, value, wlen):
        self.quiet(cur, value, wlen, COOLDOWN, "descriptor-data-after-last")
        self.cover["completed"] += 1
        return ("idle",)

    def apply(self, cur, env, a):
        if a[0] == "req":
            _, value, wlen, ready = a
            exp = self.expected(value, wlen)
            o = cur.step(value=value, length=wlen, start=1, ready=ready)
            if o.valid:
                raise Violation("data-before-request", dict(value=hex(value)))
            if exp is None:
                stalls = o.stall
                for _ in range(2):
                    o = cur.step(value=value, length=wlen, ready=1)
                    stalls += o.stall
                    if o.valid: raise Violation("unknown-descriptor-sent-data", dict(value=hex(value), data=hex(o.data)))
                if not stalls:
                    raise Violation("unknown-descriptor-not-stalled", dict(value=hex(value), wLength=wlen))
                self.quiet(cur, value, wlen, COOLDOWN, "unknown-descriptor-sent-data")
                self.cover["stalled"] += 1
                return ("idle",)
            if o.stall:
                raise Violation("descriptor-stall-on-known", dict(value=hex(value), wLength=wlen))
            if not exp:
                self.quiet(cur, value, wlen, COOLDOWN + 2, "descriptor-data-for-zero-length")
                self.cover["zero-length"] += 1
                return ("idle",)
            if wlen < len(self.ent[(value >> 8, value & 0xFF)]): self.cover["truncated"] += 1
            elif wlen > len(exp): self.cover["shorter-than-wLength"] += 1
            env = ("busy", value, wlen, 0, 0)
        else:
            _, value, wlen, got, seen = env
            exp = self.expected(value, wlen)
            o = cur.step(value=value, length=wlen, ready=a[1])
            if o.valid and not a[1]: self.cover["backpressure"] += 1
            got, seen, done = self.word(o, value, wlen, got, seen, a[1], exp)
            if done:
                self.outcomes.add((value, wlen))
                return self.finish(cur, value, wlen)
            env = ("busy", value, wlen, got, int(seen))
        # liveness probe from every busy state
        _, value, wlen, got, seen = env
        exp = self.expected(value, wlen)
        f = cur.fork()
        for _ in range(math.ceil(len(exp) / 4) + 8):
            got, seen, done = self.word(f.step(value=value, length=wlen, ready=1), value, wlen, got, seen, 1, exp)
            if done: break
        else:
            raise Violation("descriptor-incomplete", dict(value=hex(value), wLength=wlen, received=got, want_total=len(exp)))
        return env

    def goals(self):
        return ["completed", "stalled", "zero-length", "truncated", "shorter-than-wLength", "backpressure"]


# ----------------------------------------------------------------------------------------------------- module API
def configs(tier):
    if tier == "quick":
        return [dict(dut="decoder", lengths=[0, 4, 5, 7, 8, 9, 12], ids=["A", "N"], delays=[1, 2], name="decoder"),
                dict(dut="descriptor", collection="lengths", name="descriptor-lengths"),
                dict(dut="descriptor", collection="realistic", name="descriptor-realistic")]
    return [dict(dut="decoder", lengths=[0, 1, 3, 4, 5, 7, 8, 9, 12, 16], ids=["A", "N", "B", "C"], delays=[1, 2, 3], name="decoder"),
            dict(dut="descriptor", collection="lengths", name="descriptor-lengths"),
            dict(dut="descriptor", collection="realistic", name="descriptor-realistic")]


def make(cfg, tier):
    return DecoderSpec(cfg, tier) if cfg["dut"] == "decoder" else DescriptorSpec(cfg, tier)
