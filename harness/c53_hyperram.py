# C53 - HyperRAMInterface: command-address word, chip select, latency count, no bus contention.
#
# DUT: the real HyperRAMInterface(phy=HyperBusPHY()).  Per-cycle exploration.  The environment is the user of
# the interface (requests only while `idle`, start strobe held 1..8 cycles, final_word / write_data free at every
# handshake) and the memory side of the HyperBusPHY record (RWDS free per cycle: latency indication during the
# command, falling during the latency, data strobes in both PHY alignments; DQ from a 2-value alphabet).
#
# Oracle = a bus monitor written from the HyperBus protocol, at the HyperBusPHY record (one `clk_en` cycle = one
# bus clock, dq.o = the two bytes of that clock, high byte first):
#   * a transaction is on the bus from the cycle `cs` rises to the cycle it falls; it belongs to the request most
#     recently accepted (idle & start_transfer);
#   * clocks 1..3 after CS carry CA[47:32], CA[31:16], CA[15:0] with DQ driven; CA = R/W#(47) | register space(46) |
#     linear burst(45) | address[31:3] (44:16) | 13 reserved zeros | address[2:0];
#   * RWDS is never driven by the host while the memory drives it: during the command of every transaction, during a
#     whole read and during a whole (zero latency) register write;  DQ is never driven after the command of a read,
#     nor during the latency of a write, nor while CS is low;
#   * memory writes put the first data word on clock 3+N, reads do not report data before clock 3+N, where N is the
#     latency count (class constants: HIGH = 2 x LOW when the memory requested additional latency by holding RWDS
#     high through the command; with RWDS low a controller for a fixed-latency part may still use HIGH - both admitted);
#     register writes put their single data word on clock 4;
#   * CS stays high until the last word has been transferred (register write: the word; memory write: the word
#     accepted with final_word, clocked out; read: a word reported with final_word) and, after a write's last word,
#     no further clock is issued under the same CS; the next transaction needs CS to have been low in between
#     (a HyperBus command phase is *defined* by CS# falling).
from rtlmc.model import Design, Violation
from rtlmc.explore import Spec

PROPERTY = "C53"
TECHNIQUE = "per-cycle explicit-state exploration of HyperRAMInterface against a HyperBus protocol monitor"

ADDRS = [0x00000000, 0xFFFFFFFF] + [1 << i for i in range(32)]
DQ_VALS = (0xCAFE, 0x3501)
WD_VALS = (0xBEEF, 0x4110)


def configs(tier):
    # the address is only moved into the CA word: split the address alphabet over configurations
    if tier == "quick":
        groups = [ADDRS[i::16] for i in range(16)]
        return [dict(addrs=g, holds=[1, 8], max_tx=2, words=2) for g in groups]
    groups = [ADDRS[i::16] for i in range(16)]
    cf = [dict(addrs=g, holds=[1, 2, 5, 6, 7, 8], max_tx=3, words=3) for g in groups]
    cf.append(dict(addrs=[0x00BBCCDD, 0xFF443322], holds=[1, 3, 4], max_tx=3, words=4))
    cf.append(dict(addrs=ADDRS, holds=[1, 8], max_tx=2, words=2))      # every ordered pair of requests over the whole address alphabet
    return cf


def ca_words(req):
    addr, reg, wr, single = req
    ca = ((0 if wr else 1) << 47) | (reg << 46) | ((0 if single else 1) << 45) | ((addr >> 3) << 16) | (addr & 7)
    return ((ca >> 32) & 0xFFFF, (ca >> 16) & 0xFFFF, ca & 0xFFFF)


# transaction record: (req, clk, rwhi, cands, acc, clkd, fin, done, data)
#   clk  : bus clocks seen under this CS (saturating)      rwhi : RWDS was high in every cycle of the command so far
#   cands: admitted latency counts still possible (bit0 = LOW, bit1 = HIGH)
#   acc  : words handshaken (write_ready / read_ready)     clkd : write words clocked out
#   fin  : a handshake carried final_word                  done : the transaction's last word has been transferred
#   data : the write data phase has started                rl   : RWDS is currently low (second half of the last cycle)
class HyperSpec(Spec):
    n_validate = 6

    def __init__(self, cfg, tier):
        super().__init__(cfg, tier)
        from luna.gateware.interface.psram import HyperRAMInterface
        self.LOW = HyperRAMInterface.LOW_LATENCY_CLOCKS
        self.HIGH = HyperRAMInterface.HIGH_LATENCY_CLOCKS
        self.clk_sat = 3 + self.HIGH + 2
        self.time_budget = 240 if tier == "quick" else 840
        self.words = cfg["words"]
        starts = []
        for ai in range(len(cfg["addrs"])):
            for reg in (0, 1):
                for wr in (0, 1):
                    for single in (0, 1):
                        for h in cfg["holds"]:
                            starts.append((cfg["addrs"][ai], reg, wr, single, h))
        self._starts = starts

    def build(self):
        from luna.gateware.interface.psram import HyperBusPHY, HyperRAMInterface
        phy = HyperBusPHY()
        d = HyperRAMInterface(phy=phy)
        ins = dict(address=d.address, register_space=d.register_space, perform_write=d.perform_write,
                   single_page=d.single_page, start_transfer=d.start_transfer, final_word=d.final_word,
                   write_data=d.write_data, dq_i=phy.dq.i, rwds_i=phy.rwds.i)
        obs = dict(cs=phy.cs, clk_en=phy.clk_en, dq_o=phy.dq.o, dq_e=phy.dq.e, rwds_o=phy.rwds.o, rwds_e=phy.rwds.e,
                   idle=d.idle, read_ready=d.read_ready, write_ready=d.write_ready, read_data=d.read_data)
        return Design(d, ins, obs)

    def assumptions(self):
        return ["a request is started only in a cycle in which `idle` is high; start_transfer then stays high for the chosen 1..8 cycles (as documented) with the request fields held; outside those cycles the request fields carry the complement of the last request",
                "HyperBusPHY record semantics: a cycle with cs=1 and clk_en=1 is one bus clock carrying dq.o[15:8] then dq.o[7:0]; dq.e / rwds.e are the output enables of that same cycle",
                "latency count measured as in the HyperBus specification: first data clock = clock 3+N counted from CS (the third command clock is latency clock 1); N is HyperRAMInterface.HIGH_LATENCY_CLOCKS when RWDS was high through the command, LOW or HIGH admitted otherwise",
                "register writes are single-word, zero-latency transactions",
                "memory RWDS: free per cycle (00/11/10/01) while CS is low and during the command; in a read it falls to low no later than the end of the first latency count (clock 3+LOW) and stays low until the data phase, where strobes in both PHY alignments, pauses and glitches are free from clock 3+N on",
                "the environment forces final_word after cfg['words'] words; reads may be stalled by the memory indefinitely",
                "read data values, write data values and RWDS masking are not part of the statement and are not checked"]

    def goals(self):
        g = self._goals()
        if max(self.cfg["holds"]) < 7: g.remove("start-held-long")
        return g

    def _goals(self):
        return ["regwrite-done", "memwrite-done", "read-done", "regread-done", "rwds-high-command", "rwds-low-command",
                "multiword-write", "multiword-read", "start-held-long", "back-to-back-request", "second-transaction",
                "rwds-falls-during-latency"]

    def env0(self):
        # (pend, age, tx, hold, last, ntx, pidle)   pidle: `idle` was high in the previous cycle
        return (None, 0, None, None, (0, 0, 0, 0), 0, 0)

    # ------------------------------------------------------------------ menus
    def actions(self, env):
        pend, age, tx, hold, last, ntx, pidle = env
        acts = []
        closing = True          # the interface may show `idle` in the coming cycle (apply prunes starts when it does not)
        if tx is None or tx[7]:
            for r in (0, 3):
                acts.append((None, r, 0, 0, 0))
        else:
            req, clk, rwhi, cands, acc, clkd, fin, done, data, rl = tx
            addr, reg, wr, single = req
            closing = fin or (wr and reg and acc >= 1)
            finals = (1,) if acc >= self.words - 1 else (0, 1)
            if clk < 3:
                for r in (0, 3, 2, 1):
                    for w in ((0, 1) if wr else (0,)):
                        acts.append((None, r, 0, 0, w))
            elif wr:
                for r in (0, 3):
                    for f in (finals if not reg else (0,)):
                        for w in (0, 1):
                            acts.append((None, r, 0, f, w))
            else:
                nmin = self.LOW if (cands & 1) else self.HIGH
                if clk + 1 < 3 + nmin:
                    # latency of a read: RWDS falls from its latency indication within the first latency count, then stays low
                    for r in ((0,) if rl else ((3, 2, 0) if clk + 1 < 3 + self.LOW else (2, 0))):
                        acts.append((None, r, 0, 0, 0))
                else:
                    for r in (0, 3, 2, 1):
                        for q in (0, 1):
                            for f in finals:
                                acts.append((None, r, q, f, 0))
        if closing and hold is None and pend is None and ntx < self.cfg["max_tx"]:
            for s in self._starts:
                acts.append((s, 3, 0, 0, 0))
        return acts

    def label(self, a):
        s, r, q, f, w = a
        d = dict(rwds_i=r, dq_i=hex(DQ_VALS[q]), final_word=f, write_data=hex(WD_VALS[w]))
        if s: d["start"] = dict(address=hex(s[0]), register_space=s[1], perform_write=s[2], single_page=s[3], held_cycles=s[4])
        return d

    # ------------------------------------------------------------------ one cycle
    def apply(self, cur, env, a):
        pend, age, tx, hold, last, ntx, pidle = env
        s, rwds, q, final, w = a
        start = 0
        if hold is not None:
            if s is not None: return None
            h, hreq = hold
            start = 1; fields = hreq
            hold = (h - 1, hreq) if h > 1 else None
        elif s is not None:
            fields = s[:4]
            kw = dict(address=fields[0], register_space=fields[1], perform_write=fields[2], single_page=fields[3],
                      start_transfer=1, rwds_i=rwds)
            if not cur.peek(**kw).idle:
                return None                       # environment assumption: requests are started only while idle
            start = 1
            hold = (s[4] - 1, fields) if s[4] > 1 else None
            if s[4] >= 7: self.cover["start-held-long"] += 1
        else:
            fields = (last[0] ^ 0xFFFFFFFF, last[1] ^ 1, last[2] ^ 1, last[3] ^ 1)
        o = cur.step(address=fields[0], register_space=fields[1], perform_write=fields[2], single_page=fields[3],
                     start_transfer=start, final_word=final, write_data=WD_VALS[w], dq_i=DQ_VALS[q], rwds_i=rwds)

        # ---- bus monitor
        if tx is None:
            if o.cs:
                if pend is None:
                    raise Violation("cs-asserted-without-request", dict(obs=o._asdict()))
                tx = (pend, 0, True, 3, 0, 0, False, False, False, False)
                pend = None
            else:
                if o.dq_e: raise Violation("dq-driven-while-deselected", dict(obs=o._asdict()))
                if o.rwds_e: raise Violation("rwds-driven-while-deselected", dict(obs=o._asdict()))
        if tx is not None:
            req, clk, rwhi, cands, acc, clkd, fin, done, data, rl = tx
            addr, reg, wr, single = req
            if not o.cs:
                # the transaction leaves the bus
                if clk < 3:
                    raise Violation("cs-released-during-command", dict(clocks=clk, request=self._rq(req)))
                if not done:
                    if wr and (fin or reg) and acc > clkd:
                        raise Violation("cs-released-before-last-word-clocked", dict(accepted=acc, clocked=clkd, request=self._rq(req)))
                    raise Violation("cs-released-before-final-word", dict(clocks=clk, words=acc, request=self._rq(req)))
                if o.dq_e: raise Violation("dq-driven-while-deselected", dict(obs=o._asdict()))
                if o.rwds_e: raise Violation("rwds-driven-while-deselected", dict(obs=o._asdict()))
                key = ("reg" if reg else "mem") + ("write" if wr else "read") + "-done"
                self.cover[{"memread-done": "read-done"}.get(key, key)] += 1
                if wr and acc >= 2: self.cover["multiword-write"] += 1
                if not wr and acc >= 2: self.cover["multiword-read"] += 1
                tx = None
            else:
                pulse = o.clk_en
                rl = not (rwds & 1)
                if done:
                    if pulse and (wr or o.dq_e):
                        if pend is not None:
                            raise Violation("cs-not-released-between-transactions",
                                            dict(previous=self._rq(req), next=self._rq(pend),
                                                 note="clock issued for the next request while CS is still asserted from the previous transaction"))
                        raise Violation("clock-after-final-write-word", dict(request=self._rq(req)))
                    if not wr and o.dq_e: raise Violation("dq-driven-during-read", dict(clock=clk, request=self._rq(req)))
                    if not wr and o.rwds_e: raise Violation("rwds-driven-during-read", dict(clock=clk, request=self._rq(req)))
                else:
                    if pulse and clk < self.clk_sat: clk += 1
                    if clk < 3 or (clk == 3 and pulse):
                        # ---------------- command phase
                        if o.rwds_e:
                            raise Violation("rwds-driven-during-command", dict(clock=clk, request=self._rq(req)))
                        if rwds != 3: rwhi = False
                        if pulse:
                            exp = ca_words(req)[clk - 1]
                            if not o.dq_e:
                                raise Violation("ca-not-driven", dict(clock=clk, request=self._rq(req)))
                            if o.dq_o != exp:
                                raise Violation("ca-word%d" % (clk - 1), dict(expected=hex(exp), got=hex(o.dq_o), request=self._rq(req)))
                            if clk == 3:
                                cands = 2 if rwhi else 3
                                self.cover["rwds-high-command" if rwhi else "rwds-low-command"] += 1
                    else:
                        # ---------------- after the command
                        if wr and reg:
                            if o.rwds_e:
                                raise Violation("rwds-driven-during-register-write", dict(clock=clk, request=self._rq(req)))
                            if pulse:
                                if clk == 4:
                                    if not o.dq_e:
                                        raise Violation("register-write-data-not-on-clock-4", dict(request=self._rq(req)))
                                    clkd += 1
                        elif wr:
                            if not data:
                                if pulse:
                                    n = clk - 3
                                    bit = 1 if n == self.LOW else (2 if n == self.HIGH else 0)
                                    if o.dq_e:
                                        if not (cands & bit):
                                            raise Violation("write-latency-count", dict(first_data_clock=clk, admitted_clocks=self._adm(cands), request=self._rq(req)))
                                        data = True; clkd += 1
                                    else:
                                        cands &= ~bit
                                        if not cands:
                                            raise Violation("write-latency-count", dict(no_data_by_clock=clk, request=self._rq(req)))
                            else:
                                if pulse and o.dq_e: clkd += 1
                            if not data and not pulse and o.dq_e:
                                raise Violation("dq-driven-during-latency", dict(clock=clk, request=self._rq(req)))
                        else:
                            if o.dq_e: raise Violation("dq-driven-during-read", dict(clock=clk, request=self._rq(req)))
                            if o.rwds_e: raise Violation("rwds-driven-during-read", dict(clock=clk, request=self._rq(req)))
                            nmin = self.LOW if (cands & 1) else self.HIGH
                            if clk < 3 + nmin and rwds == 2: self.cover["rwds-falls-during-latency"] += 1
                            if o.read_ready:
                                if clk < 3 + nmin:
                                    raise Violation("read-data-before-latency", dict(clock=clk, earliest=3 + nmin, request=self._rq(req)))
                                acc = min(acc + 1, self.words)
                                if final: fin = True; done = True
                    # write handshakes (may already happen in the last command / latency cycle)
                    if wr and o.write_ready and not fin:
                        acc = min(acc + 1, self.words + 1)
                        if final and not reg: fin = True
                    if wr:
                        clkd = min(clkd, self.words + 1)
                        if reg and clkd >= 1: done = True
                        if not reg and fin and clkd == acc: done = True
                tx = (req, clk, rwhi, cands, acc, clkd, fin, done, data, rl)
        # ---- request acceptance
        if start and o.idle:
            ntx += 1
            if ntx >= 2: self.cover["second-transaction"] += 1
            pend = fields
            age = 0
            last = fields
            if ntx >= 2 and not pidle: self.cover["back-to-back-request"] += 1     # taken in the first cycle idle is high again
        elif pend is not None and tx is None:
            age += 1
            if age > 16:
                raise Violation("request-never-reaches-bus", dict(request=self._rq(pend), cycles_waited=age))
        self.outcomes.add((o.cs, o.clk_en, o.dq_e, o.rwds_e, o.idle, o.read_ready, o.write_ready))
        return (pend, age, tx, hold, last, ntx, int(o.idle))

    def _rq(self, req):
        return dict(address=hex(req[0]), register_space=req[1], perform_write=req[2], single_page=req[3])

    def _adm(self, cands):
        return [3 + n for b, n in ((1, self.LOW), (2, self.HIGH)) if cands & b]


def make(cfg, tier):
    return HyperSpec(cfg, tier)
