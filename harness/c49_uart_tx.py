# C49 - UARTTransmitter / UARTMultibyteTransmitter produce exact 8N1 frames.   Per-cycle closure.
#
# Environment: an unconstrained stream source (any valid / payload value in every cycle; it does not even have to
# hold a rejected payload).  A word is *accepted* in a cycle with stream.valid & stream.ready.
# Oracle (written from the statement): a line monitor that sees only tx / ready / idle.
#   * every accepted word is split little-endian into bytes which are appended to a queue;
#   * while no frame is on the line tx must be 1; a 0 there is a start bit and must belong to the queue head;
#   * a frame is exactly 10*divisor cycles: start(0), 8 data bits LSB first, stop(1), `divisor` cycles each, and tx
#     is compared in every one of those cycles; the next start bit may follow the stop bit immediately;
#   * "accepted only when it will be framed next": at the moment of acceptance no earlier accepted word may still
#     be waiting for the start of its first byte (nothing can get in between), i.e. the transmitter has no queue;
#   * liveness (bound chosen by the harness, the statement fixes none): a queued byte's start bit appears at most
#     SLACK = 4*divisor+8 cycles after the line became free / the byte was queued;
#   * the 'idle' output is observed but nothing is demanded of it: the statement does not mention it (its relation to
#     ready / framing is only counted as informational cover).
from rtlmc.model import Design, Violation
from rtlmc.explore import Spec

PROPERTY = "C49"
TECHNIQUE = "per-cycle BFS closure of transmitter x line monitor; unconstrained stream source"


def configs(tier):
    out = []
    if tier == "quick":
        out.append(dict(kind="single", divisor=1, alphabet="all"))      # all 256 byte values (divisor 2 and 3 too in thorough)
        for d in (2, 3, 5, 8):
            out.append(dict(kind="single", divisor=d, alphabet="few"))
        out.append(dict(kind="multi", byte_width=2, divisor=1))
        out.append(dict(kind="multi", byte_width=2, divisor=3))
        out.append(dict(kind="multi", byte_width=3, divisor=2))
    else:
        for d in (1, 2, 3):
            out.append(dict(kind="single", divisor=d, alphabet="all"))
        for d in (4, 5, 7, 8, 16, 100, 521):
            out.append(dict(kind="single", divisor=d, alphabet="few"))
        for bw in (2, 3, 4):
            for d in (1, 2, 3, 5, 8):
                out.append(dict(kind="multi", byte_width=bw, divisor=d))
    return out


FEW_BYTES = [0x00, 0xFF, 0xA5, 0x01, 0x80, 0x3C]


def word_alphabet(bw):
    # every byte lane distinct inside a word (endianness), both line levels at both ends of a byte (start/stop
    # adjacency), an all-zero and an all-one word (run lengths)
    lanes = [0xA5, 0x3C, 0x81, 0x7E]
    w1 = sum(lanes[i] << (8 * i) for i in range(bw))
    w2 = sum((0x01 + 0x7F * (i & 1)) << (8 * i) for i in range(bw))      # 0x01, 0x80, 0x01 ...
    return [0, (1 << (8 * bw)) - 1, w1, w2]


class UartSpec(Spec):
    n_validate = 6

    def __init__(self, cfg, tier):
        super().__init__(cfg, tier)
        self.div = cfg["divisor"]
        self.bw = cfg.get("byte_width", 1)
        self.slack = 4 * self.div + 8
        if cfg["kind"] == "single":
            vals = list(range(256)) if cfg["alphabet"] == "all" else FEW_BYTES
        else:
            vals = word_alphabet(self.bw)
        self._acts = [(0, 0)] + [(1, v) for v in vals] + [(0, vals[-1])]
        self.time_budget = 600 if tier == "quick" else 3000     # safety net only; sized to finish in seconds
        self.max_states = 400_000 if tier == "quick" else 3_000_000
        if tier == "quick" and cfg.get("alphabet") == "all":
            self.max_states = 8_000       # 2819 on a correct design; 258 actions per state, so keep broken designs from running long

    def build(self):
        from luna.gateware.interface.uart import UARTTransmitter, UARTMultibyteTransmitter
        if self.cfg["kind"] == "single":
            d = UARTTransmitter(divisor=self.div)
        else:
            d = UARTMultibyteTransmitter(byte_width=self.bw, divisor=self.div)
        ins = dict(valid=d.stream.valid, payload=d.stream.payload)
        obs = dict(tx=d.tx, ready=d.stream.ready, idle=d.idle)
        return Design(d, ins, obs)

    # env = (queue, unstarted, cur, pos, wait, quiet, je)
    #   queue     tuple of bytes accepted and not yet started on the line
    #   unstarted 1 while the most recently accepted word has not had the start bit of its first byte yet
    #             (its bytes are then exactly the last byte_width entries of queue)
    #   je        1 in the cycle right after a frame's last cycle (cover bookkeeping only; implied by pos history)
    #   cur       byte being framed (or -1), pos = cycle index inside its frame
    #   wait      cycles the line has been free while the queue was non-empty
    #   quiet     cycles with nothing framed and nothing queued (saturating)
    def env0(self):
        return ((), 0, -1, 0, 0, 0, 0)

    def actions(self, env):
        return self._acts

    def assumptions(self):
        return ["stream source is unconstrained: any valid/payload every cycle (superset of a well-behaved source)",
                "liveness bound is a harness choice: start bit of a queued byte within 4*divisor+8 cycles of the line going free",
                "nothing is demanded of the 'idle' output (not part of the statement)"]

    def apply(self, cur, env, a):
        valid, payload = a
        o = cur.step(valid=valid, payload=payload)
        queue, unstarted, cb, pos, wait, quiet, je = env
        div = self.div
        # ---- line
        if cb < 0 and o.tx == 0:
            # start bit
            if not queue:
                raise Violation("spurious-start-bit", dict(note="tx low while no accepted byte is waiting"))
            if unstarted and len(queue) == self.bw:
                unstarted = 0            # the head is the first byte of the only not-yet-started word
            cb, pos, queue = queue[0], 0, queue[1:]
            self.cover["frame"] += 1
            if je: self.cover["back_to_back"] += 1
            wait = 0
        if cb >= 0:
            bit = pos // div
            exp = 0 if bit == 0 else (1 if bit == 9 else (cb >> (bit - 1)) & 1)
            if o.tx != exp:
                what = "start" if bit == 0 else ("stop" if bit == 9 else "data")
                raise Violation("frame-bit:" + what, dict(byte=cb, bit_index=bit, cycle_in_frame=pos, expected=exp, got=o.tx))
            if o.idle: self.cover["info_idle_while_framing"] += 1
            pos += 1
            in_frame_after = pos < 10 * div
            quiet = 0
        else:
            # line free (tx == 1 here)
            in_frame_after = False
            if queue:
                if o.idle and wait > 0: self.cover["info_idle_while_queued"] += 1
                wait += 1
                if wait > self.slack:
                    raise Violation("byte-not-framed", dict(queue=list(queue), waited=wait))
                quiet = 0
            else:
                if o.idle:
                    quiet = 0
                    self.cover["idle"] += 1
                else:
                    quiet = 0
                    self.cover["info_quiet_not_idle"] += 1
        if o.idle and not o.ready: self.cover["info_idle_not_ready"] += 1
        # ---- acceptance (uses the queue as it is after this cycle's line activity)
        if valid and o.ready:
            if unstarted > 0:
                raise Violation("accepted-too-early", dict(waiting=list(queue), new=payload,
                                                           note="an earlier accepted word has not begun framing yet"))
            queue = queue + tuple((payload >> (8 * i)) & 0xFF for i in range(self.bw))
            unstarted = 1
            self.cover["accept"] += 1
            if cb >= 0: self.cover["accept_while_framing"] += 1
            else: self.cover["accept_idle"] += 1
            quiet = 0
        if valid and not o.ready: self.cover["stall"] += 1
        je = 0
        if cb >= 0 and not in_frame_after:
            cb, pos, je = -1, 0, 1
            self.cover["frame_done"] += 1
        self.outcomes.add((o.tx, o.ready, o.idle, cb >= 0))
        return (queue, unstarted, cb, pos, wait, quiet, je)

    def goals(self):
        return ["frame", "frame_done", "back_to_back", "accept_idle", "accept_while_framing", "stall"]


def make(cfg, tier):
    return UartSpec(cfg, tier)
