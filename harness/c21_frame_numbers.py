# C21 - Frame and microframe numbers track received SOFs.
# DUT: USBDevice on a UTMI bus (full speed) + a bulk IN endpoint that always has data + a bulk OUT endpoint, so that
# "other packets" (tokens, data both ways, handshakes) really flow between the SOFs.  Macro-step mode: one action = one
# host packet / transaction.  The frame outputs are watched on every cycle and read back at the end of every bus event.
#
# Oracle (from the statement): reference (frame, microframe); a well-formed SOF(n) sets frame := n, microframe := 0 if
# n differs from the reported frame number else microframe + 1 (3-bit counter), and new_frame strobes exactly in the
# first case; nothing else (corrupted SOFs, other tokens, data, handshakes, the device's own transmissions) changes
# them or raises a strobe.  sof_detected is held to the class documentation: one pulse per well-formed SOF.
from rtlmc.model import Violation
from rtlmc.explore import Spec
from rtlmc import usbref as U
from rtlmc.env.usb2_host import Host, PruneCollision
from harness._usb2dev import build_device

PROPERTY = "C21"
LEVEL_TEXT = ("Closure (frontier emptied) of the real USBDevice netlist under every sequence of SOFs with frame numbers from "
              "{0, 1, 2, 0x3FF, 0x7FE, 0x7FF} (repeats, skips, wrap-around), corrupted SOFs (CRC5, PID check, truncated, over-long) and "
              "other traffic (IN transactions with/without ACK, OUT transactions, stray handshakes, tokens for another address, a data "
              "payload that looks like a SOF); frame_number/microframe_number/new_frame/sof_detected are watched on every cycle.")
TECHNIQUE = "explicit-state closure, packet-level macro steps, per-cycle strobe monitor"

FRAMES = (0, 1, 2, 0x3FF, 0x7FE, 0x7FF)


BAD = {"crc1": ("crc", 1), "crc7fe": ("crc", 0x7FE), "pid": ("pid", 2), "short": ("short", 0x3FF), "long": ("long", 2)}
SIDE = {"in+ack": ("in", 1), "in": ("in", 0), "out0": ("out", U.DATA0, "b"), "out1sof": ("out", U.DATA1, "sof"), "ack": ("hs", U.ACK),
        "tok-other": ("tok-other",)}


def configs(tier):
    # The tokenizer keeps the last token's raw field next to the frame registers, so the closure grows with
    # |frames| x |distinct packets| x endpoint states: the alphabet is split over configurations (every frame value, every
    # corruption kind and every kind of side traffic occurs in several of them, always together with frame repeats).
    t = lambda gap, pace, ready, frames, bad, side: dict(gap=gap, pace=pace, ready=ready, frames=frames, bad=bad, side=side)
    cs = [t(1, 1, 1, [0, 1, 2, 0x7FF], ["crc1", "short"], ["in+ack", "in"]),
          t(1, 1, 1, [2, 0x3FF, 0x7FE, 0x7FF], ["crc7fe", "pid", "long"], ["in+ack"]),
          t(1, 1, 1, [0, 0x7FE, 0x7FF], ["crc7fe", "long"], ["out0", "out1sof"]),
          t(3, 1, 2, [1, 2, 0x3FF], ["pid", "crc1"], ["ack", "tok-other", "in"]),
          t(2, 8, 8, [0, 1, 0x7FF], ["crc1", "short"], ["in+ack"]),
          t(2, 8, 1, [0x7FE, 0x7FF, 0], ["long"], ["out0", "tok-other"]),
          t(1, 1, 1, list(FRAMES), ["crc1", "crc7fe", "pid", "short", "long"], []),
          t(1, 2, 3, [0, 1, 0x7FF], ["crc1"], ["in+ack", "out0"])]
    if tier == "thorough":
        cs += [t(1, 1, 1, [0, 1, 2, 0x7FF], ["crc1"], ["in+ack", "in", "out0"]),
               t(1, 2, 3, [0x3FF, 0x7FE, 0x7FF, 0], ["crc7fe", "short"], ["in+ack", "out1sof", "ack"]),
               t(8, 1, 1, [0, 1, 0x7FF], ["pid", "long"], ["in+ack", "in", "out0", "tok-other"]),
               t(5, 3, 2, [2, 0x3FF, 0x7FE], ["crc7fe", "short"], ["in", "out0", "ack"]),
               t(1, 8, 1, list(FRAMES), ["crc1", "long"], ["in+ack"]),
               t(1, 1, 1, list(FRAMES), ["crc1", "crc7fe", "long"], ["in+ack", "in", "out0", "ack", "tok-other"]),
               t(1, 1, 1, list(FRAMES), list(BAD), list(SIDE))]
    return cs


class FrameSpec(Spec):
    n_validate = 5
    validate_max_cycles = 4000

    def __init__(self, cfg, tier):
        super().__init__(cfg, tier)
        self.time_budget = 240 if tier == "quick" else 1500    # safety net only: the closures are small
        self.host = Host(gap=cfg["gap"], pace=cfg["pace"], ready_period=cfg["ready"],
                         extra=dict(connect=1, in_valid=1, in_payload=0x5A, out_ready=1))
        acts = [("sof", n) for n in cfg["frames"]]
        acts += [("badsof",) + BAD[b] for b in cfg["bad"]]
        acts += [SIDE[x] for x in cfg["side"]]
        self._acts = acts
        self._side = set(cfg["side"])

    def build(self):
        from luna.gateware.usb.usb2.endpoints.stream import USBStreamInEndpoint, USBStreamOutEndpoint
        design, h = build_device(control=None, probe=False,
                                 endpoints=[lambda: USBStreamInEndpoint(endpoint_number=1, max_packet_size=2),
                                            lambda: USBStreamOutEndpoint(endpoint_number=1, max_packet_size=4)])
        ein, eout = h["endpoints"]
        dev = h["dev"]
        design.inputs.update(in_valid=ein.stream.valid, in_payload=ein.stream.payload, out_ready=eout.stream.ready)
        design.defaults.update(in_valid=1, in_payload=0x5A, out_ready=1)
        design.observes.update(frame_number=dev.frame_number, microframe_number=dev.microframe_number,
                               new_frame=dev.new_frame, sof_detected=dev.sof_detected)
        return design

    def assumptions(self):
        return self.host.assumptions() + [
            "the outputs are read back after the inter-packet gap that ends the SOF's bus event (3 + gap cycles after the end of the packet)",
            "before the first SOF the reported frame number is the register's reset value 0; for a first SOF carrying 0 both readings "
            "(repeat of frame 0 / first frame) are admitted",
            "device stays at address 0, full speed (UTMI); microframe counting is exercised by repeating frame numbers as a high-speed host would"]

    # env = (frame, microframe, virgin)   virgin = 1 until the first well-formed SOF
    def env0(self): return (0, 0, 1)
    def actions(self, env): return self._acts
    def goals(self):
        g = ["frame-change", "frame-repeat", "microframe-wrap", "corrupt-sof-ignored"]
        fr = self.cfg["frames"]
        if 0 in fr and 0x7FF in fr: g.append("frame-wrap-7ff-to-0")
        if self._side: g.append("other-packet")
        if self._side & {"in", "in+ack"}: g.append("device-sent-data-between-sofs")
        if self._side & {"out0", "out1sof"}: g.append("device-acked-out-between-sofs")
        return g

    def _packet(self, a):
        """-> (bytes, abort_after)"""
        if a[0] == "sof": return U.sof(a[1]), None
        _, kind, n = a
        p = U.sof(n)
        if kind == "crc": return (p[0], p[1] ^ 1, p[2]), None            # frame bit 0 flipped, CRC5 of the original
        if kind == "pid": return (p[0] ^ 0x10, p[1], p[2]), None          # PID check nibble wrong
        if kind == "short": return p, 2                                    # PHY drops rx_active after PID + 1 byte
        if kind == "long": return p + (0x00,), None                        # four bytes
        raise ValueError(a)

    def apply(self, cur, env, a):
        frame, micro, virgin = env
        host = self.host
        trace = [(frame, micro)]
        strobes = [0, 0]
        def watch(o):
            v = (o.frame_number, o.microframe_number)
            if trace[-1] != v: trace.append(v)
            strobes[0] += o.new_frame
            strobes[1] += o.sof_detected
        host.on_cycle = watch
        sent_data = acked = False
        try:
            try:
                if a[0] in ("sof", "badsof"):
                    pkt, abort = self._packet(a)
                    host.send(cur, pkt, False, abort_after=abort)
                elif a[0] == "in":
                    resp = host.send(cur, U.token(U.IN, 0, 1), True)
                    k = U.classify_device_packet(resp) if resp is not None else None
                    if k and k[0] == "data":
                        sent_data = True
                        if a[1]: host.send(cur, U.handshake(U.ACK), False)
                elif a[0] == "out":
                    host.send(cur, U.token(U.OUT, 0, 1), False)
                    payload = (0x77,) if a[2] == "b" else U.sof(2)
                    resp = host.send(cur, U.data_packet(a[1], payload), True)
                    acked = resp is not None and U.classify_device_packet(resp) == ("hs", U.ACK)
                elif a[0] == "hs":
                    host.send(cur, U.handshake(a[1]), False)
                elif a[0] == "tok-other":
                    host.send(cur, U.token(U.IN, 5, 1), False)
                else:
                    raise ValueError(a)
            except PruneCollision:
                return None
        finally:
            host.on_cycle = None
        o = cur.peek(line_state=1, connect=1, in_valid=1, in_payload=0x5A, out_ready=1)
        final = (o.frame_number, o.microframe_number)
        if trace[-1] != final: trace.append(final)
        nf, sd = strobes
        detail = dict(action=a, before=(frame, micro), values_seen=trace, new_frame_cycles=nf, sof_detected_cycles=sd)

        if a[0] != "sof":
            what = "corrupted-sof" if a[0] == "badsof" else "non-sof-packet"
            if any(f != frame for f, _ in trace): raise Violation(f"frame-number:changed-by-{what}", detail)
            if any(m != micro for _, m in trace): raise Violation(f"microframe:changed-by-{what}", detail)
            if nf: raise Violation(f"new-frame:raised-by-{what}", detail)
            if sd: raise Violation(f"sof-detected:raised-by-{what}", detail)
            if a[0] == "badsof": self.cover["corrupt-sof-ignored"] += 1
            else: self.cover["other-packet"] += 1
            if sent_data: self.cover["device-sent-data-between-sofs"] += 1
            if acked: self.cover["device-acked-out-between-sofs"] += 1
            self.outcomes.add((a[0], nf, sd))
            return env

        n = a[1]
        if final[0] != n: raise Violation("frame-number:not-the-sof-value", dict(detail, expected=n))
        if any(f not in (frame, n) for f, _ in trace): raise Violation("frame-number:intermediate-value", detail)
        if sd == 0: raise Violation("sof-detected:missing", detail)
        if sd > 1: raise Violation("sof-detected:more-than-one-cycle", detail)
        changed = n != frame
        if virgin and n == 0 and (nf, final[1]) == (1, 0) and len(trace) == 1:
            # first SOF ever happens to carry the reset value: also admitted as "a new frame" (see assumptions)
            self.cover["frame-repeat"] += 1
            return (0, 0, 0)
        if changed:
            if nf == 0: raise Violation("new-frame:missing-on-frame-change", detail)
            if nf > 1: raise Violation("new-frame:more-than-one-cycle", detail)
            if final[1] != 0: raise Violation("microframe:not-reset-on-frame-change", detail)
            if any(m not in (micro, 0) for _, m in trace): raise Violation("microframe:intermediate-value", detail)
            self.cover["frame-change"] += 1
            if frame == 0x7FF and n == 0: self.cover["frame-wrap-7ff-to-0"] += 1
            micro2 = 0
        else:
            if nf: raise Violation("new-frame:raised-on-repeated-frame-number", detail)
            micro2 = (micro + 1) & 7
            if final[1] != micro2: raise Violation("microframe:not-incremented-on-repeated-frame-number", dict(detail, expected=micro2))
            if any(m not in (micro, micro2) for _, m in trace): raise Violation("microframe:intermediate-value", detail)
            self.cover["frame-repeat"] += 1
            if micro == 7: self.cover["microframe-wrap"] += 1
        self.outcomes.add(("sof", changed, nf, sd))
        return (n, micro2, 0)


def make(cfg, tier):
    return FrameSpec(cfg, tier)
