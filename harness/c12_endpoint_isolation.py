# C12 - Endpoints only act on tokens for their own endpoint number (endpoint isolation).
# DUT: USBDevice on a UTMI bus (full speed) carrying four non-control endpoints:
#   IN ep1  USBStreamInEndpoint  (mps 2, fed by an eager producer from a cyclic tagged script with short/full/ZLP packet ends)
#   IN ep2  USBSignalInEndpoint  (8 bit)
#   OUT ep1 USBStreamOutEndpoint (mps 2)          OUT ep3 USBStreamOutEndpoint (mps 2)
# Endpoint numbers 3 (IN), 2 (OUT) and 4 (both directions) do not exist.
#
# Oracle = projection equivalence as a product construction.  Next to the explored device the environment state carries,
# for every endpoint X, the state of a *shadow* device that has only ever seen X's own transactions (same netlist, same
# eager producer/consumers).  Every transaction addressed to X is executed on the explored device and on X's shadow;
# the two transcripts (device packet incl. PID/toggle, payload, CRC; handshake; bytes+first/last delivered on X's output
# stream) must be identical.  By induction the sub-transcript of X under the interleaved history equals the transcript
# of the history restricted to X, for histories of any length.  Besides: tokens for absent endpoints / wrong direction
# get no answer, an OUT stream never delivers anything outside its own transactions, and the wire rules of the strict
# host (no unsolicited transmission) hold.
from rtlmc.model import Violation, Cursor
from rtlmc.explore import Spec
from rtlmc import usbref as U
from rtlmc.env.usb2_host import Host, J, K
from harness._usb2dev import build_device

PROPERTY = "C12"
LEVEL_TEXT = ("All interleavings (up to the depth bound, with state dedup) of transactions to IN ep1 (stream), IN ep2 (signal), OUT ep1, OUT ep3, "
              "tokens for absent endpoints / wrong directions, SOFs and traffic for another device address are enumerated on the real USBDevice "
              "netlist; for every endpoint a shadow copy of the netlist that only sees that endpoint's own transactions runs in lock step and "
              "every response, data toggle and delivered byte is compared (projection equivalence over unbounded histories by induction).")
TECHNIQUE = "explicit-state BFS over the product of the device with one single-endpoint-history shadow device per endpoint"

EPS = ("in1", "in2", "out1", "out3")
# cyclic producer script for IN ep1 (payload, last): packets [10 21] | [32] short | [43 54] full + end -> ZLP | ...
SCRIPT = ((0x10, 0), (0x21, 0), (0x32, 1), (0x43, 0), (0x54, 1))
SIGNAL = 0xA5

ACTS = {
    # own traffic
    "in1+": ("in", 1, 1), "in1-": ("in", 1, 0), "in2+": ("in", 2, 1), "in2-": ("in", 2, 0),
    "o1d0b": ("out", 1, U.DATA0, "b"), "o1d1b": ("out", 1, U.DATA1, "b"), "o1d0f": ("out", 1, U.DATA0, "f"), "o1d1f": ("out", 1, U.DATA1, "f"),
    "o1d0z": ("out", 1, U.DATA0, "z"), "o1d0x": ("out", 1, U.DATA0, "x"),
    "o3d0b": ("out", 3, U.DATA0, "b"), "o3d1b": ("out", 3, U.DATA1, "b"), "o3d0f": ("out", 3, U.DATA0, "f"), "o3d1f": ("out", 3, U.DATA1, "f"),
    "o3d1z": ("out", 3, U.DATA1, "z"), "o3d0x": ("out", 3, U.DATA0, "x"),
    "ping1": ("ping", 1), "ping3": ("ping", 3), "drain1": ("drain", 1), "drain3": ("drain", 3),
    # tokens for endpoints that do not exist (number or direction)
    "in3": ("in", 3, 0), "in4": ("in", 4, 0), "o2": ("out", 2, U.DATA0, "b"), "o4": ("out", 4, U.DATA1, "b"), "ping2": ("ping", 2),
    # traffic that belongs to no endpoint of this device
    "sof": ("sof",), "in-other": ("other", "in"), "out-other": ("other", "out"),
    # shared full-speed bus (hubs repeat downstream packets to every port): the host's IN transaction with ANOTHER device, as seen
    # downstream = IN token for the other address, silence while that device answers upstream, the host's ACK.  Only in the
    # "shared-bus" configurations, whose rules carry the prefix "shared-bus:" (the statement's quantifier speaks of one device).
    "ack-other": ("other", "in+ack"),
}


def owner_of(a):
    if a[0] == "in": return {1: "in1", 2: "in2"}.get(a[1])
    if a[0] in ("out", "ping", "drain"): return {1: "out1", 3: "out3"}.get(a[1])
    return None


def configs(tier):
    t = lambda gap, pace, ready, cons, depth, acts: dict(gap=gap, pace=pace, ready=ready, cons=cons, depth=depth, acts=acts,
                                                       shared_bus="ack-other" in acts)
    q = tier == "quick"
    d = (lambda a, b: a) if q else (lambda a, b: b)
    cs = [
        # the two IN endpoints against each other and against OUT traffic on the shared number 1
        t(1, 1, 1, "eager", d(8, 15), ["in1+", "in1-", "in2+", "in2-", "o1d0b", "o1d1b", "in3", "sof"]),
        t(1, 1, 1, "eager", d(8, 15), ["in1+", "in1-", "o1d0b", "o1d1f", "o3d0b", "o3d1f", "o2", "in-other"]),
        # the two OUT endpoints against each other (toggles, payload sizes, corrupted and empty packets)
        t(1, 1, 1, "eager", d(8, 15), ["o1d0b", "o1d1b", "o1d0f", "o3d0b", "o3d1b", "o3d0f", "o4", "out-other"]),
        t(2, 1, 2, "eager", d(8, 15), ["o1d0b", "o1d0x", "o1d0z", "o3d0b", "o3d0x", "o3d1z", "in2+", "o2"]),
        # stalled consumers: NAKs, full FIFOs, draining
        t(1, 1, 1, "stalled", d(8, 15), ["o1d0f", "o1d1f", "o3d0f", "o3d1f", "drain1", "drain3", "in1+"]),
        t(1, 1, 1, "stalled", d(8, 15), ["o1d0b", "o1d1b", "o3d0b", "drain1", "ping1", "ping3", "ping2", "in2-"]),
        # everything IN + signal + absent endpoints
        t(3, 1, 1, "eager", d(7, 12), ["in1+", "in1-", "in2+", "in2-", "in3", "in4", "o2", "o3d0b", "sof"]),
        # realistic byte pacing (one byte per 8 cycles of the 12 MHz full-speed UTMI clock)
        t(2, 8, 8, "eager", d(6, 9), ["in1+", "in1-", "in2+", "o1d0b", "o1d1b", "o3d0b", "in4", "sof"]),
        t(1, 2, 3, "eager", d(7, 12), ["in1+", "in2+", "in2-", "o1d0f", "o3d1b", "o3d0b", "out-other", "in-other"]),
        # shared bus: the host also acknowledges IN data of another device
        t(1, 1, 1, "eager", d(7, 12), ["in1+", "in1-", "in2+", "in2-", "o1d0b", "o3d0b", "ack-other", "in-other"]),
        t(2, 8, 8, "eager", d(5, 7), ["in1+", "in1-", "in2+", "in2-", "o1d0b", "ack-other", "sof"]),
    ]
    if not q:
        cs += [
            t(1, 1, 1, "eager", 8, ["in1+", "in1-", "in2+", "in2-", "o1d0b", "o1d1b", "o1d0f", "o3d0b", "o3d1b", "o3d0f", "in3", "o2", "sof"]),
            t(4, 1, 2, "eager", 8, ["in1+", "in1-", "in2+", "in2-", "o1d0b", "o1d0x", "o3d0b", "o3d1b", "o3d0x", "in4", "o4", "in-other"]),
            t(1, 1, 1, "stalled", 8, ["in1+", "in2+", "o1d0f", "o1d1f", "o1d0b", "o3d0f", "o3d1f", "drain1", "drain3", "ping1", "ping3", "ping2"]),
            t(2, 8, 1, "stalled", 8, ["o1d0f", "o1d1f", "o3d0f", "o3d1b", "drain1", "drain3", "in1+", "in1-"]),
            t(7, 3, 4, "eager", 10, ["in1+", "in1-", "in2-", "o1d1b", "o1d0z", "o3d0b", "o3d1z", "in3", "sof"]),
            t(1, 1, 2, "eager", 10, ["in1+", "in1-", "in2+", "in2-", "o1d0b", "o1d1b", "o3d0b", "ack-other", "in-other", "out-other", "sof"]),
        ]
    return cs


class IsolationSpec(Spec):
    n_validate = 4
    validate_max_cycles = 4000

    def __init__(self, cfg, tier):
        super().__init__(cfg, tier)
        self.max_depth = cfg["depth"]
        self.time_budget = 600 if tier == "quick" else 1500      # safety net; the depth bound is what limits the run
        self.eager = cfg["cons"] == "eager"
        r = 1 if self.eager else 0
        self.base_extra = dict(connect=1, in_valid=1, in_payload=SCRIPT[0][0], in_last=SCRIPT[0][1], out1_ready=r, out3_ready=r, sig=SIGNAL)
        self.host = Host(gap=cfg["gap"], pace=cfg["pace"], ready_period=cfg["ready"], strict_wire=True, extra=dict(self.base_extra))
        self._acts = [ACTS[n] for n in cfg["acts"]]
        self._names = set(cfg["acts"])

    def build(self):
        from luna.gateware.usb.usb2.endpoints.stream import USBStreamInEndpoint, USBStreamOutEndpoint
        from luna.gateware.usb.usb2.endpoints.status import USBSignalInEndpoint
        design, h = build_device(control=None, probe=False, endpoints=[
            lambda: USBStreamInEndpoint(endpoint_number=1, max_packet_size=2),
            lambda: USBSignalInEndpoint(width=8, endpoint_number=2),
            lambda: USBStreamOutEndpoint(endpoint_number=1, max_packet_size=2),
            lambda: USBStreamOutEndpoint(endpoint_number=3, max_packet_size=2)])
        i1, i2, o1, o3 = h["endpoints"]
        design.inputs.update(in_valid=i1.stream.valid, in_payload=i1.stream.payload, in_last=i1.stream.last, sig=i2.signal,
                             out1_ready=o1.stream.ready, out3_ready=o3.stream.ready)
        design.defaults.update(self.base_extra)
        design.observes.update(in_ready=i1.stream.ready,
                               out1_valid=o1.stream.valid, out1_payload=o1.stream.payload, out1_first=o1.stream.first, out1_last=o1.stream.last,
                               out3_valid=o3.stream.valid, out3_payload=o3.stream.payload, out3_first=o3.stream.first, out3_last=o3.stream.last)
        return design

    def assumptions(self):
        return self.host.assumptions() + [
            "transaction-level legal host: IN token then ACK only if the device sent data (or no ACK = lost); OUT/PING token then one data packet; "
            "one device address (0); full speed",
            "eager endpoint environments: the IN ep1 producer always offers the next byte of a cyclic script, OUT consumers are always ready "
            "(or, in the 'stalled' configurations, never ready except in explicit drain actions); the same environments run in the shadows",
            "shadow devices start from the state reached 16 idle cycles after reset (IN buffers filled)",
            "PING tokens are sent although the link is full speed (the statement names OUT/PING; the endpoint answers PING at any speed)",
            "traffic for another device address is limited to tokens and host data packets" + (
                "; shared-bus configuration: additionally the host's ACK that ends an IN transaction with another device (full-speed hubs repeat "
                "downstream packets to every port) - rules found here carry the prefix 'shared-bus:'" if self.cfg["shared_bus"] else
                " (handshakes the host sends to other devices only occur in the shared-bus configurations)")]

    # env = (script index of the explored device's producer, ((shadow state, shadow script index) per endpoint in EPS order))
    def prologue(self, cur):
        _, idx, _ = self._run(cur, 0, ("idle", 16))
        return (idx, tuple((cur.state, idx) for _ in EPS))

    def actions(self, env): return self._acts

    def goals(self):
        g = []
        n = self._names
        if n & {"in1+", "in1-"}: g += ["in1:data-compared"]
        if n & {"in2+", "in2-"}: g += ["in2:data-compared"]
        if any(x.startswith("o1") for x in n): g += ["out1:ack-compared"]
        if any(x.startswith("o3") for x in n): g += ["out3:ack-compared"]
        if self.eager and any(x.startswith("o1") and x[-1] in "bf" for x in n): g += ["out1:delivery-compared"]
        if self.eager and any(x.startswith("o3") and x[-1] in "bf" for x in n): g += ["out3:delivery-compared"]
        if not self.eager: g += ["out:nak-compared"]
        if n & {"in3", "in4", "o2", "o4", "ping2"}: g += ["absent-endpoint-silent"]
        if n & {"sof", "in-other", "out-other", "ack-other"}: g += ["neutral-traffic"]
        return g

    # ---- one transaction on one cursor.  Returns (transcript, new script index, beats per OUT stream)
    def _run(self, cur, idx, a):
        host = self.host
        extra = host.extra
        extra.clear(); extra.update(self.base_extra)
        extra["in_payload"], extra["in_last"] = SCRIPT[idx]
        st = [idx]
        beats = {1: [], 3: []}
        def watch(o):
            if o.in_ready:
                st[0] = (st[0] + 1) % len(SCRIPT)
                extra["in_payload"], extra["in_last"] = SCRIPT[st[0]]
            if o.out1_valid and extra["out1_ready"]: beats[1].append((o.out1_payload, o.out1_first, o.out1_last))
            if o.out3_valid and extra["out3_ready"]: beats[3].append((o.out3_payload, o.out3_first, o.out3_last))
        host.on_cycle = watch
        try:
            tr = self._transaction(cur, a, extra)
            if self.eager:
                # the consumers are always ready: let a delivery that is still running finish inside this transaction
                for _ in range(3):
                    o = cur.peek(line_state=J, **extra)
                    if not (o.out1_valid or o.out3_valid): break
                    host.idle(cur, 4)
                    host._cyc(cur, line_state=K)
                    host.idle(cur, host.gap)
                else:
                    raise Violation("out-stream:keeps-delivering-without-traffic", dict(action=a))
        finally:
            host.on_cycle = None
        return tr, st[0], beats

    def _transaction(self, cur, a, extra):
        host = self.host
        k = a[0]
        if k == "idle":
            host.idle(cur, a[1]); return None
        if k == "in":
            resp = host.send(cur, U.token(U.IN, 0, a[1]), True)
            if resp is not None and a[2] and U.classify_device_packet(resp)[0] == "data":
                host.send(cur, U.handshake(U.ACK), False)
            return resp
        if k == "out":
            _, ep, pid, kind = a
            tag = 0xA0 if ep == 1 else (0xC0 if ep == 3 else 0xE0)
            payload = {"b": (tag | 1,), "f": (tag | 2, tag | 3), "z": (), "x": (tag | 4,)}[kind]
            host.send(cur, U.token(U.OUT, 0, ep), False)
            return host.send(cur, U.data_packet(pid, payload, corrupt=(kind == "x")), True)
        if k == "ping":
            return host.send(cur, U.token(U.PING, 0, a[1]), True)
        if k == "drain":
            key = "out%d_ready" % a[1]
            extra[key] = 1
            host.idle(cur, 6)
            extra[key] = self.base_extra[key]
            host._cyc(cur, line_state=K)
            host.idle(cur, host.gap)
            return None
        if k == "sof":
            host.send(cur, U.sof(0x123), False); return None
        if k == "other":
            if a[1] == "in":
                host.send(cur, U.token(U.IN, 9, 1), False)
            elif a[1] == "in+ack":
                host.send(cur, U.token(U.IN, 9, 1), False)
                host.idle(cur, 6)                    # the other device's data packet travels upstream only
                host._cyc(cur, line_state=K)
                host.send(cur, U.handshake(U.ACK), False)
            else:
                host.send(cur, U.token(U.OUT, 9, 1), False)
                host.send(cur, U.data_packet(U.DATA0, (0x99,)), False)
            return None
        raise ValueError(a)

    @staticmethod
    def _kind(resp):
        if resp is None: return "silence"
        c = U.classify_device_packet(resp)
        if c[0] == "hs": return U.PIDNAME[c[1]]
        if c[0] == "data": return "data"
        return "malformed"

    def apply(self, cur, env, a):
        try:
            return self._apply(cur, env, a)
        except Violation as v:
            if self.cfg["shared_bus"]: raise Violation("shared-bus:" + v.rule, v.detail)
            raise

    def _apply(self, cur, env, a):
        midx, shadows = env
        own = owner_of(a)
        resp, midx2, beats = self._run(cur, midx, a)
        detail = dict(action=a, explored=dict(response=resp, out1=beats[1], out3=beats[3]))
        # an OUT stream may only deliver inside its own transactions
        for ep in (1, 3):
            if beats[ep] and own != "out%d" % ep:
                raise Violation("out%d:delivers-data-during-foreign-traffic" % ep, detail)
        if own is None:
            if a[0] in ("in", "out", "ping"):
                if resp is not None:
                    raise Violation("absent-endpoint:%s-answered" % a[0], dict(detail, kind=self._kind(resp)))
                self.cover["absent-endpoint-silent"] += 1
            else:
                self.cover["neutral-traffic"] += 1
            self.outcomes.add((a[0], resp))
            return (midx2, shadows)
        k = EPS.index(own)
        sstate, sidx = shadows[k]
        sc = Cursor(cur.model, sstate)
        sresp, sidx2, sbeats = self._run(sc, sidx, a)
        detail["alone"] = dict(response=sresp, out1=sbeats[1], out3=sbeats[3])
        if resp != sresp:
            ka, kb = self._kind(resp), self._kind(sresp)
            if ka != kb: what = "response-kind"
            elif ka == "data" and resp[0] != sresp[0]: what = "data-toggle"
            else: what = "payload"
            raise Violation(f"projection:{own}:{what}-differs-from-own-traffic-only", dict(detail, kind_interleaved=ka, kind_alone=kb))
        if own.startswith("out"):
            ep = int(own[3])
            if beats[ep] != sbeats[ep]:
                raise Violation(f"projection:{own}:delivered-data-differs-from-own-traffic-only", detail)
            kd = self._kind(resp)
            if kd == "ACK": self.cover[own + ":ack-compared"] += 1
            if kd == "NAK": self.cover["out:nak-compared"] += 1
            if beats[ep]: self.cover[own + ":delivery-compared"] += 1
        else:
            if self._kind(resp) == "data":
                self.cover[own + ":data-compared"] += 1
        self.outcomes.add((own, self._kind(resp), tuple(beats[1]), tuple(beats[3])))
        return (midx2, shadows[:k] + ((sc.state, sidx2),) + shadows[k + 1:])


def make(cfg, tier):
    return IsolationSpec(cfg, tier)
