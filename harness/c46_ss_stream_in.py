# C46 - SuperSpeedStreamInEndpoint (+ TransactionPacketGenerator): data vs NRDY, ERDY after NRDY, consecutive
# sequence numbers advancing on ACK only, identical resend on retry, stream delivered exactly once in order with
# short-packet / ZLP transfer ends.
#
# DUT: the real endpoint (endpoint 1) with its handshakes_out wired to the real TransactionPacketGenerator exactly
# as USB3ProtocolLayer does (`tp_generator.interface.connect(endpoint_interface.handshakes_out)`).
#
# Per-cycle exploration.  Every cycle the environment chooses
#   * producer: present the next word of a fixed stream script or idle (a presented word is held until accepted),
#   * host (protocol-legal events only, see assumptions): IN request = ACK TP(seq = expected, NumP = 1); after a complete
#     data packet: ACK TP(seq+1, NumP=1) / ACK TP(seq+1, NumP=0) / retry ACK TP(seq, Rty=1, NumP=1); optionally an ACK TP
#     addressed to another endpoint at any time,
#   * tx.ready (only when a tx word is presented) and header_source.ready (only when a header is presented).
# Long-run configurations take the endpoint across the 31 -> 0 sequence wrap: ~35 (or ~69) packets, with these choices
# free only in a window of acknowledged-packet counts around the wrap and a fixed eager schedule elsewhere.
#
# Oracle = a reference written from the statement / USB 3.2 chapter 8.10-8.12 (bulk IN, no bursting):
#   the stream script is cut into packets (max-packet-size packets, then a short packet, or a ZLP when the transfer
#   length is a multiple of the max packet size); the k-th packet delivered must be the k-th reference packet with
#   sequence number k mod 32; a data packet or an NRDY TP may only come as the answer to an outstanding IN request, and
#   one of them must come (lookahead probe); NRDY is refused when the packet had been complete for >= HOLD cycles (or
#   the request is a retry); after an NRDY the host does not poll until an ERDY TP arrives, which must arrive once the
#   packet is complete (lookahead probe); presented tx words must not vanish while tx.ready is low.
import math
from rtlmc.model import Design, Violation
from rtlmc.explore import Spec

PROPERTY = "C46"
LEVEL_NOTE = ("Closure (or the stated depth bound) of endpoint + transaction packet generator against a protocol-legal host, "
              "for the listed stream scripts and max packet sizes; liveness by bounded lookahead from every state.")

EP = 1
HOLD = 2           # an NRDY is accepted as legitimate unless the packet was complete this many cycles before the request
LIVE = 12          # liveness lookahead (cycles) for: answer to an IN request, ERDY after data arrives
IDLE, WAIT, RECV, GOT = 0, 1, 2, 3


def script_words(transfers):
    """transfers: list of (nbytes, ends_with_last).  Returns (words, packets(mps)) helper data."""
    words = []        # (valid_mask, data, first, last, bytes)
    b = 1
    for n, has_last in transfers:
        data = bytes(((b + i - 1) % 255) + 1 for i in range(n)); b += n
        nw = math.ceil(n / 4)
        for w in range(nw):
            chunk = data[4 * w:4 * w + 4]
            words.append(((1 << len(chunk)) - 1, int.from_bytes(chunk.ljust(4, b"\0"), "little"), int(w == 0),
                          int(has_last and w == nw - 1), chunk))
    return words


def reference_packets(transfers, mps):
    """list of (payload bytes, number of stream words that must have been accepted before the packet is complete)"""
    pk = []
    wcount = 0
    b = 1
    for n, has_last in transfers:
        data = bytes(((b + i - 1) % 255) + 1 for i in range(n)); b += n
        nw = math.ceil(n / 4)
        off = 0
        while n - off >= mps:
            pk.append((data[off:off + mps], wcount + (off + mps) // 4))
            off += mps
        if has_last:
            pk.append((data[off:], wcount + nw))            # short packet, or ZLP when nothing is left
        wcount += nw
    return pk


class InEpSpec(Spec):
    n_validate = 6

    def __init__(self, cfg, tier):
        super().__init__(cfg, tier)
        self.mps = cfg["mps"]
        self.scripts = script_set(cfg["scripts"], self.mps)
        if cfg.get("shard"):
            i, n = cfg["shard"]
            self.scripts = self.scripts[i::n]
        self.W = [script_words(t) for t in self.scripts]
        self.P = [reference_packets(t, self.mps) for t in self.scripts]
        self.words = self.pk = None          # selected per transition (see apply)
        self.fields = cfg.get("checks", "flow") == "fields"
        self.other = bool(cfg.get("other"))
        self.window = tuple(cfg["window"]) if cfg.get("window") else None
        self.backpressure = bool(cfg.get("backpressure", True))
        self.time_budget = 200 if tier == "quick" else 850      # the quick spaces take a few seconds; generous against machine load
        self.max_states = 4_000_000

    # ------------------------------------------------------------------ DUT
    def build(self):
        from amaranth import Module, Elaboratable
        from luna.gateware.usb.usb3.endpoints.stream import SuperSpeedStreamInEndpoint
        from luna.gateware.usb.usb3.protocol.transaction import TransactionPacketGenerator
        mps = self.mps

        class Composite(Elaboratable):
            def __init__(self):
                self.ep = SuperSpeedStreamInEndpoint(endpoint_number=EP, max_packet_size=mps)
                self.tpg = TransactionPacketGenerator()

            def elaborate(self, platform):
                m = Module()
                m.submodules.ep = self.ep
                m.submodules.tpg = self.tpg
                m.d.comb += self.tpg.interface.connect(self.ep.interface.handshakes_out)     # as in USB3ProtocolLayer
                return m

        d = Composite()
        ep, tpg = d.ep, d.tpg
        i, hi = ep.interface, ep.interface.handshakes_in
        ins = dict(s_valid=ep.stream.valid, s_data=ep.stream.payload, s_first=ep.stream.first, s_last=ep.stream.last,
                   h_ack=hi.ack_received, h_ep=hi.endpoint_number, h_retry=hi.retry_required, h_seq=hi.next_sequence,
                   h_nump=hi.number_of_packets, tx_ready=i.tx.ready, hq_ready=tpg.header_source.ready, address=tpg.address)
        obs = dict(s_ready=ep.stream.ready, tx_valid=i.tx.valid, tx_data=i.tx.payload, tx_first=i.tx.first, tx_last=i.tx.last,
                   tx_zlp=i.tx_zlp, tx_length=i.tx_length, tx_seq=i.tx_sequence_number, tx_ep=i.tx_endpoint_number,
                   hq_valid=tpg.header_source.valid, dw0=tpg.header_source.header.dw0, dw1=tpg.header_source.header.dw1)
        return Design(d, ins, obs, defaults=dict(address=0x2A))

    # ------------------------------------------------------------------ environment
    # env = (sid, sp, offering, acked, hst, rxn, must, blocked, since, txv, hqv); sid = index of the stream script,
    # chosen by the first action (which consumes no clock cycle)
    def env0(self):
        return (-1, 0, 0, 0, IDLE, 0, 0, 0, HOLD, 0, 0)

    def actions(self, env):
        sid, sp, offering, acked, hst, rxn, must, blocked, since, txv, hqv = env
        if sid < 0: return [("script", i) for i in range(len(self.scripts))]
        self.words = self.W[sid]
        # long-run configurations: full nondeterminism only while `acked` is inside the window around the sequence
        # wrap; outside it the producer is always ahead, the host polls / acknowledges at once and nothing stalls
        free = self.window is None or self.window[0] <= acked <= self.window[1]
        more = sp < len(self.words)
        offers = (1,) if offering else (((0, 1) if free else (1,)) if more else (0,))
        if hst == IDLE:
            host = (None,) if blocked else ((None, "IN") if free else ("IN",))
        elif hst == GOT:
            host = (None, "ACKIN", "ACK", "RETRY") if free else ("ACKIN",)
        else:
            host = (None,)
        if self.other: host = host + ("OTHER",)
        txrs = (1, 0) if (txv and self.backpressure and free) else (1,)
        hqrs = (1, 0) if (hqv and free) else (1,)
        return [(o, h, t, q) for h in host for o in offers for t in txrs for q in hqrs]

    def assumptions(self):
        return ["host follows USB 3.2 bulk IN flow (no bursting): IN request only when no request is outstanding and the "
                "endpoint is not flow-controlled (NRDY seen, no ERDY yet); ACK / retry only after a complete data packet, at "
                "least one cycle after its last word was accepted; ACK TPs carry NumP <= 1",
                "stream producer holds a presented word until it is accepted; only the word carrying `last` may be partial",
                "tx.ready and header_source.ready are arbitrary while something is presented",
                "data packet parameters (tx_length, tx_sequence_number, tx_endpoint_number) are compared in the cycle in which "
                "tx becomes valid / tx_zlp is strobed, which is when the data packet transmitter latches them",
                f"an NRDY is accepted as legitimate unless the packet was complete at least {HOLD} cycles before the IN request or the request is a retry",
                f"liveness bounds: {LIVE} cycles (+ packet length) with tx.ready and header_source.ready held high",
                "ep_reset stays low",
                "long-run configurations (sequence wrap at 32): the choices are free only while the number of acknowledged packets "
                "is inside the stated window; outside it the producer always has the next word ready, the host requests / "
                "acknowledges (ACK+IN) immediately and tx / header queue never stall",
                "unsolicited ERDY TPs (endpoint not flow-controlled) are not counted as violations"]

    def drive(self, offering_word, host, acked, txr, hqr):
        kw = dict(tx_ready=txr, hq_ready=hqr)
        if offering_word is not None:
            mask, data, first, last, _ = offering_word
            kw.update(s_valid=mask, s_data=data, s_first=first, s_last=last)
        if host is not None:
            hs = acked & 31
            if host == "IN":      kw.update(h_ack=1, h_ep=EP, h_seq=hs, h_nump=1)
            elif host == "ACKIN": kw.update(h_ack=1, h_ep=EP, h_seq=(hs + 1) & 31, h_nump=1)
            elif host == "ACK":   kw.update(h_ack=1, h_ep=EP, h_seq=(hs + 1) & 31, h_nump=0)
            elif host == "RETRY": kw.update(h_ack=1, h_ep=EP, h_seq=hs, h_retry=1, h_nump=1)
            elif host == "OTHER": kw.update(h_ack=1, h_ep=EP + 1, h_seq=(hs + 1) & 31, h_nump=1)
        return kw

    def avail(self, k, sp):
        return k < len(self.pk) and sp >= self.pk[k][1]

    def apply(self, cur, env, a):
        sid, sp, offering, acked, hst, rxn, must, blocked, since, txv, hqv = env
        if a[0] == "script":
            return (a[1],) + env[1:]
        self.words, self.pk = self.W[sid], self.P[sid]
        held = None
        offer, host, txr, hqr = a
        word = self.words[sp] if offer else None
        # ---- host event (the TP is on handshakes_in during this cycle)
        if host == "IN":
            hst, must = WAIT, int(self.avail(acked, sp) and since >= HOLD)
            self.cover["in-request"] += 1
        elif host == "ACKIN":
            acked += 1
            hst, must = WAIT, int(self.avail(acked, sp) and since >= HOLD)
            self.cover["ack+in"] += 1
        elif host == "ACK":
            acked += 1; hst = IDLE
            self.cover["ack-final"] += 1
        elif host == "RETRY":
            hst, must = WAIT, 1
            self.cover["retry"] += 1
        o = cur.step(**self.drive(word, host, env[3], txr, hqr))
        ctx = dict(script=self.scripts[sid], packet_index=acked, stream_words_accepted=sp)
        # ---- stream side
        if offer and o.s_ready:
            sp += 1; offering = 0; since = 0
        else:
            offering = offer
            since = min(HOLD, since + 1)
        # ---- transaction packets
        if o.hq_valid and hqr:
            if (o.dw0 & 0x1F) != 4:
                raise Violation("tp-not-a-transaction-packet", dict(ctx, dw0=hex(o.dw0)))
            sub = o.dw1 & 0xF
            if self.fields:
                if ((o.dw1 >> 8) & 0xF) != EP:
                    raise Violation("tp-endpoint-number", dict(ctx, subtype=sub, got=(o.dw1 >> 8) & 0xF, want=EP))
                if not (o.dw1 >> 7) & 1:
                    raise Violation("tp-direction", dict(ctx, subtype=sub))
                if (o.dw0 >> 25) != 0x2A:
                    raise Violation("tp-device-address", dict(ctx, got=o.dw0 >> 25))
            if sub == 2:                                     # NRDY
                if hst != WAIT:
                    raise Violation("nrdy-without-in-request" + (":while-flow-controlled" if blocked else ""), dict(ctx))
                if must:
                    raise Violation("nrdy-while-holding-data", dict(ctx))
                hst, blocked = IDLE, 1
                self.cover["nrdy"] += 1
            elif sub == 3:                                   # ERDY
                if blocked:
                    if not self.avail(acked, sp): self.cover["erdy-before-data"] += 1
                    blocked = 0
                    self.cover["erdy"] += 1
                else:
                    self.cover["unsolicited-erdy"] += 1
            else:
                raise Violation("unexpected-transaction-packet", dict(ctx, subtype=sub))
        # ---- data packets
        if o.tx_zlp:
            if hst != WAIT:
                raise Violation("data-packet-without-in-request", dict(ctx, zlp=1))
            if not self.avail(acked, sp) or len(self.pk[acked][0]) != 0:
                raise Violation("unexpected-zlp", dict(ctx, expected=self.expected_desc(acked, sp)))
            if self.fields:
                if o.tx_seq != (acked & 31): raise Violation("zlp-sequence-number", dict(ctx, got=o.tx_seq, want=acked & 31))
                if o.tx_ep != EP: raise Violation("zlp-endpoint-number", dict(ctx, got=o.tx_ep, want=EP))
            if o.tx_valid:
                raise Violation("zlp-during-data-packet", dict(ctx))
            hst = GOT
            self.cover["zlp"] += 1
            if acked >= 32: self.cover["zlp-after-wrap"] += 1
            if acked and (acked & 31) == 0: self.cover["sequence-wrap"] += 1
        held = None
        if o.tx_valid:
            if hst == WAIT:                                  # a data packet starts
                if not self.avail(acked, sp):
                    raise Violation("data-packet-before-packet-complete", dict(ctx, expected=self.expected_desc(acked, sp)))
                want = self.pk[acked][0]
                if o.tx_seq != (acked & 31):
                    raise Violation("dp-sequence-number", dict(ctx, got=o.tx_seq, want=acked & 31))
                if self.fields:
                    if o.tx_length != len(want): raise Violation("dp-length", dict(ctx, got=o.tx_length, want=len(want)))
                    if o.tx_ep != EP: raise Violation("dp-endpoint-number", dict(ctx, got=o.tx_ep, want=EP))
                hst, rxn = RECV, 0
                self.cover["dp"] += 1
                if acked and (acked & 31) == 0: self.cover["sequence-wrap"] += 1
            elif hst != RECV:
                raise Violation("data-packet-without-in-request", dict(ctx, zlp=0))
            if txr:
                want = self.pk[acked][0]
                if o.tx_valid not in (1, 3, 7, 15):
                    raise Violation("dp-valid-mask", dict(ctx, mask=o.tx_valid))
                nb = bin(o.tx_valid).count("1")
                got = o.tx_data.to_bytes(4, "little")[:nb]
                if rxn + nb > len(want) or got != want[rxn:rxn + nb]:
                    raise Violation("dp-data-mismatch", dict(ctx, offset=rxn, got=got.hex(), want=want[rxn:rxn + 4].hex(), want_length=len(want)))
                if bool(o.tx_first) != (rxn == 0):
                    raise Violation("dp-first-flag", dict(ctx, offset=rxn, first=o.tx_first))
                rxn += nb
                if bool(o.tx_last) != (rxn == len(want)):
                    raise Violation("dp-last-flag", dict(ctx, offset=rxn, last=o.tx_last, want_length=len(want)))
                if rxn == len(want):
                    hst, rxn = GOT, 0
                    self.cover["dp-complete"] += 1
                    if len(want) < self.mps: self.cover["short-packet"] += 1
            else:
                held = (o.tx_valid, o.tx_data, o.tx_first, o.tx_last)
                self.cover["tx-backpressure"] += 1
        elif hst == RECV:
            raise Violation("dp-valid-dropped-mid-packet", dict(ctx, received=rxn, want_length=len(self.pk[acked][0])))
        if acked == len(self.pk) and hst == IDLE: self.cover["all-delivered"] += 1
        # ---- what is presented next cycle (both are registered / state-only outputs)
        nxt = cur.peek(**self.drive(self.words[sp] if offering else None, None, acked, 1, 1))
        txv, hqv = int(bool(nxt.tx_valid)), int(nxt.hq_valid)
        if held is not None and (nxt.tx_valid, nxt.tx_data, nxt.tx_first, nxt.tx_last) != held:
            raise Violation("tx-word-dropped-under-backpressure", dict(ctx, presented=held, next_cycle=(nxt.tx_valid, nxt.tx_data, nxt.tx_first, nxt.tx_last)))
        held = None          # (checked by lookahead; not part of the state)
        env2 = (sid, sp, offering, acked, hst, rxn, must, blocked, since, txv, hqv)
        # ---- liveness probes
        if hst == WAIT:
            if not self.probe(cur, env2, lambda p: p.tx_valid or p.tx_zlp or p.hq_valid, LIVE):
                raise Violation("in-request-unanswered", dict(ctx, request=host or "earlier", packet_complete=self.avail(acked, sp)))
        elif hst == RECV:
            want = self.pk[acked][0]
            left = [len(want) - rxn]
            def done(p):
                if p.tx_valid: left[0] -= bin(p.tx_valid).count("1")
                return left[0] <= 0
            if not self.probe(cur, env2, done, LIVE + len(want) // 4):
                raise Violation("dp-never-completes", dict(ctx, received=rxn, want_length=len(want)))
        elif blocked and self.avail(acked, sp) and since >= HOLD:
            if not self.probe(cur, env2, lambda p: p.hq_valid, LIVE):
                raise Violation("erdy-missing-after-nrdy", dict(ctx))
        return env2

    def probe(self, cur, env, cond, n):
        """hold the producer's word (if any), no host events, everything ready: does cond(obs) become true within n cycles?"""
        f = cur.fork()
        sp, offering = env[1], env[2]
        for _ in range(n):
            w = self.words[sp] if offering else None
            o = f.step(**self.drive(w, None, env[3], 1, 1))
            if offering and o.s_ready: offering = 0; sp += 1
            if cond(o): return True
        return False

    def expected_desc(self, k, sp):
        if k >= len(self.pk): return "nothing (all packets delivered)"
        if not self.avail(k, sp): return f"nothing yet (packet {k} incomplete)"
        return f"packet {k} of {len(self.pk[k][0])} bytes"

    def label(self, a):
        if a[0] == "script": return "script=" + str(self.scripts[a[1]])
        offer, host, txr, hqr = a
        return f"{'W' if offer else '-'}{'/' + host if host else ''}{'' if txr else '/tx-stall'}{'' if hqr else '/hq-stall'}"

    def goals(self):
        g = ["in-request", "dp", "dp-complete", "nrdy", "erdy", "retry", "ack+in", "ack-final", "short-packet", "zlp",
             "tx-backpressure", "all-delivered"]
        if self.window: g += ["sequence-wrap", "zlp-after-wrap"]
        return g


# ----------------------------------------------------------------------------------------------------- module API
def script_set(name, mps):
    """named families of stream scripts; a script = list of (transfer length in bytes, ends with `last`)"""
    h = mps // 2
    if name == "quick":
        lens = [3, h + 1, mps, mps + 3, 2 * mps]
        depth, tails = 2, [0, mps]
    elif name == "thorough":
        # all triples over six lengths, plus all pairs over a wider set with a longer unfinished tail
        return script_set("triples", mps) + [q for q in script_set("wide-pairs", mps) if q not in script_set("triples", mps)]
    elif name == "triples":
        lens = [1, h + 1, mps, mps + 1, 2 * mps, 2 * mps + 3]
        depth, tails = 3, [0, 4, mps]
    elif name == "wide-pairs":
        lens = [1, 4, h + 1, mps, mps + 1, mps + 4, 2 * mps, 2 * mps + 3]
        depth, tails = 2, [0, 4, mps, 2 * mps]
    elif name == "pairs":
        lens = [2, mps, mps + 2]
        depth, tails = 2, [0]
    elif name in ("long", "long-thorough", "long-2wraps"):
        # many one-word transfers (one short packet each), with full-packet + ZLP pairs placed around packet 31 so
        # that a short packet, a full packet and a ZLP each get sequence number 31 / 0 in one of the scripts
        S, F = (3, True), (mps, True)
        if name == "long-2wraps":
            return [[S] * 28 + [F, S, F] + [S] * 27 + [F, S, F, S, S]]        # packets 0..68; F at 28,31 and 60,63
        leads = (27, 28, 29) if name == "long" else (26, 27, 28, 29, 30)
        return [[S] * n + [F, S, F, S, S, S] for n in leads]
    else:
        raise KeyError(name)
    seqs = [[]]
    out = []
    for _ in range(depth):
        seqs = [q + [n] for q in seqs for n in lens]
        out += seqs
    scripts = []
    for q in out:
        for t in tails:
            scripts.append([(n, True) for n in q] + ([(t, False)] if t else []))
    for t in tails:
        if t: scripts.append([(t, False)])
    return scripts


def configs(tier):
    if tier == "quick":
        return [dict(mps=8, scripts="quick", checks="flow", name="mps8:flow"),
                dict(mps=16, scripts="quick", checks="flow", name="mps16:flow"),
                dict(mps=8, scripts="pairs", checks="fields", name="mps8:fields"),
                dict(mps=16, scripts="pairs", checks="fields", name="mps16:fields"),
                dict(mps=8, scripts="pairs", checks="flow", other=1, name="mps8:flow:other-endpoint-traffic"),
                dict(mps=8, scripts="long", checks="fields", window=[29, 34], name="mps8:long-run:sequence-wrap")]
    return [dict(mps=8, scripts="thorough", checks="flow", shard=[i, 3], name=f"mps8:flow:shard{i}") for i in range(3)] + \
           [dict(mps=16, scripts="thorough", checks="flow", shard=[i, 5], name=f"mps16:flow:shard{i}") for i in range(5)] + \
           [dict(mps=32, scripts="quick", checks="flow", name="mps32:flow"),
            dict(mps=64, scripts="pairs", checks="flow", name="mps64:flow"),
            dict(mps=8, scripts="quick", checks="fields", name="mps8:fields"),
            dict(mps=16, scripts="quick", checks="fields", name="mps16:fields"),
            dict(mps=8, scripts="quick", checks="flow", other=1, name="mps8:flow:other-endpoint-traffic"),
            dict(mps=16, scripts="pairs", checks="flow", other=1, name="mps16:flow:other-endpoint-traffic"),
            dict(mps=8, scripts="long-thorough", checks="fields", window=[28, 35], name="mps8:long-run:sequence-wrap"),
            dict(mps=16, scripts="long-thorough", checks="flow", window=[28, 35], name="mps16:long-run:sequence-wrap"),
            dict(mps=8, scripts="long-2wraps", checks="flow", window=[62, 65], name="mps8:long-run:two-wraps")]


def make(cfg, tier):
    return InEpSpec(cfg, tier)
