# C32 - CTCSkipRemover: with the downstream always ready (as wired in USB3PhysicalLayer) the output is the input
# symbol sequence with every SKP (K28.1) removed, same order, no loss / duplication, regrouped in 4-symbol words.
#
# Per-cycle closure.  Oracle: a plain FIFO of the non-SKP symbols of every valid input word; every valid output
# word must equal the four oldest pending symbols; the FIFO may never hold more than MAXPEND symbols (a symbol
# that stays inside the DUT for ever is a lost symbol).  Latency is not fixed: the current input word is pushed
# before the current output is compared, so a combinational implementation would pass as well.
#
# Two kinds of configuration:
#   tagged : the non-SKP symbols are numbered along the stream (byte / K-flag pattern of period 15, including
#            the decoy "0x3C sent as *data*", which is not a SKP), the environment picks which of the four byte
#            lanes carry a SKP (all 16 masks) and whether the word is valid.
#   free   : every lane independently takes any symbol of a small alphabet (SKP, decoy, near-miss K symbol, ...).
from rtlmc.model import Design, Violation
from rtlmc.explore import Spec

PROPERTY = "C32"
TECHNIQUE = ("explicit-state model checking (per-cycle BFS to closure) of the CTCSkipRemover netlist against a FIFO "
             "reference of the non-SKP symbols; traces replayed in amaranth.sim")

SKP = (0x3C, 1)
MAXPEND = 19          # 7 symbols can legitimately wait for a partner word (+ three words of latency slack: no latency is fixed)

# alphabets for the "free" configurations: (byte, is_K)
ALPHABETS = {
    "a3": [SKP, (0x3C, 0), (0xBC, 1)],                    # SKP, decoy (0x3C as data), COM (K28.5: SKP with bit 7 set)
    "a4": [SKP, (0x3C, 0), (0x3D, 1), (0x00, 0)],         # + near-miss K symbol, + the reset value of the buffer
    "a4b": [SKP, (0xBC, 1), (0x7C, 1), (0xFF, 0)],        # other K28.x symbols (one-bit neighbours of K28.1)
}


def tagged_symbol(p):
    """symbol at index p (mod 15) of the SKP-free reference stream"""
    p %= 15
    if p % 5 == 4:
        return (0x3C, 0)                                  # decoy: the SKP byte value with the K flag clear
    return (0x10 + (p % 5) + 0x20 * (p % 3), 1 if p % 3 == 0 else 0)


def configs(tier):
    if tier == "quick":
        return [dict(kind="tagged"), dict(kind="free", alphabet="a3")]
    return [dict(kind="tagged"), dict(kind="free", alphabet="a3"), dict(kind="free", alphabet="a4"),
            dict(kind="free", alphabet="a4b")]


def pack(symbols):
    data = ctrl = 0
    for i, (b, k) in enumerate(symbols):
        data |= b << (8 * i)
        ctrl |= k << i
    return data, ctrl


class SkipRemoverSpec(Spec):
    n_validate = 8

    def __init__(self, cfg, tier):
        super().__init__(cfg, tier)
        self.kind = cfg["kind"]
        self.time_budget = 150 if tier == "quick" else 800
        if self.kind == "tagged":
            acts = [(1, m) for m in range(16)] + [(0, 0), (0, 15), (0, 5)]
        else:
            self.alpha = ALPHABETS[cfg["alphabet"]]
            n = len(self.alpha)
            acts = []
            for code in range(n ** 4):
                lanes = (code % n, code // n % n, code // n // n % n, code // n // n // n % n)
                acts.append((1,) + lanes)
            acts += [(0, 0, 0, 0, 0), (0, 1, 0, 2, 0)]      # not-valid words carrying SKPs and other symbols
        self._acts = acts

    def build(self):
        from luna.gateware.usb.usb3.physical.ctc import CTCSkipRemover
        d = CTCSkipRemover()
        ins = dict(valid=d.sink.valid, data=d.sink.data, ctrl=d.sink.ctrl, ready=d.source.ready)
        obs = dict(src_valid=d.source.valid, src_data=d.source.data, src_ctrl=d.source.ctrl,
                   sink_ready=d.sink.ready, skip_removed=d.skip_removed, bytes_in_buffer=d.bytes_in_buffer)
        return Design(d, ins, obs, defaults=dict(ready=1))

    def assumptions(self):
        return ["source.ready is held high (the physical layer never stalls the receive path)",
                "the PHY cannot be stalled: every word presented with sink.valid high counts as received, whatever sink.ready shows",
                "a symbol is a SKP only if its byte is 0x3C and its K flag is set; words with sink.valid low carry no symbols",
                f"a received non-SKP symbol must have left the stage before {MAXPEND + 1} newer non-SKP symbols are waiting behind it"]

    # env = (next tag index mod 15 [tagged only, else 0], pending symbols as a tuple)
    def env0(self):
        return (0, ())

    def actions(self, env):
        return self._acts

    def word_of(self, env, a):
        """-> (list of 4 (byte,k) lane symbols, new tag index)"""
        tag = env[0]
        if self.kind == "tagged":
            valid, mask = a
            lanes = []
            for i in range(4):
                if mask >> i & 1:
                    lanes.append(SKP)
                else:
                    lanes.append(tagged_symbol(tag))
                    if valid: tag = (tag + 1) % 15
            return valid, lanes, tag
        valid = a[0]
        return valid, [self.alpha[i] for i in a[1:]], 0

    def apply(self, cur, env, a):
        valid, lanes, tag = self.word_of(env, a)
        data, ctrl = pack(lanes)
        o = cur.step(valid=valid, data=data, ctrl=ctrl)
        pending = env[1]
        if valid:
            kept = tuple(s for s in lanes if s != SKP)
            pending = pending + kept
            nskp = 4 - len(kept)
            if nskp: self.cover["skp_removed"] += 1
            if nskp == 4: self.cover["all_skp_word"] += 1
            if nskp and nskp < 4: self.cover["partial_skp_word"] += 1
            if (0x3C, 0) in kept: self.cover["decoy_kept"] += 1
        else:
            self.cover["invalid_word"] += 1
        if o.src_valid:
            got = tuple((o.src_data >> (8 * i) & 0xFF, o.src_ctrl >> i & 1) for i in range(4))
            if len(pending) < 4:
                raise Violation("output-without-input", dict(got=got, pending=pending))
            if got != pending[:4]:
                raise Violation("output-word-mismatch", dict(expected=pending[:4], got=got, pending=pending))
            pending = pending[4:]
            self.cover["output_word"] += 1
            if len(pending) == 3: self.cover["three_left_behind"] += 1
        if len(pending) > MAXPEND:
            raise Violation("symbols-stuck", dict(pending=pending, bytes_in_buffer=o.bytes_in_buffer))
        self.outcomes.add((o.src_valid, o.bytes_in_buffer, o.skip_removed))
        return (tag, pending)

    def goals(self):
        # "three_left_behind" (output word leaves exactly 3 symbols waiting) depends on the pipeline depth: informational only
        g = ["skp_removed", "all_skp_word", "partial_skp_word", "invalid_word", "output_word"]
        if self.kind == "tagged" or (0x3C, 0) in self.alpha: g.append("decoy_kept")
        return g


def make(cfg, tier):
    return SkipRemoverSpec(cfg, tier)
