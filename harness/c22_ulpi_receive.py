# C22 - ULPI receive translation yields exactly the PHY's packet bytes.
#
# DUT: UTMITranslator(ulpi=<Record as in tests/test_ulpi.py>, handle_clocking=False), per-cycle closure against the
# nondeterministic ULPI 1.1 PHY of harness/_ulpi_phy.py (DIR rise with/without NXT, RX CMDs, data bytes with NXT
# throttling, RX CMDs in mid-packet, abort by DIR fall, DIR interrupting link commands).
#
# Oracle (reference written from the statement / ULPI 1.1 3.8.1-3.8.2):
#   * PHY RxActive := DIR rise with NXT, or RX CMD bit 4; cleared by an RX CMD with bit 4 clear or by DIR falling.
#   * every byte presented with NXT under DIR while RxActive must come out on rx_data/rx_valid, in order, exactly
#     once, within RX_LAT cycles (the statement fixes no latency; the design documents one cycle; we admit 0..4);
#     nothing else may come out (RX CMD bytes, turn-around garbage).
#   * rx_active / (line_state, vbus_valid, session_end) must equal the PHY's RxActive / the decoding of the most
#     recent RX CMD as of this cycle or one of the RX_LAT preceding cycles.
from harness._ulpi_phy import UlpiSpec

PROPERTY = "C22"
TECHNIQUE = "per-cycle BFS closure of UTMITranslator against a nondeterministic ULPI PHY model"

RXCMDS = [0x0D, 0x1E, 0x02, 0x3D, 0x2C, 0x59]   # J/vbus valid/idle; K/vbus valid/RxActive; K/session end/idle; RxError; HostDisconnect; ID+sess-valid+RxActive
BYTES = [0xA5, 0x1E, 0x00]                        # one data byte equals an RX CMD value on purpose
TERM = [{}, dict(term_select=1)]


def configs(tier):
    full = dict(rxcmds=RXCMDS, rxbytes=BYTES, rise0=True, rise1=True)
    small = dict(full, rxcmds=RXCMDS[:3], rxbytes=BYTES[:2])
    # no budgets unless named: every configuration is closed under all PHY / UTMI / control-input choices (unbounded histories)
    out = [
        dict(name="rx-only", checks=["rx"], phy=full),
        dict(name="rx+register-writes", checks=["rx"], phy=small, ctrl=TERM, **(dict(budgets=dict(ctrl=3)) if tier == "quick" else {})),
        dict(name="rx+transmit", checks=["rx"], phy=small, packets=[[0xC3, 0x5A]]),
    ]
    if tier == "quick":      # quick budgets: 3 control changes above, 2 changes + 1 packet here (unbudgeted in the thorough tier)
        out.append(dict(name="rx+register-writes+transmit:2-changes-1-packet", checks=["rx"], phy=small, ctrl=TERM, packets=[[0xC3, 0x5A]],
                        budgets=dict(ctrl=2, packets=1)))
    else:
        out += [
            dict(name="rx+register-writes+transmit", checks=["rx"], phy=small, ctrl=TERM, packets=[[0xC3, 0x5A]]),
            dict(name="rx+register-writes:full-alphabet", checks=["rx"], phy=full, ctrl=TERM),
            dict(name="rx+register-writes+transmit:full-alphabet", checks=["rx"], phy=full, ctrl=TERM, packets=[[0xC3, 0x5A]]),
            dict(name="rx+two-registers+transmit", checks=["rx"], phy=small, ctrl=TERM + [dict(dp_pulldown=0)], packets=[[0xC3, 0x5A], [0x2D]]),
        ]
    if tier != "quick":
        for c in out: c["max_states"] = 1_200_000    # deterministic cap
    return out


class RxSpec(UlpiSpec):
    def goals(self):
        g = ["rise0", "rise1", "rxcmd", "rxbyte", "rx-byte-delivered", "rx-aborted-by-dir", "rx-active"]
        if len(self.ctrl) > 1: g += ["abort-reg", "rxcmd-during-regop", "regwrite"]
        if self.packets: g += ["abort-tx", "txstp"]
        return g

    def assumptions(self):
        return ["PHY outputs are registered: NXT/DIR never react to the link's outputs of the same cycle",
                "DIR stays high for at least one payload cycle after its turn-around cycle; DATA carries a poison value in turn-around cycles",
                "the PHY presents data bytes (NXT high under DIR) only while it signals RxActive (DIR rise with NXT, or RX CMD bit 4)",
                "the PHY raises DIR only on an idle bus or to abort a link command that has not completed (not inside a transmit packet, not in the STP cycle of a register write)",
                "register reads cannot be issued through UTMITranslator (read_request tied low), so read turn-arounds are not exercised",
                "UTMI outputs may lag the ULPI bus by 0..4 cycles (each output and each cause independently)"]


def make(cfg, tier):
    return RxSpec(cfg, tier)
