# C44 - idle handshake and U0 link-maintenance timers meet their timing rules.
#
# Two DUTs (real classes, elaborated), both explored per cycle to closure over their whole input alphabet:
#
#  dut=idle    luna.gateware.usb.usb3.link.idle.IdleHandshakeHandler
#     inputs per cycle: enable x one received word out of
#        I  valid logical idle (4 x D0.0)            N  valid, no idle symbol          Z  NOT valid, data/ctrl zero
#        Pa valid, symbols idle,X,idle,idle          Pb valid, idle,idle,idle,X        G  NOT valid, stale non-zero data
#        Pc valid, X,idle,idle,idle                  K1 valid, data 0 but byte 0 is a K symbol     K4 valid, 4 K symbols, data 0
#     reference (from the statement): `complete` in cycle t requires that the handshake is running (enable high without
#     interruption since cycle s <= t), that a run of >= 8 consecutive valid idle symbols received has at least one of its
#     symbols in a cycle of [s, t] (runs are counted symbol by symbol; a not-valid word carries no symbols: it neither
#     extends nor breaks a run), and that >= 16 symbols have been sent since s (4 per cycle; the word of cycle t itself is
#     counted: convention left open by the statement).  Only this safety direction is demanded; reachability of
#     `complete` is a cover goal.
#
#  dut=timers  luna.gateware.usb.usb3.link.timers.LinkMaintenanceTimers(ss_clock_frequency=f), f scaled down so that
#     10 us = K and 1 ms = R cycles are small (the statement's times scale with the parameter).
#     inputs per cycle: all 16 combinations of enable, link_command_received, packet_received, link_command_transmitted
#     reference: q_t / r_t = cycles since the last cycle before t in which a link command was transmitted / a link command
#     or packet was received (or the timers were not enabled, or reset).
#        keepalive: in every enabled stretch without transmitted link command, schedule_keepalive has been strobed at
#                   least once by the time q reaches K + 2 (early or repeated keepalives are harmless and not judged)
#        recovery:  transition_to_recovery never while r < R ("never earlier"), and strobed at r = R or R + 1 when the
#                   silence lasts that long ("within one cycle")
from rtlmc.model import Design, Violation
from rtlmc.explore import Spec

PROPERTY = "C44"
TECHNIQUE = "explicit-state BFS to closure, per cycle, all input combinations, on the elaborated IdleHandshakeHandler and LinkMaintenanceTimers"

KEEPALIVE_S, RECOVERY_S = 10e-6, 1e-3
KEEPALIVE_SLACK = 2


def configs(tier):
    cf = [dict(dut="idle")]
    # K = 10 us and R = 1 ms in cycles: (2,200) (4,400) (5,500) (10,1000); thorough adds powers of two (16 / 1024) and (20,2000) (40,4000)
    freqs = [200e3, 400e3, 500e3, 1e6] if tier == "quick" else [200e3, 300e3, 400e3, 500e3, 800e3, 1e6, 1.024e6, 1.6e6, 2e6, 4e6]
    return cf + [dict(dut="timers", f=f) for f in freqs]


# ===================================================================================================== idle handshake
#            name  valid data        ctrl    symbols (True = valid logical idle symbol), byte 0 first
WORDS = {
    "I":  (1, 0x00000000, 0b0000),
    "N":  (1, 0x4A4A4A4A, 0b0000),
    "Pa": (1, 0x00004A00, 0b0000),
    "Pb": (1, 0x4A000000, 0b0000),
    "Pc": (1, 0x0000004A, 0b0000),
    "K1": (1, 0x00000000, 0b0001),
    "K4": (1, 0x00000000, 0b1111),
    "Z":  (0, 0x00000000, 0b0000),
    "G":  (0, 0x4A4A4A4A, 0b0000),
}


def symbols(word):
    v, d, c = word
    if not v: return None
    return tuple(((d >> (8 * i)) & 0xFF) == 0 and not (c >> i) & 1 for i in range(4))


def run_update(run, syms):
    """-> (new trailing run (capped at 8), credit: a run >= 8 had one of its symbols in this word)"""
    if syms is None: return run, False
    credit = False
    for s in syms:
        if s:
            run = min(run + 1, 8)
            if run >= 8: credit = True
        else:
            run = 0
    return run, credit


class IdleSpec(Spec):
    n_validate = 4

    def __init__(self, cfg, tier):
        super().__init__(cfg, tier)
        self.time_budget = 900
        self._acts = [(en, w) for en in (0, 1) for w in WORDS]

    def build(self):
        from luna.gateware.usb.usb3.link.idle import IdleHandshakeHandler
        d = IdleHandshakeHandler()
        ins = dict(valid=d.sink.valid, data=d.sink.data, ctrl=d.sink.ctrl, enable=d.enable)
        obs = dict(complete=d.idle_handshake_complete, idle_detected=d.idle_detected)
        return Design(d, ins, obs)

    # env = (run, since, ok, twins): since = cycles the handshake has been running before this one (None: not running), capped
    # at 4.  run/ok are the reference.  The twins are laxer counts that only serve to name the cause in the rule string when the
    # reference is violated: twin 0 starts from reset as if an idle word had just been received, twin 1 additionally takes
    # not-valid all-zero words for four idle symbols.
    def env0(self):
        return (0, None, False, ((4, False), (4, False)))

    def actions(self, env):
        return self._acts

    def assumptions(self):
        return ["the word of the cycle in which idle_handshake_complete rises is counted among the symbols sent (statement open)",
                "a run of idle symbols may have started before the handshake did, as long as it continues into it",
                "not-valid words neither extend nor break a run of received idle symbols",
                "a K symbol is not a logical idle symbol whatever its data byte"]

    def goals(self):
        return ["complete", "enable-dropped-after-complete", "notvalid-word-in-handshake", "partial-idle-word"]

    def apply(self, cur, env, a):
        en, wn = a
        word = WORDS[wn]
        run, since, ok, twins = env
        o = cur.step(valid=word[0], data=word[1], ctrl=word[2], enable=en)
        syms = symbols(word)
        run, credit = run_update(run, syms)
        tw = []
        for i, (trun, tok) in enumerate(twins):
            trun, tcredit = run_update(trun, (True,) * 4 if (i == 1 and wn == "Z") else syms)
            tw.append((trun, bool(en and ((tok and since is not None) or tcredit))))
        twins = tuple(tw)
        if en:
            if since is None: since, ok = 0, False
            ok = ok or credit
            if not word[0]: self.cover["notvalid-word-in-handshake"] += 1
            if wn in ("Pa", "Pb", "Pc"): self.cover["partial-idle-word"] += 1
            if o.complete:
                self.cover["complete"] += 1
                if not ok:
                    if twins[0][1]:
                        raise Violation("idle-handshake:complete-counting-reset-value-as-idle", dict(
                            valid_idle_run=run, note="fewer than 8 consecutive valid idle symbols were received; the count only works "
                            "out if an idle word is assumed to have been received just before reset was released"))
                    if twins[1][1]:
                        raise Violation("idle-handshake:complete-on-not-valid-words", dict(
                            valid_idle_run=run, note="fewer than 8 consecutive valid idle symbols were received in this handshake; "
                            "the count only works out if not-valid words with zero data are taken for logical idle"))
                    raise Violation("idle-handshake:complete-without-8-idle-symbols", dict(valid_idle_run=run, cycles_enabled=since + 1))
                if 4 * (since + 1) < 16:
                    raise Violation("idle-handshake:complete-before-16-symbols-sent", dict(cycles_enabled_including_this=since + 1))
            since = min(since + 1, 4)
        else:
            if o.complete:
                raise Violation("idle-handshake:complete-while-not-enabled", None)
            if since is not None and since >= 4: self.cover["enable-dropped-after-complete"] += 1
            since, ok = None, False
        self.outcomes.add((o.complete, o.idle_detected))
        return (run, since, ok, twins)


# ===================================================================================================== U0 timers
class TimerSpec(Spec):
    n_validate = 3
    validate_max_cycles = 4000

    def __init__(self, cfg, tier):
        super().__init__(cfg, tier)
        self.f = cfg["f"]
        self.K = int(round(KEEPALIVE_S * self.f))
        self.R = int(round(RECOVERY_S * self.f))
        self.time_budget = 900                                  # safety nets; the state cap is the deterministic one
        self.max_states = 400_000 if tier == "quick" else 4_000_000
        self._acts = [(en, lcr, pr, lct) for en in (1, 0) for lcr in (0, 1) for pr in (0, 1) for lct in (0, 1)]

    def build(self):
        from luna.gateware.usb.usb3.link.timers import LinkMaintenanceTimers
        d = LinkMaintenanceTimers(ss_clock_frequency=self.f)
        ins = dict(enable=d.enable, lcr=d.link_command_received, pr=d.packet_received, lct=d.link_command_transmitted)
        obs = dict(keepalive=d.schedule_keepalive, recovery=d.transition_to_recovery)
        return Design(d, ins, obs)

    # env = (q, kseen, r, rseen)      q, r as defined in the header (capped once they are past every threshold)
    def env0(self):
        return (1, 0, 1, 0)

    def actions(self, env):
        return self._acts

    def assumptions(self):
        return ["ss_clock_frequency is scaled down (10 us = K cycles, 1 ms = R cycles); the rules are stated in these units",
                f"the keepalive strobe may come up to {KEEPALIVE_SLACK} cycles after the interval (counting conventions); one strobe per silent stretch is enough",
                "recovery is only demanded if the link stays enabled and silent through the cycle after the 1 ms point",
                "the timers start from reset as if the last link command had been seen in the cycle before"]

    def goals(self):
        return ["keepalive:strobe", "keepalive:due", "recovery:strobe-in-window", "recovery:restart-by-command", "recovery:restart-by-packet",
                "disable"]

    def apply(self, cur, env, a):
        en, lcr, pr, lct = a
        q, kseen, r, rseen = env
        K, R = self.K, self.R
        o = cur.step(enable=en, lcr=lcr, pr=pr, lct=lct)
        # ---- keepalive
        if o.keepalive:
            kseen = 1
            self.cover["keepalive:strobe"] += 1
        if en and not lct and q >= K + KEEPALIVE_SLACK and not kseen:
            raise Violation("keepalive:not-scheduled-after-interval", dict(cycles_without_transmitted_link_command=q, interval_cycles=K))
        if q == K and en: self.cover["keepalive:due"] += 1
        # ---- recovery
        if o.recovery:
            if r < R:
                raise Violation("recovery:requested-early", dict(cycles_since_last_received=r, required=R))
            if r <= R + 1:
                rseen = 1
                self.cover["recovery:strobe-in-window"] += 1
        if r == R + 1 and en and not (lcr or pr) and not rseen:
            raise Violation("recovery:not-requested-within-one-cycle", dict(cycles_since_last_received=r, required=R))
        # ---- advance the reference
        if lct or not en: q, kseen = 1, 0
        else: q = min(q + 1, K + KEEPALIVE_SLACK + 1)
        if lcr or pr or not en:
            if r > 1:
                if lcr and en: self.cover["recovery:restart-by-command"] += 1
                if pr and en: self.cover["recovery:restart-by-packet"] += 1
            if not en: self.cover["disable"] += 1
            r, rseen = 1, 0
        else:
            r = min(r + 1, R + 2)
        self.outcomes.add((o.keepalive, o.recovery))
        return (q, kseen, r, rseen)


def make(cfg, tier):
    return IdleSpec(cfg, tier) if cfg["dut"] == "idle" else TimerSpec(cfg, tier)
