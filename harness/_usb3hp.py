# USB 3.2 link-layer reference encoders / decoders used by the C37, C38 and C39 harnesses.
#
# Written from the USB 3.2 specification (rev 1.0), not from the gateware:
#   * 7.2.1.1.1  header packet framing: HPSTART = SHP SHP SHP EPF, then 12 bytes header information, 2 bytes CRC-16,
#                2 bytes link control word (16 symbols, LSB first, byte 0 first).
#   * 7.2.1.1.2  CRC-16: polynomial 100Bh (x^16+x^12+x^3+x+1), initial value FFFFh, computed over the 12 header
#                information bytes in transmission order (byte 0 first, bit 0 of every byte first); the remainder is
#                complemented and sent with the MSb of the remainder mapped to the bit transmitted first.
#   * 7.2.1.1.3  link control word: bits 2:0 header sequence number, 5:3 reserved, 8:6 hub depth, 9 delayed (DL),
#                10 deferred (DF), 15:11 CRC-5.  CRC-5: polynomial 00101b (x^5+x^2+1), initial value 11111b, computed
#                over bits 0..10 starting with bit 0; remainder complemented, MSb of the remainder in bit 11.
#   * 7.2.2.1/2  link command: LCSTART = SLC SLC SLC EPF followed by two identical 16-bit link command words;
#                word bits 10:9 class, 8:7 type, 6:4 reserved (0), 3:0 sub-type, 15:11 CRC-5 (same CRC-5 as above).
#   * table 7-4  LGOOD_n 00/00 sub-type 0nnn; LCRD_x 00/01 sub-type 00xx; LRTY 00/10; LBAD 00/11;
#                LGO_Ux 01/00; LAU 01/01; LXU 01/10; LPMA 01/11; LUP 10/00 (upstream port keepalive); LDN 10/11.
#   * K-symbols (table 6-? "special symbols"): SHP K27.7 = FBh, SDP K28.2 = 5Ch, EDB K28.3 = 7Ch, END K29.7 = FDh,
#                SLC K30.7 = FEh, EPF K23.7 = F7h.
# Words on the 32-bit raw stream are little endian: symbol 0 in data[7:0] / ctrl[0].
# calibrate() checks the encoders against the recorded packet of /repo/tests/test_usb3_receiver.py.

SHP, SDP, EDB, END, SLC, EPF = 0xFB, 0x5C, 0x7C, 0xFD, 0xFE, 0xF7


def _word(*syms):
    return sum(s << (8 * i) for i, s in enumerate(syms))


HPSTART = (_word(SHP, SHP, SHP, EPF), 0xF)
LCSTART = (_word(SLC, SLC, SLC, EPF), 0xF)
DPPSTART = (_word(SDP, SDP, SDP, EPF), 0xF)
DPPEND = (_word(END, END, END, EPF), 0xF)
DPPABORT = (_word(EDB, EDB, EDB, EPF), 0xF)
IDLE = (0, 0)

# link command (class << 2 | type)
LGOOD, LCRD, LRTY, LBAD = 0b0000, 0b0001, 0b0010, 0b0011
LGO_U, LAU, LXU, LPMA = 0b0100, 0b0101, 0b0110, 0b0111
LUP, LDN = 0b1000, 0b1011
LC_NAMES = {LGOOD: "LGOOD", LCRD: "LCRD", LRTY: "LRTY", LBAD: "LBAD", LGO_U: "LGO_U", LAU: "LAU", LXU: "LXU",
            LPMA: "LPMA", LUP: "LUP", LDN: "LDN"}


def crc5(bits11):
    """CRC-5 of the 11 protected bits (bit 0 first); returns the 5-bit field value as placed in bits 15:11."""
    reg = 0x1F
    for i in range(11):
        b = (bits11 >> i) & 1
        top = (reg >> 4) & 1
        reg = (reg << 1) & 0x1F
        if b ^ top: reg ^= 0b00101
    reg ^= 0x1F
    # MSb of the remainder goes to bit 11 (the lowest bit of the field): bit-reverse
    return int(f"{reg:05b}"[::-1], 2)


def crc16(dw0, dw1, dw2):
    """CRC-16 over the 12 header bytes; returns the 16-bit field value as placed in DW3[15:0]."""
    reg = 0xFFFF
    for dw in (dw0, dw1, dw2):
        for i in range(32):                 # little endian: byte 0 bit 0 first
            b = (dw >> i) & 1
            top = (reg >> 15) & 1
            reg = (reg << 1) & 0xFFFF
            if b ^ top: reg ^= 0x100B
    reg ^= 0xFFFF
    return int(f"{reg:016b}"[::-1], 2)


def link_control_word(seq, hub_depth=0, delayed=0, deferred=0, reserved=0):
    w = (seq & 7) | ((reserved & 7) << 3) | ((hub_depth & 7) << 6) | ((delayed & 1) << 9) | ((deferred & 1) << 10)
    return w | (crc5(w) << 11)


def header_words(dw0, dw1, dw2, seq, hub_depth=0, delayed=0, deferred=0, bad_crc5=False, bad_crc16=False):
    """the five (data, ctrl) words of a header packet"""
    c16 = crc16(dw0, dw1, dw2)
    if bad_crc16: c16 ^= 0x0100
    lcw = link_control_word(seq, hub_depth, delayed, deferred)
    if bad_crc5: lcw ^= 0x1000
    return [HPSTART, (dw0, 0), (dw1, 0), (dw2, 0), (c16 | (lcw << 16), 0)]


def parse_dw3(dw3):
    """-> dict(crc16, seq, reserved, hub_depth, delayed, deferred, crc5, crc5_ok)"""
    lcw = dw3 >> 16
    return dict(crc16=dw3 & 0xFFFF, seq=lcw & 7, reserved=(lcw >> 3) & 7, hub_depth=(lcw >> 6) & 7, delayed=(lcw >> 9) & 1,
                deferred=(lcw >> 10) & 1, crc5=lcw >> 11, crc5_ok=(lcw >> 11) == crc5(lcw & 0x7FF))


def link_command_word(cmd, subtype=0):
    w = (subtype & 0xF) | ((cmd & 0xF) << 7)
    return w | (crc5(w) << 11)


def link_command_words(cmd, subtype=0):
    w = link_command_word(cmd, subtype)
    return [LCSTART, (w | (w << 16), 0)]


def parse_link_command(data, ctrl):
    """second word of a link command -> (cmd, subtype) or None when malformed (K symbol, replica mismatch, CRC-5,
    reserved bits set)"""
    if ctrl != 0: return None
    w, r = data & 0xFFFF, data >> 16
    if w != r: return None
    if (w >> 11) != crc5(w & 0x7FF): return None
    if (w >> 4) & 7: return None
    return ((w >> 7) & 0xF, w & 0xF)


def calibrate():
    # recorded Link Management packet, sequence number 0 (tests/test_usb3_receiver.py)
    ws = header_words(0x00000280, 0x00010004, 0x00000000, 0)
    assert ws == [(0xF7FBFBFB, 0xF), (0x00000280, 0), (0x00010004, 0), (0x00000000, 0), (0x10001845, 0)], [hex(w) for w, _ in ws]
    p = parse_dw3(0x10001845)
    assert p["crc5_ok"] and p["seq"] == 0 and p["crc16"] == crc16(0x00000280, 0x00010004, 0)
    for c in LC_NAMES:
        for s in range(16):
            assert parse_link_command(*link_command_words(c, s)[1]) == (c, s)
    return True


# ---------------------------------------------------------------------------------------------------------------
# Shared environment for the HeaderPacketReceiver harnesses (C37, C38): DUT construction and a per-cycle monitor with
# a reference model of the receive side of the link (USB 3.2 7.2.4.1: header sequence numbers, Rx header buffer
# credits, LGOOD / LBAD / LCRD rules).
from rtlmc.model import Design, Violation

# two distinguishable header contents (dw0, dw1, dw2, hub_depth, delayed, deferred); A is the recorded packet of the
# unit test, B exercises the link-control-word fields and dense data words.
CONTENTS = ((0x00000280, 0x00010004, 0x00000000, 0, 0, 0),
            (0xA5C3F024, 0x5A3C0FDB, 0x9E3779B1, 5, 1, 1))


def build_hpr(buffer_count):
    from luna.gateware.usb.usb3.link.receiver import HeaderPacketReceiver
    d = HeaderPacketReceiver(buffer_count=buffer_count)
    q = d.queue
    ins = dict(sink_valid=d.sink.valid, sink_data=d.sink.data, sink_ctrl=d.sink.ctrl, src_ready=d.source.ready,
               enable=d.enable, usb_reset=d.usb_reset, q_ready=q.ready, retry_received=d.retry_received,
               retry_required=d.retry_required, keepalive_required=d.keepalive_required,
               accept_power_state=d.accept_power_state, reject_power_state=d.reject_power_state,
               acknowledge_power_state=d.acknowledge_power_state)
    h = q.header
    obs = dict(src_valid=d.source.valid, src_data=d.source.data, src_ctrl=d.source.ctrl,
               q_valid=q.valid, q_dw0=h.dw0, q_dw1=h.dw1, q_dw2=h.dw2, q_seq=h.sequence_number, q_hub=h.hub_depth,
               q_dl=h.delayed, q_df=h.deferred, recovery_required=d.recovery_required,
               link_command_sent=d.link_command_sent, packet_received=d.packet_received,
               bad_packet_received=d.bad_packet_received, lrty_pending=d.lrty_pending)
    return Design(d, ins, obs, defaults=dict(sink_valid=1, src_ready=1, enable=1))


class RxRef:
    """Mutable reference state of the receive side; frozen to a tuple between actions.

    N buffers; each is advertised (partner holds the credit), filled (accepted header not yet consumed by the
    protocol layer) or free-but-unadvertised:  adv + len(fifo) + freeun == N at all times."""
    FIELDS = ("exp_seq", "ignoring", "lbad_owed", "wait_retry", "fifo", "acks", "adv", "freeun", "lcrd_next", "lc_hdr",
              "rr", "terminal", "extra")       # extra: () or (age of the latest header's last word, accepted) for age <= 3
    __slots__ = FIELDS + ("n",)

    def __init__(self, n, t=None):
        self.n = n
        if t is None:
            # fresh link: header sequence number advertisement LGOOD_7 (= expected 0 minus 1) owed, every buffer free
            t = (0, False, False, False, (), (7,), 0, n, 0, 0, 0, False, ())
        for k, v in zip(self.FIELDS, t): setattr(self, k, v)

    def freeze(self):
        return tuple(getattr(self, k) for k in self.FIELDS)

    def owed(self):
        return len(self.acks) + self.freeun + int(self.lbad_owed)


def hdr_obs(o):
    return (o.q_dw0, o.q_dw1, o.q_dw2, o.q_hub, o.q_dl, o.q_df, o.q_seq)


class HprMonitor:
    """Per-cycle driver + oracle.  `spec` supplies cover/outcomes; `n` is the buffer count."""

    def __init__(self, spec, n):
        self.spec, self.n = spec, n

    # -- one clock cycle -------------------------------------------------------------------------------------
    def cyc(self, cur, r, sink=IDLE, sink_valid=1, ready=1, q_ready=0, **kw):
        rr = r.rr; r.rr = 0
        if r.extra:                      # (cycles since the last word of the latest header packet, was it acceptable)
            r.extra = (r.extra[0] + 1, r.extra[1]) if r.extra[0] < 3 else ()
        o = cur.step(sink_valid=sink_valid, sink_data=sink[0], sink_ctrl=sink[1], src_ready=ready, q_ready=q_ready,
                     retry_received=rr, **kw)
        # header queue towards the protocol layer
        if o.q_valid:
            if not r.fifo:
                raise Violation("queue:phantom-header", dict(shown=[hex(x) for x in hdr_obs(o)],
                                                             note="queue.valid although every accepted header was already consumed / none acceptable arrived"))
            c, s = r.fifo[0]
            want = CONTENTS[c] + (s,)
            if hdr_obs(o) != want:
                raise Violation("queue:wrong-header", dict(shown=[hex(x) for x in hdr_obs(o)], expected=[hex(x) for x in want],
                                                           note="(dw0, dw1, dw2, hub_depth, delayed, deferred, sequence_number) of the oldest accepted header"))
            if q_ready:
                r.fifo = r.fifo[1:]
                r.freeun += 1
                self.spec.cover["consumed"] += 1
        # link commands towards the partner
        if o.src_valid and ready:
            w = (o.src_data, o.src_ctrl)
            if not r.lc_hdr:
                if w != LCSTART:
                    raise Violation("source:not-a-link-command", dict(word=hex(w[0]), ctrl=w[1]))
                r.lc_hdr = 1
            else:
                r.lc_hdr = 0
                lc = parse_link_command(*w)
                if lc is None:
                    raise Violation("source:malformed-link-command", dict(word=hex(w[0]), ctrl=w[1]))
                self.on_command(r, lc)
        if o.recovery_required:
            self.spec.cover["recovery_required"] += 1
            if r.ignoring:
                raise Violation("ignore:recovery-raised-for-ignored-header", dict(expected_seq=r.exp_seq))
        return o

    def on_command(self, r, lc):
        cmd, sub = lc
        cov = self.spec.cover
        if cmd == LGOOD:
            if sub > 7: raise Violation("lgood:bad-subtype", dict(subtype=sub))
            if not r.acks:
                raise Violation("lgood:unexpected", dict(sent=sub, note="no accepted header is waiting for its LGOOD"))
            if r.acks[0] != sub:
                raise Violation("lgood:wrong-sequence-number", dict(sent=sub, expected=r.acks[0]))
            r.acks = r.acks[1:]
            cov["LGOOD"] += 1
        elif cmd == LCRD:
            if sub != r.lcrd_next:
                raise Violation("lcrd:out-of-order", dict(sent=sub, expected=r.lcrd_next))
            if r.freeun == 0:
                raise Violation("lcrd:no-free-buffer", dict(buffered=len(r.fifo), advertised=r.adv, buffers=self.n,
                                                            note="buffered + advertised would exceed the buffer count"))
            r.freeun -= 1; r.adv += 1
            r.lcrd_next = (r.lcrd_next + 1) % self.n
            cov["LCRD"] += 1
        elif cmd == LBAD:
            if not r.lbad_owed:
                raise Violation("lbad:unexpected", dict(ignoring=r.ignoring))
            if r.acks:
                raise Violation("lbad:before-owed-lgood", dict(owed=list(r.acks)))
            r.lbad_owed = False; r.wait_retry = True
            cov["LBAD"] += 1
        else:
            cov[LC_NAMES.get(cmd, f"LC{cmd}")] += 1
            self.other_command(r, cmd, sub)

    def other_command(self, r, cmd, sub):
        pass

    # -- partner events --------------------------------------------------------------------------------------
    def header_arrived(self, r, seq, content, good):
        """reference update in the cycle of the header's last word.  Returns 'accept' / 'bad' / 'ignored' / 'wrongseq'"""
        if r.ignoring: return "ignored"
        if not good:
            r.ignoring = True; r.lbad_owed = True
            return "bad"
        if seq != r.exp_seq: return "wrongseq"
        r.fifo = r.fifo + ((content, seq),)
        r.acks = r.acks + (seq,)
        r.adv -= 1
        r.exp_seq = (seq + 1) & 7
        return "accept"

    def send_header(self, cur, r, seq, content, corrupt=0, ready=1, invalid_after=None, q_ready_at=None):
        """partner sends one header packet (5 words; optionally a not-valid word after word `invalid_after`)"""
        c = CONTENTS[content]
        ws = header_words(c[0], c[1], c[2], seq, hub_depth=c[3], delayed=c[4], deferred=c[5],
                          bad_crc5=(corrupt == 1), bad_crc16=(corrupt == 2))
        res = None
        for i, w in enumerate(ws):
            self.cyc(cur, r, sink=w, ready=ready)
            if i == 4:
                res = self.header_arrived(r, seq, content, corrupt == 0)
                r.extra = (0, res == "accept")  # a header packet starting in the next cycle is back to back with this one
            if invalid_after == i:
                self.cyc(cur, r, sink=(0x5A5A5A5A, 0), sink_valid=0, ready=ready)
        return res

    def probe_received(self, cur, r, what):
        """lookahead on a fork: is the header that just arrived answered (LGOOD + offered / LBAD)?  Used for headers
        sent back to back behind another one, so that a receiver that loses them is reported under one rule and the
        consequences of the loss do not pollute the explored graph."""
        f = cur.fork()
        r2 = RxRef(self.n, r.freeze())
        try:
            self.drain(f, r2)
        except Violation as v:
            raise Violation("back-to-back-header:" + what, dict(inner_rule=v.rule, inner_detail=v.detail,
                            note="header packet whose HPSTART directly follows the last word of the previous header packet"))

    def send_lrty(self, cur, r, ready=1):
        for w in link_command_words(LRTY):
            self.cyc(cur, r, sink=w, ready=ready)
        r.rr = 1                       # the link command detector reports it in the following cycle
        r.ignoring = False; r.wait_retry = False

    def drain(self, cur, r, rule_prefix=""):
        """hold source.ready until everything the reference owes has been sent; liveness violations otherwise"""
        cap = 16 + 6 * (r.owed() + 3)
        quiet = 0
        for _ in range(cap):
            o = self.cyc(cur, r)
            quiet = 0 if (o.src_valid or r.lc_hdr) else quiet + 1
            if quiet >= 4 and not r.owed(): break
        if r.acks: raise Violation(rule_prefix + "lgood:missing", dict(owed=list(r.acks), cycles=cap))
        if r.freeun: raise Violation(rule_prefix + "lcrd:missing", dict(free_unadvertised=r.freeun, cycles=cap))
        if r.lbad_owed: raise Violation(rule_prefix + "lbad:missing", dict(cycles=cap))
        o = cur.peek()
        if r.fifo and not o.q_valid:
            raise Violation(rule_prefix + "queue:accepted-header-not-offered", dict(pending=list(r.fifo), cycles=cap))
        return o
